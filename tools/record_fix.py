#!/venv/bin/python
"""Record a /repo fix: reverse patch, INDEX.json, `fixed:` entry.  usage: record_fix.py <commit> <C01,C02> "<what failed>" """
import json, subprocess, sys
commit, props, text = sys.argv[1], sys.argv[2].split(","), sys.argv[3]
d = subprocess.run(["git", "-C", "/repo", "diff", f"{commit}~1", commit], capture_output=True, text=True, check=True).stdout
open(f"/verif/selftest/reverse_fixes/{commit}.diff", "w").write(d)
idx = json.load(open("/verif/selftest/reverse_fixes/INDEX.json"))
idx[commit] = props
json.dump(idx, open("/verif/selftest/reverse_fixes/INDEX.json", "w"), indent=1)
kf = json.load(open("/verif/known_findings.json"))
kf["fixed"].append(f"fixed: property={props[0]} {commit} {text}")
json.dump(kf, open("/verif/known_findings.json", "w"), indent=1)
print(len(kf["fixed"]), "fixed entries;", len(idx), "reverse patches")
