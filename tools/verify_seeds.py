#!/venv/bin/python
"""Verify sub-agent deliverables: patch applies, test suite passes with it, demo fails with it and passes without.
usage: verify_seeds.py <outdir> [ids...]   (writes <outdir>/<ID>/verify<k>.json)"""
import json, os, subprocess, sys, shutil, tempfile
from concurrent.futures import ThreadPoolExecutor
from pathlib import Path

OUT = Path(sys.argv[1])
IDS = sys.argv[2:] or sorted(p.name for p in OUT.iterdir() if p.is_dir())
SCR = Path("/dev/shm/sv")
SCR.mkdir(exist_ok=True)

def sh(cmd, cwd, timeout=300):
    full = ["unshare", "-rn", "sh", "-c", "ip link set lo up; " + cmd]
    try:
        p = subprocess.run(full, cwd=cwd, capture_output=True, text=True, timeout=timeout)
        return p.returncode, (p.stdout + p.stderr)[-1500:]
    except subprocess.TimeoutExpired:
        return 124, "timeout"

def one(job):
    pid, k = job
    d = OUT / pid
    patch = d / f"patch{k}.diff"
    demo = d / f"demo{k}.py"
    if not patch.exists() or not demo.exists():
        return pid, k, {"ok": False, "why": "missing files"}
    wt = SCR / f"{pid}_{k}"
    if wt.exists():
        subprocess.run(["git", "-C", "/repo", "worktree", "remove", "--force", str(wt)], capture_output=True)
        shutil.rmtree(wt, ignore_errors=True)
    subprocess.run(["git", "-C", "/repo", "worktree", "add", "-q", "--detach", str(wt), "HEAD"], check=True, capture_output=True)
    res = {}
    try:
        env = f"cd {wt} && PYTHONDONTWRITEBYTECODE=1 PYTHONPATH={wt}/src "
        shutil.copy(demo, wt / f"_demo{k}.py")
        rc0, o0 = sh(env + f"/venv/bin/python _demo{k}.py", wt, 120)
        res["demo_pristine_rc"] = rc0
        a = subprocess.run(["git", "apply", str(patch)], cwd=wt, capture_output=True, text=True)
        res["apply_rc"] = a.returncode
        if a.returncode != 0:
            res["apply_err"] = a.stderr[-500:]
            res["ok"] = False
            return pid, k, res
        rc, o = sh(env + "/venv/bin/python -m pytest -q -p no:cacheprovider tests/pytest 2>&1 | tail -3", wt)
        res["tests_tail"] = o.strip().splitlines()[-1] if o.strip() else ""
        res["tests_ok"] = "31 passed" in o and "failed" not in o and "error" not in o.lower()
        rc1, o1 = sh(env + f"/venv/bin/python _demo{k}.py", wt, 120)
        res["demo_patched_rc"] = rc1
        res["demo_patched_tail"] = o1[-300:]
        res["ok"] = bool(res["tests_ok"] and rc0 == 0 and rc1 != 0 and rc1 != 124)
    finally:
        subprocess.run(["git", "-C", "/repo", "worktree", "remove", "--force", str(wt)], capture_output=True)
        shutil.rmtree(wt, ignore_errors=True)
    (d / f"verify{k}.json").write_text(json.dumps(res, indent=1))
    return pid, k, res

jobs = [(pid, k) for pid in IDS for k in range(1, 10) if (OUT / pid / f"patch{k}.diff").exists()]
with ThreadPoolExecutor(8) as ex:
    for pid, k, res in ex.map(one, jobs):
        print(pid, k, "OK" if res.get("ok") else "FAIL", {x: res[x] for x in res if x in ("why", "apply_rc", "tests_tail", "demo_pristine_rc", "demo_patched_rc")}, flush=True)
