#!/bin/sh
# exhaustive behaviour-preserving variants for all properties, 5 properties at a time
for grp in "01 02 03 04 05" "06 07 08 09 10" "11 12 13 14 15" "16 17 18 19 20"; do
  for i in $grp; do (VERIF_NEUTRALS=1000 VERIF_SEED=${VERIF_SEED:-21} /venv/bin/python tools/neutral_debug.py C$i > /tmp/nsweep_C$i.txt 2>&1 &) ; done
  wait
done
