#!/venv/bin/python
"""All claimed checks on every sub-agent refactoring of <outdir> (scratch copies of /repo/src under /dev/shm, no verification of the deliverable itself).
usage: nfast.py <outdir> [ID or ID:k ...]   -> writes <outdir>/FAST_RESULTS.json"""
import json, os, subprocess, sys, shutil
from concurrent.futures import ThreadPoolExecutor
from pathlib import Path
OUT = Path(sys.argv[1]); sel = sys.argv[2:]
claimed = [c["property_id"] for c in json.loads(Path("/verif/MANIFEST.json").read_text())["checks"]]
SCR = Path("/dev/shm/nf"); SCR.mkdir(exist_ok=True)
def one(job):
    pid, k, patch = job
    w = SCR / f"{pid}_{k}"
    shutil.rmtree(w, ignore_errors=True); w.mkdir(parents=True)
    subprocess.run(["rsync", "-a", "--exclude", ".git", "--exclude", "__pycache__", "/repo/src", str(w) + "/"], check=True)
    a = subprocess.run(["patch", "-p1", "-s", "-i", str(patch)], cwd=w, capture_output=True, text=True)
    res = {"id": f"{pid}:{k}", "ok": a.returncode == 0, "alarms": [], "errors": []}
    if a.returncode == 0:
        for c in claimed:
            p = subprocess.run(["/verif/check", c], cwd="/verif", capture_output=True, text=True, env={**os.environ, "VERIF_REPO": str(w), "VERIF_NO_EVIDENCE": "1"})
            lines = [l.strip()[:260] for l in p.stdout.splitlines() if (l.startswith("  ") and ": C" in l) or "ANALYSIS-ERROR" in l]
            if p.returncode == 1:
                res["alarms"].append({"check": c, "lines": lines[:5]})
            elif p.returncode != 0:
                res["errors"].append({"check": c, "msg": lines[:2]})
    shutil.rmtree(w, ignore_errors=True)
    return res
jobs = [(d.name, k, d / f"patch{k}.diff") for d in sorted(OUT.iterdir()) if d.is_dir() for k in range(1, 12)
        if (d / f"patch{k}.diff").exists() and (not sel or d.name in sel or f"{d.name}:{k}" in sel)]
with ThreadPoolExecutor(14) as ex:
    rs = list(ex.map(one, jobs))
na = ns = nv = 0
for r in rs:
    if not r["ok"]:
        print(r["id"], "PATCH DOES NOT APPLY"); continue
    nv += 1
    st = "ALARM" if r["alarms"] else ("stopped" if r["errors"] else "silent")
    na += st == "ALARM"; ns += st == "stopped"
    if st != "silent":
        print(r["id"], st)
        for a in r["alarms"]:
            for l in a["lines"]: print("     ", l)
        for e in r["errors"]:
            for l in e["msg"]: print("     ", l)
print(f"valid={nv} alarms={na} stopped={ns} silent={nv-na-ns}")
if not sel:
    (OUT / "FAST_RESULTS.json").write_text(json.dumps(rs, indent=1))
