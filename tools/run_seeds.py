#!/venv/bin/python
"""Apply every kept seeded change to a scratch copy of /repo and run the property's check on it.
usage: run_seeds.py [--all-checks] [seed ids or property ids ...]"""
import json, os, subprocess, sys, shutil
from concurrent.futures import ThreadPoolExecutor
from pathlib import Path

VERIF = Path(__file__).resolve().parent.parent
SEEDS = VERIF / "seeded"
SCR = Path(os.environ.get("VERIF_SCRATCH", "/dev/shm")) / "seedrun"
args = [a for a in sys.argv[1:] if not a.startswith("--")]
all_checks = "--all-checks" in sys.argv
claimed = [c["property_id"] for c in json.loads((VERIF / "MANIFEST.json").read_text())["checks"]]

def one(sd: Path):
    meta = json.loads((sd / "meta.json").read_text())
    prop = meta["property"]
    wt = SCR / sd.name
    shutil.rmtree(wt, ignore_errors=True)
    wt.mkdir(parents=True)
    subprocess.run(["rsync", "-a", "--exclude", ".git", "--exclude", "__pycache__", "/repo/src", str(wt) + "/"], check=True)
    a = subprocess.run(["patch", "-p1", "-s", "-i", str(sd / "patch.diff")], cwd=wt, capture_output=True, text=True)
    res = {"seed": sd.name, "property": prop, "applied": a.returncode == 0, "caught_by": [], "errors": []}
    if a.returncode == 0:
        props = claimed if all_checks else ([prop] if prop in claimed else [])
        for p in props:
            r = subprocess.run([str(VERIF / "check"), p, "--tier", "quick"], cwd=VERIF, capture_output=True, text=True,
                               env={**os.environ, "VERIF_REPO": str(wt), "VERIF_NO_EVIDENCE": "1"})
            if r.returncode == 1:
                rules = sorted({l.split(":")[2].strip().split(" ")[0] for l in r.stdout.splitlines() if l.startswith("  ") and ": C" in l})
                res["caught_by"].append({"check": p, "rules": rules})
            elif r.returncode == 2:
                res["errors"].append({"check": p, "msg": [l for l in r.stdout.splitlines() if "ANALYSIS-ERROR" in l][:1]})
        if prop not in claimed:
            res["note"] = "property not claimed yet"
    shutil.rmtree(wt, ignore_errors=True)
    return res

sel = [d for d in sorted(SEEDS.iterdir()) if d.is_dir() and not d.name.startswith("_") and (not args or d.name in args or d.name.split("-")[0] in args)]
with ThreadPoolExecutor(12) as ex:
    results = list(ex.map(one, sel))
for r in results:
    own = [c for c in r["caught_by"] if c["check"] == r["property"]]
    status = "CAUGHT" if own else ("caught-elsewhere" if r["caught_by"] else ("ERROR" if r["errors"] else "missed"))
    print(f"{r['seed']:8} {status:16} {r['caught_by'] or ''} {r['errors'] or ''} {r.get('note','')}")
if not args:
    (SEEDS / "RESULTS.json").write_text(json.dumps(results, indent=1) + "\n")
