#!/venv/bin/python
"""Re-verify every kept seeded change against /repo's current HEAD: patch applies, the 31 tests pass with it, its demo exits 0 without and
non-zero with the patch.  usage: reverify_seeds.py [ids...]"""
import json, subprocess, sys, shutil
from concurrent.futures import ThreadPoolExecutor
from pathlib import Path
V = Path(__file__).resolve().parent.parent
SCR = Path("/dev/shm/rv"); SCR.mkdir(exist_ok=True)
ids = sys.argv[1:] or sorted(p.name for p in (V / "seeded").iterdir() if p.is_dir() and not p.name.startswith("_"))

def sh(cmd, cwd, timeout=300):
    try:
        p = subprocess.run(["unshare", "-rn", "sh", "-c", "ip link set lo up; " + cmd], cwd=cwd, capture_output=True, text=True, timeout=timeout)
        return p.returncode, (p.stdout + p.stderr)[-800:]
    except subprocess.TimeoutExpired:
        return 124, "timeout"

def one(sid):
    d = V / "seeded" / sid
    wt = SCR / sid
    subprocess.run(["git", "-C", "/repo", "worktree", "remove", "--force", str(wt)], capture_output=True)
    shutil.rmtree(wt, ignore_errors=True)
    subprocess.run(["git", "-C", "/repo", "worktree", "add", "-q", "--detach", str(wt), "HEAD"], check=True, capture_output=True)
    res = {}
    try:
        env = f"cd {wt} && PYTHONDONTWRITEBYTECODE=1 PYTHONPATH={wt}/src "
        shutil.copy(d / "demo.py", wt / "_demo.py")
        res["pristine"] = sh(env + "timeout 150 /venv/bin/python _demo.py", wt, 200)[0]
        a = subprocess.run(["git", "apply", str(d / "patch.diff")], cwd=wt, capture_output=True, text=True)
        res["apply"] = a.returncode
        if a.returncode == 0:
            rc, o = sh(env + "/venv/bin/python -m pytest -q -p no:cacheprovider tests/pytest 2>&1 | tail -3", wt)
            res["tests"] = "31 passed" in o
            res["patched"] = sh(env + "timeout 150 /venv/bin/python _demo.py", wt, 200)[0]
        res["ok"] = res.get("pristine") == 0 and res.get("apply") == 0 and res.get("tests") and res.get("patched") not in (0, 124, None)
    finally:
        subprocess.run(["git", "-C", "/repo", "worktree", "remove", "--force", str(wt)], capture_output=True)
        shutil.rmtree(wt, ignore_errors=True)
    return sid, res

bad = 0
with ThreadPoolExecutor(8) as ex:
    for sid, res in ex.map(one, ids):
        if not res.get("ok"):
            bad += 1
            print(sid, "FAIL", res, flush=True)
print(f"{len(ids) - bad}/{len(ids)} seeded changes verified against {subprocess.run(['git', '-C', '/repo', 'rev-parse', '--short', 'HEAD'], capture_output=True, text=True).stdout.strip()}")
