#!/venv/bin/python
"""Re-generate the patch of every kept seeded change that no longer applies strictly (git apply) to /repo HEAD but still applies with fuzz (patch -F3);
prints the ones that need a manual rebase.  usage: rebase_seeds.py [ids...]"""
import json, subprocess, sys, shutil
from pathlib import Path
SEED = Path("/verif/seeded")
ids = sys.argv[1:] or sorted(p.name for p in SEED.iterdir() if p.is_dir() and not p.name.startswith("_"))
head = subprocess.run(["git", "-C", "/repo", "log", "--format=%h", "-1"], capture_output=True, text=True).stdout.strip()
wt = Path("/dev/shm/rb")
subprocess.run(["git", "-C", "/repo", "worktree", "remove", "--force", str(wt)], capture_output=True)
subprocess.run(["git", "-C", "/repo", "worktree", "add", "-q", "--detach", str(wt), "HEAD"], check=True)
n_ok = n_re = 0
manual = []
try:
    for sid in ids:
        patch = SEED / sid / "patch.diff"
        if subprocess.run(["git", "apply", "--check", str(patch)], cwd=wt, capture_output=True).returncode == 0:
            n_ok += 1
            continue
        subprocess.run(["git", "checkout", "-q", "--", "."], cwd=wt)
        subprocess.run(["git", "clean", "-fdq"], cwd=wt)
        a = subprocess.run(["patch", "-p1", "-s", "-F", "3", "--no-backup-if-mismatch", "-i", str(patch)], cwd=wt, capture_output=True, text=True)
        if a.returncode != 0:
            manual.append(sid)
            subprocess.run(["git", "checkout", "-q", "--", "."], cwd=wt)
            subprocess.run(["git", "clean", "-fdq"], cwd=wt)
            continue
        d = subprocess.run(["git", "diff"], cwd=wt, capture_output=True, text=True).stdout
        patch.write_text(d)
        mp = SEED / sid / "meta.json"
        m = json.loads(mp.read_text())
        m["rebased"] = f"onto {head} (context lines changed by /repo fixes; same edit)"
        mp.write_text(json.dumps(m, indent=1))
        n_re += 1
        subprocess.run(["git", "checkout", "-q", "--", "."], cwd=wt)
finally:
    subprocess.run(["git", "-C", "/repo", "worktree", "remove", "--force", str(wt)], capture_output=True)
print(f"{n_ok} apply as they are, {n_re} re-generated, manual: {manual}")
