#!/bin/sh
# usage: ntree.sh <outdir> <ID> <k> [check ids...] : scratch copy of /repo/src with the sub-agent's patch k applied under /dev/shm/nw, then run the checks on it
OUT=$1; ID=$2; K=$3; shift 3
W=/dev/shm/nw/${ID}_$K
rm -rf $W; mkdir -p $W
rsync -a --exclude .git --exclude __pycache__ /repo/src $W/
(cd $W && patch -p1 -s -i $OUT/$ID/patch$K.diff) || echo "PATCH FAILED"
for c in "$@"; do (cd /verif && VERIF_REPO=$W VERIF_NO_EVIDENCE=1 ./check $c 2>&1 | grep -v "^KNOWN-FINDING\|^ADVISORY" | cut -c1-400); done
