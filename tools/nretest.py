#!/venv/bin/python
"""Re-run, for every sub-agent refactoring that was not silent in <out>/NEUTRAL_RESULTS.json, the checks that alarmed or stopped on it.
usage: nretest.py <outdir> [ID:k ...]"""
import json, os, subprocess, sys, shutil, re
from concurrent.futures import ThreadPoolExecutor
from pathlib import Path
OUT = Path(sys.argv[1]); sel = sys.argv[2:]
rs = json.load(open(OUT / "NEUTRAL_RESULTS.json"))
SCR = Path("/dev/shm/nw"); SCR.mkdir(exist_ok=True)
def one(r):
    pid, k = r["id"].split(":")
    checks = sorted({a["check"] for a in r["alarms"]} | {e["check"] for e in r["errors"]})
    if not checks: return None
    w = SCR / f"{pid}_{k}"
    shutil.rmtree(w, ignore_errors=True); w.mkdir(parents=True)
    subprocess.run(["rsync", "-a", "--exclude", ".git", "--exclude", "__pycache__", "/repo/src", str(w) + "/"], check=True)
    a = subprocess.run(["patch", "-p1", "-s", "-i", str(OUT / pid / f"patch{k}.diff")], cwd=w, capture_output=True, text=True)
    if a.returncode: return r["id"], [("patch", "FAILED", [])]
    out = []
    for c in checks:
        p = subprocess.run(["/verif/check", c], cwd="/verif", capture_output=True, text=True, env={**os.environ, "VERIF_REPO": str(w), "VERIF_NO_EVIDENCE": "1"})
        lines = [l.strip()[:230] for l in p.stdout.splitlines() if (l.startswith("  ") and ": C" in l) or "ANALYSIS-ERROR" in l]
        out.append((c, {0: "silent", 1: "ALARM", 2: "stopped"}.get(p.returncode, str(p.returncode)), lines[:4]))
    return r["id"], out
todo = [r for r in rs if r.get("ok") and (not sel or r["id"] in sel)]
with ThreadPoolExecutor(12) as ex:
    res = [x for x in ex.map(one, todo) if x]
na = ns = 0
for rid, out in res:
    st = "ALARM" if any(s == "ALARM" for _, s, _ in out) else ("stopped" if any(s == "stopped" for _, s, _ in out) else "silent")
    na += st == "ALARM"; ns += st == "stopped"
    if st != "silent":
        print(rid, st)
        for c, s, lines in out:
            if s != "silent":
                for l in lines: print("    ", l)
print(f"re-tested {len(res)}: alarms={na} stopped={ns} silent={len(res)-na-ns}")
