#!/venv/bin/python
"""Record the parameter names of every private function / method of /repo (the names today's rule patterns are written with) in sa/baseline_params.json.
A private function's parameters can be renamed by a maintainer without any caller noticing; the rules address them by position (see Model.mpat)."""
import ast, json, sys
sys.path.insert(0, "/verif")
from sa.model import Model
m = Model()
out = {}
for f in m.functions():
    if f.name.startswith("_") and not f.name.startswith("__"):
        a = f.node.args
        out[f.qualname] = [x.arg for x in a.posonlyargs + a.args + a.kwonlyargs]
json.dump(out, open("/verif/sa/baseline_params.json", "w"), indent=0, sort_keys=True)
print(len(out), "private functions")
