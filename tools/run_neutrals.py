#!/venv/bin/python
"""Behaviour-preserving refactorings written by blind sub-agents: verify each deliverable (patch applies, suite passes
with it, equiv program exits 0 with and without it) and run ALL claimed checks on the patched tree. Every check must
stay silent (exit 0); exit 1 is a false alarm, exit 2 an analysis that stopped.
usage: run_neutrals.py <dir with <ID>/patch<k>.diff equiv<k>.py> [--no-verify] [ids or ID:k ...]"""
import json, os, subprocess, sys, shutil
from concurrent.futures import ThreadPoolExecutor
from pathlib import Path

VERIF = Path(__file__).resolve().parent.parent
OUT = Path(sys.argv[1])
args = [a for a in sys.argv[2:] if not a.startswith("--")]
verify = "--no-verify" not in sys.argv
SCR = Path("/dev/shm/nr")
SCR.mkdir(exist_ok=True)
claimed = [c["property_id"] for c in json.loads((VERIF / "MANIFEST.json").read_text())["checks"]]


def sh(cmd, cwd, timeout=300):
    full = ["unshare", "-rn", "sh", "-c", "ip link set lo up; " + cmd]
    try:
        p = subprocess.run(full, cwd=cwd, capture_output=True, text=True, timeout=timeout)
        return p.returncode, (p.stdout + p.stderr)[-1500:]
    except subprocess.TimeoutExpired:
        return 124, "timeout"


def one(job):
    pid, k, patch, equiv = job
    wt = SCR / f"{pid}_{k}"
    subprocess.run(["git", "-C", "/repo", "worktree", "remove", "--force", str(wt)], capture_output=True)
    shutil.rmtree(wt, ignore_errors=True)
    subprocess.run(["git", "-C", "/repo", "worktree", "add", "-q", "--detach", str(wt), "HEAD"], check=True, capture_output=True)
    res = {"id": f"{pid}:{k}", "alarms": [], "errors": []}
    try:
        env = f"cd {wt} && PYTHONDONTWRITEBYTECODE=1 PYTHONPATH={wt}/src "
        if verify and equiv.exists():
            shutil.copy(equiv, wt / f"_equiv{k}.py")
            res["equiv_pristine_rc"], _ = sh(env + f"/venv/bin/python _equiv{k}.py", wt, 120)
        a = subprocess.run(["git", "apply", str(patch)], cwd=wt, capture_output=True, text=True)
        if a.returncode != 0:
            res["ok"] = False
            res["why"] = "patch does not apply: " + a.stderr[-200:]
            return res
        if verify:
            rc, o = sh(env + "/venv/bin/python -m pytest -q -p no:cacheprovider tests/pytest 2>&1 | tail -3", wt)
            res["tests_ok"] = "31 passed" in o and "failed" not in o
            if equiv.exists():
                res["equiv_patched_rc"], res["equiv_tail"] = sh(env + f"/venv/bin/python _equiv{k}.py", wt, 120)
            res["ok"] = bool(res["tests_ok"] and res.get("equiv_pristine_rc", 0) == 0 and res.get("equiv_patched_rc", 0) == 0)
        else:
            res["ok"] = True
        for p in claimed:
            r = subprocess.run([str(VERIF / "check"), p, "--tier", "quick"], cwd=VERIF, capture_output=True, text=True,
                               env={**os.environ, "VERIF_REPO": str(wt), "VERIF_NO_EVIDENCE": "1"})
            if r.returncode == 1:
                res["alarms"].append({"check": p, "lines": [l.strip()[:260] for l in r.stdout.splitlines() if l.startswith("  ") and ": C" in l and "KNOWN" not in l][:6]})
            elif r.returncode != 0:
                res["errors"].append({"check": p, "msg": [l[:260] for l in (r.stdout + r.stderr).splitlines() if "ANALYSIS-ERROR" in l or "Error" in l][:2]})
    finally:
        subprocess.run(["git", "-C", "/repo", "worktree", "remove", "--force", str(wt)], capture_output=True)
        shutil.rmtree(wt, ignore_errors=True)
    return res


jobs = []
for d in sorted(OUT.iterdir()):
    if not d.is_dir():
        continue
    for k in range(1, 12):
        p = d / f"patch{k}.diff"
        if p.exists() and (not args or d.name in args or f"{d.name}:{k}" in args):
            jobs.append((d.name, k, p, d / f"equiv{k}.py"))
with ThreadPoolExecutor(8) as ex:
    results = list(ex.map(one, jobs))
n_ok = n_alarm = n_err = 0
for r in results:
    if not r.get("ok"):
        print(f"{r['id']:8} INVALID {r.get('why','')} tests_ok={r.get('tests_ok')} equiv={r.get('equiv_pristine_rc')}/{r.get('equiv_patched_rc')}")
        continue
    n_ok += 1
    if r["alarms"]:
        n_alarm += 1
    if r["errors"]:
        n_err += 1
    status = "ALARM" if r["alarms"] else ("STOPPED" if r["errors"] else "silent")
    print(f"{r['id']:8} {status}")
    for a in r["alarms"]:
        print("     alarm", a["check"], *a["lines"], sep="\n        ")
    for e in r["errors"]:
        print("     stopped", e["check"], *e["msg"], sep="\n        ")
print(f"valid={n_ok} alarms={n_alarm} stopped={n_err} silent={n_ok - len([r for r in results if r.get('ok') and (r['alarms'] or r['errors'])])}")
(OUT / "NEUTRAL_RESULTS.json").write_text(json.dumps(results, indent=1) + "\n")
