#!/bin/sh
# usage: seed_setup.sh <root dir under /tmp>  : worktrees + prompts for a blind behaviour-preserving round (one sub-agent per property)
ROOT=$1
mkdir -p $ROOT/out
for p in $(seq -w 1 20); do
  git -C /repo worktree add -q --detach $ROOT/C$p HEAD
  mkdir -p $ROOT/out/C$p
  /venv/bin/python - $ROOT C$p <<'PY'
import json, sys
root, pid = sys.argv[1:]
props = [json.loads(l) for l in open('/verif/properties.jsonl')]
p = next(x for x in props if x['id'] == pid)
p = {k: v for k, v in p.items() if k not in ('added_in_round', 'source')}
t = open('/verif/tools/neutral_prompt.txt').read().replace('@ROOT@', root).replace('@ID@', pid).replace('@PROPERTY@', json.dumps(p, indent=1))
open(f'{root}/out/{pid}/prompt.txt', 'w').write(t)
PY
done
