#!/venv/bin/python
"""Stage verified sub-agent deliverables as seeded/<ID>-<n>.
usage: stage_seeds.py <outdir> <round> <first-number> [ids...]   (only entries whose verify<k>.json says ok)"""
import json, shutil, sys
from pathlib import Path

OUT, RND, FIRST = Path(sys.argv[1]), int(sys.argv[2]), int(sys.argv[3])
IDS = sys.argv[4:] or sorted(p.name for p in OUT.iterdir() if p.is_dir())
SEED = Path("/verif/seeded")
for pid in IDS:
    n = FIRST
    for k in range(1, 10):
        v = OUT / pid / f"verify{k}.json"
        if not v.exists() or not json.loads(v.read_text()).get("ok"):
            continue
        while (SEED / f"{pid}-{n}").exists():
            n += 1
        d = SEED / f"{pid}-{n}"
        d.mkdir()
        shutil.copy(OUT / pid / f"patch{k}.diff", d / "patch.diff")
        shutil.copy(OUT / pid / f"demo{k}.py", d / "demo.py")
        try:
            meta = json.loads((OUT / pid / f"meta{k}.json").read_text())
        except Exception:
            meta = {}
        meta.setdefault("property", pid)
        meta["round"] = RND
        (d / "meta.json").write_text(json.dumps(meta, indent=1))
        print("staged", d.name)
        n += 1
