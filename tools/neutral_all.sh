#!/bin/sh
# run only the neutral corpus quickly: thorough tier with no generated mutants
for i in $(seq -w 1 20); do VERIF_MUTANTS=0 ./check C$i --tier thorough 2>&1 | grep "selftest:\|false alarm" | cut -c1-330; done
