#!/venv/bin/python
import json,sys
for p in sys.argv[1:]:
    d=json.load(open(f'/verif/evidence/{p}.json'))
    s=d['coverage'].get('selftest',{})
    print(f"== {p}: killed {s.get('generated_killed')}/{s.get('generated_mutants')}")
    seen=set()
    for x in s.get('generated_survivors',[]):
        k=(x['function'].split('.')[-2]+'.'+x['function'].split('.')[-1], x['op'], x['detail'])
        if k in seen: continue
        seen.add(k)
        print(f"  {k[0]:45} {k[1]:9} {k[2]}")
