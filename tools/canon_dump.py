#!/venv/bin/python
"""usage: VERIF_REPO=<tree> canon_dump.py <function qualname> : print the canonical view of a function as the rules see it"""
import ast, sys
sys.path.insert(0, "/verif")
from sa.model import Model
m = Model()
f = m.require_function(sys.argv[1])
print(ast.unparse(f.node))
