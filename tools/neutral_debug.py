#!/venv/bin/python
"""Debug helper: run the behaviour-preserving variants of one property and print the full report of each one that is not silent."""
import os, sys, shutil, subprocess
from pathlib import Path
sys.path.insert(0, str(Path(__file__).resolve().parent.parent))
from sa.model import repo_root
from selftest import mutants, neutral, runner

prop = sys.argv[1]
seed = int(os.environ.get("VERIF_SEED", "0"))
src = repo_root() / "src"
modules = {}
for pat in mutants.ANCHORS.get(prop, []) + mutants.NEUTRAL_EXTRA.get(prop, []):
    parts = pat.split(".")
    for k in range(len(parts), 1, -1):
        f = (src / Path(*parts[:k])).with_suffix(".py")
        if f.exists():
            modules[".".join(parts[:k])] = f.read_text(); break
neu = neutral.generate(prop, modules, limit=int(os.environ.get("VERIF_NEUTRALS", "36")), seed=seed)
base = runner._scratch_base()
try:
    for i, nv in enumerate(neu):
        d = base / f"neu{i}"
        runner._copy_src(d)
        path = d / "src" / Path(*nv.module.split("."))
        path = path.with_suffix(".py") if path.with_suffix(".py").exists() else path / "__init__.py"
        path.write_text(nv.source)
        p = subprocess.run([sys.executable, str(runner.VERIF / "check"), prop], cwd=runner.VERIF, capture_output=True, text=True,
                           env={**os.environ, "VERIF_REPO": str(d), "VERIF_NO_EVIDENCE": "1"})
        if p.returncode != 0:
            print(f"== {nv.op} {nv.function} {nv.detail} -> exit {p.returncode}")
            print("\n".join(l[:400] for l in p.stdout.splitlines() if l.startswith("  ") or "ANALYSIS" in l))
        shutil.rmtree(d, ignore_errors=True)
finally:
    shutil.rmtree(base, ignore_errors=True)
