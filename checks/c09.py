"""C09 The session scan reports exactly the sessions reachable within the depth limit (static clauses)."""
from __future__ import annotations

import ast

from sa.cfg import CFG
from sa.model import AnalysisError, Model, walk_no_nested
from sa.report import Report

TITLE = "The session scan reports exactly the sessions reachable within the depth limit"
SCAN = "gallia.commands.scan.uds.sessions"
ECU = "gallia.services.uds.ecu"


def run(m: Model, r: Report, tier: str) -> None:
    r.rule("R1", "level-wise exploration bounded by depth: counter starts at 0, +1 per level, strict `< depth` guard, stacks grow by one session per level", floor=5)
    r.rule("R2", "the skip test dominates every request that carries the loop's session", floor=2)
    r.rule("R3", "stack restoration: after a probe that may have changed the session the stack is recovered before the next probe", floor=4)
    r.rule("R4", "classification: only subFunctionNotSupported means 'not available'; other NRCs are recorded as not entered; positives extend the stack unless already on it", floor=4)
    r.rule("R5", "probe domain is 0x01..0x7F", floor=1)
    r.rule("R8", "a session change answered busyRepeatRequest on the last attempt is returned as that negative response (recorded as identified but not entered), "
           "not turned into a timeout", floor=1)
    from sa.uds_rules import busy_last_attempt
    busy_last_attempt(m, r, "R8")
    r.rule("R6", "probing is raw: the scanner disables database transitions and ECU.set_session honours that", floor=3)

    fn = m.require_function(f"{SCAN}.SessionsScanner.main")
    whiles = [n for n in walk_no_nested(fn.node) if isinstance(n, ast.While)]
    if len(whiles) != 1:
        raise AnalysisError(f"{fn.qualname}: level loop not found")
    W = whiles[0]
    test = W.test
    # ---------------------------------------------------------------- R1
    conj = test.values if isinstance(test, ast.BoolOp) and isinstance(test.op, ast.And) else [test]
    depth_atoms = [c for c in conj if isinstance(c, ast.Compare) and "self.config.depth" in ast.unparse(c)]
    if len(depth_atoms) != 1 or not isinstance(depth_atoms[0].left, ast.Name):
        raise AnalysisError(f"{fn.qualname}: depth guard not found in `{ast.unparse(test)}`")
    ctr = depth_atoms[0].left.id
    r.check(isinstance(depth_atoms[0].ops[0], ast.Lt) and ast.unparse(depth_atoms[0].comparators[0]) == "self.config.depth", "R1",
            f"{fn.qualname}#depth-guard", f"level guard is `{ast.unparse(depth_atoms[0])}`; with a counter that starts at 0 and is incremented before "
            "probing, only `<` explores exactly `depth` levels", loc=fn.loc)
    inits = [n for n in fn.node.body if isinstance(n, ast.Assign) and ast.unparse(n.targets[0]) == ctr]
    r.check(len(inits) == 1 and m.try_fold(fn.module, inits[0].value) == 0, "R1", f"{fn.qualname}#counter-init", f"{ctr} must start at 0", loc=fn.loc)
    incs = [n for n in ast.walk(W) if isinstance(n, ast.AugAssign) and ast.unparse(n.target) == ctr]
    r.check(len(incs) == 1 and isinstance(incs[0].op, ast.Add) and m.try_fold(fn.module, incs[0].value) == 1 and incs[0] is W.body[0], "R1",
            f"{fn.qualname}#counter-step", f"{ctr} must be incremented by exactly 1 as the first statement of each level", loc=fn.loc)
    others = [n for n in ast.walk(fn.node) if isinstance(n, (ast.Assign, ast.AugAssign)) and n not in inits and n not in incs and
              any(ast.unparse(t) == ctr for t in (n.targets if isinstance(n, ast.Assign) else [n.target]))]
    r.check(not others, "R1", f"{fn.qualname}#counter-only-steps", f"{ctr} is modified elsewhere", loc=fn.loc)
    fors = [n for n in W.body if isinstance(n, ast.For)]
    FOUND = ast.unparse(fors[0].iter.value) if len(fors) == 1 and isinstance(fors[0].iter, ast.Subscript) else "found"
    ok_iter = len(fors) == 1 and ast.unparse(fors[0].iter).replace(" ", "") == f"{FOUND}[{ctr}-1]"
    r.check(ok_iter, "R1", f"{fn.qualname}#level-source", f"each level must start from the stacks found at the previous level ({FOUND}[{ctr} - 1])", loc=fn.loc)
    stackvar = ast.unparse(fors[0].target) if fors else "stack"
    appends = [n for n in ast.walk(W) if isinstance(n, ast.Call) and ast.unparse(n.func) == f"{FOUND}[{ctr}].append"]
    inner = [n for n in ast.walk(fors[0]) if isinstance(n, ast.For) and n is not fors[0]] if fors else []
    sessvar = ast.unparse(inner[0].target) if inner else "session"
    ok_sg = None
    if len(appends) == 1 and appends[0].args:
        from sa import miniterp as _mt9
        a0_ = appends[0].args[0]
        try:
            # starred list display `[*stack, session]` is the same list as `stack + [session]`
            if isinstance(a0_, ast.List) and any(isinstance(e_, ast.Starred) for e_ in a0_.elts):
                val_ = []
                for e_ in a0_.elts:
                    if isinstance(e_, ast.Starred):
                        val_ += list(_mt9.eval_expr(e_.value, {stackvar: [1, 3], sessvar: 5}))
                    else:
                        val_.append(_mt9.eval_expr(e_, {stackvar: [1, 3], sessvar: 5}))
            else:
                val_ = _mt9.eval_expr(a0_, {stackvar: [1, 3], sessvar: 5})
            ok_sg = list(val_) == [1, 3, 5] if isinstance(val_, (list, tuple)) else False
        except AnalysisError:
            ok_sg = None
    elif len(appends) != 1:
        ok_sg = False
    r.check3(ok_sg, "R1", f"{fn.qualname}#stack-growth",
             "a found stack must be the current stack extended by exactly the probed session", loc=fn.loc)
    reset_level = [n for n in W.body if isinstance(n, ast.Assign) and ast.unparse(n.targets[0]).replace(" ", "") == f"{FOUND}[{ctr}]" and ast.unparse(n.value) == "[]"]
    r.check(len(reset_level) == 1, "R1", f"{fn.qualname}#level-init", "each level must start with an empty list of stacks", loc=fn.loc)
    if len(inner) != 1:
        raise AnalysisError(f"{fn.qualname}: probe loop not found")
    P = inner[0]

    # ---------------------------------------------------------------- R5
    sess_src = [n for n in fn.node.body if isinstance(n, ast.Assign) and ast.unparse(n.targets[0]) == ast.unparse(P.iter)]
    dom = ast.unparse(sess_src[0].value).replace(" ", "") if sess_src else ast.unparse(P.iter)
    r.check(dom in ("list(range(1,128))", "range(1,128)", "list(range(1,0x80))"), "R5", f"{fn.qualname}#probe-domain", f"sessions probed: {dom}; expected 1..0x7F", loc=fn.loc)

    # ---------------------------------------------------------------- R2
    g = CFG(fn.node)
    probes = [n for n in g.nodes.values() if n.ast is not None and n.kind == "stmt" and f"self.set_session_with_hooks_handling({sessvar}" in ast.unparse(n.ast)]
    skipc = [n for n in g.nodes.values() if n.kind == "cond" and n.ast is not None and ast.unparse(n.ast).replace(" ", "") == f"{sessvar}inself.config.skip"]
    heads = [n for n in g.nodes.values() if n.kind == "loop" and n.ast is P]
    if not probes or not heads:
        raise AnalysisError(f"{fn.qualname}: probe call / loop head not found in the CFG")
    r.check(len(skipc) >= 1, "R2", f"{fn.qualname}#skip-test", "the skip option is not tested", loc=fn.loc)
    for h in heads:
        ok, path = g.must_pass(h.id, {c.id for c in skipc}, {p.id for p in probes})
        r.check(ok, "R2", f"{fn.qualname}#skip-dominates-probe", "a session can be requested without passing the skip test: "
                + " -> ".join(repr(g.nodes[p]) for p in path[-4:]), loc=fn.loc)
    for c in skipc:
        t = g.succ[c.id][0][0]
        reach = g.reachable_from(t, avoid={h.id for h in heads})
        r.check(not (reach & {p.id for p in probes}), "R2", f"{fn.qualname}#skipped-not-probed", "a skipped session is still requested", loc=fn.loc)
    # any other request in the probe loop that carries the session variable must also be behind the skip test (checked by domination above);
    # _recover_stack requests the sessions of the stack, which were probed (and hence not skipped) earlier.

    # ---------------------------------------------------------------- R3
    flag_tests = [n for n in ast.walk(P) if isinstance(n, ast.If) and isinstance(n.test, ast.Compare) and isinstance(n.test.left, ast.Name)
                  and "_recover_stack(" in ast.unparse(n)]
    if len(flag_tests) != 1:
        raise AnalysisError(f"{fn.qualname}: stack recovery block not found")
    flag = flag_tests[0].test.left.id
    blk = flag_tests[0]
    r.check(ast.unparse(blk.test).replace(" ", "") in (f"{flag}isTrue", f"{flag}") or ast.unparse(blk.test) == f"{flag} is True", "R3",
            f"{fn.qualname}#recovery-guard", f"recovery guard is `{ast.unparse(blk.test)}`", loc=fn.loc)
    r.check(f"self._recover_stack({stackvar}" in ast.unparse(blk) and "sys.exit(" in ast.unparse(blk) and
            any(isinstance(s, ast.Assign) and ast.unparse(s) == f"{flag} = False" for s in blk.body), "R3", f"{fn.qualname}#recovery-block",
            "the recovery block must re-establish the current stack, abort on failure and clear the flag", loc=fn.loc)
    rec_nodes = {n.id for n in g.nodes.values() if n.ast is not None and "self._recover_stack(" in ast.unparse(n.ast) and n.kind in ("cond", "stmt")}
    set_true = {n.id for n in g.nodes.values() if n.kind == "stmt" and isinstance(n.ast, ast.Assign) and ast.unparse(n.ast) == f"{flag} = True"}
    # after a positive reply (the session changed) every path back to the loop head sets the flag
    pos = [n for n in g.nodes.values() if n.kind == "stmt" and n.ast is not None and ".append({'session':" in ast.unparse(n.ast) and "'error': None" in ast.unparse(n.ast)]
    found_nodes = [n for n in g.nodes.values() if n.kind == "cond" and n.ast is not None and f"{sessvar} not in {stackvar}" in ast.unparse(n.ast)]
    starts = pos + found_nodes
    if not starts:
        raise AnalysisError(f"{fn.qualname}: positive-result branch not found")
    def no_await_exc(n, b, k):  # list/set bookkeeping statements do not raise; only awaited I/O does
        return k == "exc" and n.ast is not None and not any(isinstance(x, ast.Await) for x in ast.walk(n.ast))
    for s in starts:
        ok, path = g.must_pass(s.id, set_true, {h.id for h in heads}, skip_edge=no_await_exc)
        r.check(ok, "R3", f"{fn.qualname}#flag-after-session-change@{s.lineno}",
                "after a successful session change the scan can probe the next candidate without recovering the stack (it would probe from the "
                "wrong session): " + " -> ".join(repr(g.nodes[p]) for p in path[-4:]), loc=fn.loc)
    # an ECU reset requested by the scanner may take effect even when its reply is lost: every path from the reset request to the recovery test sets the flag
    resets = [n for n in g.nodes.values() if n.kind in ("stmt", "cond") and n.ast is not None and ".ecu_reset(" in ast.unparse(n.ast) and any(isinstance(x, ast.Await) for x in ast.walk(n.ast))]
    flag_tests = {n.id for n in g.nodes.values() if n.kind == "cond" and n.ast is blk.test}
    for rn in resets:
        okr, pathr = g.must_pass(rn.id, set_true, flag_tests, skip_edge=no_await_exc)
        r.check(okr, "R3", f"{fn.qualname}#flag-after-reset", "after the scanner asked the ECU to reset, the next probe can be sent without recovering the stack (e.g. when the reset reply "
                "is lost and the scanner reconnects): the ECU is in its default session, the probe is attributed to the stack: " + " -> ".join(repr(g.nodes[p]) for p in pathr[-4:]), loc=fn.loc)
    # the flag test precedes every probe
    for h in heads:
        tests = {n.id for n in g.nodes.values() if n.kind == "cond" and n.ast is blk.test}
        ok, path = g.must_pass(h.id, tests, {p.id for p in probes})
        r.check(ok, "R3", f"{fn.qualname}#flag-test-before-probe", "a probe is reachable without the recovery test", loc=fn.loc)
    # continues that skip the flag are only allowed where the session cannot have changed (negative reply / timeout)
    for c in [n for n in ast.walk(P) if isinstance(n, ast.Continue)]:
        ctx = []
        for a in ast.walk(P):
            if isinstance(a, ast.If) and any(x is c for x in ast.walk(a)) and a is not P:
                ctx.append(ast.unparse(a.test))
            if isinstance(a, ast.ExceptHandler) and any(x is c for x in ast.walk(a)):
                ctx.append("except " + (ast.unparse(a.type) if a.type else "<bare>"))
        okc = any(m.mpat(fn, "isinstance(resp, NegativeResponse)") in m.mpat(fn, t) for t in ctx if not t.startswith("except")) or any(t == "except TimeoutError" for t in ctx) or \
            any(f"{sessvar} in self.config.skip" in t for t in ctx)
        r.check(okc, "R3", f"{fn.qualname}#continue@{'|'.join(ctx)[:60]}", "a `continue` skips the stack-recovery flag on a path where the session may have changed", loc=f"{fn.module.relpath}:{c.lineno}")

    # ---------------------------------------------------------------- R4
    tries = [n for n in ast.walk(P) if isinstance(n, ast.Try) and any(f"set_session_with_hooks_handling({sessvar}" in ast.unparse(s) for s in n.body)]
    if len(tries) != 1:
        raise AnalysisError(f"{fn.qualname}: probe try-block not found")
    T = tries[0]
    ifs = [s for s in T.body if isinstance(s, ast.If)]
    t0 = m.mtext(fn, ifs[0].test) if ifs else ""
    r.check(len(ifs) >= 3 and t0 == m.mpat(fn, "isinstance(resp, NegativeResponse) and resp.response_code == UDSErrorCodes.subFunctionNotSupported") and
            isinstance(ifs[0].body[-1], ast.Continue) and ".append" not in ast.unparse(ifs[0]), "R4", f"{fn.qualname}#not-available",
            f"first classification is `{ast.unparse(ifs[0].test) if ifs else None}`: only subFunctionNotSupported may be discarded as 'not available'", loc=fn.loc)
    r.check(len(ifs) >= 2 and m.mtext(fn, ifs[1].test) == "isinstance(_L, NegativeResponse)" and ".append({'session':" in ast.unparse(ifs[1]) and "'error': " in ast.unparse(ifs[1]) and
            isinstance(ifs[1].body[-1], ast.Continue), "R4", f"{fn.qualname}#identified-not-entered",
            "every other negative response must be recorded as identified-but-not-entered", loc=fn.loc)
    r.check(len(ifs) >= 3 and ast.unparse(ifs[2].test).replace(" ", "") == f"self.config.thoroughor{sessvar}notin{stackvar}" and
            appends and any(a is x for a in appends for x in ast.walk(ifs[2])), "R4", f"{fn.qualname}#cycle-avoidance",
            "a positive session extends the stack unless it is already on it (or thorough)", loc=fn.loc)
    tail = [ast.unparse(s) for s in T.body[T.body.index(ifs[2]) + 1:]] if len(ifs) >= 3 else []
    r.check(any(f".add({sessvar})" in s for s in tail) and any(".append({'session':" in s and "'error': None" in s for s in tail), "R4", f"{fn.qualname}#positive-recorded",
            "every positive reply must be recorded as reachable session", loc=fn.loc)
    # report: each found session listed with its stack
    r.check("self.result.append(int(session))" in ast.unparse(fn.node) or "self.result.append" in ast.unparse(fn.node), "R4", f"{fn.qualname}#result",
            "the result list is no longer filled", loc=fn.loc)

    # once-per-session exploration and result reporting
    dedup = [n for n in fors[0].body if isinstance(n, ast.If) and "self.config.thorough" in ast.unparse(n.test) and f"{stackvar}[-1] in " in ast.unparse(n.test)] if fors else []
    SEARCHED = ast.unparse(dedup[0].test.values[1].comparators[0]) if len(dedup) == 1 and isinstance(dedup[0].test, ast.BoolOp) and isinstance(dedup[0].test.values[1], ast.Compare) else "searched_sessions"
    okd = len(dedup) == 1 and ast.unparse(dedup[0].test).replace(" ", "") == f"notself.config.thoroughand{stackvar}[-1]in{SEARCHED}" and isinstance(dedup[0].body[-1], ast.Continue)
    marks = [n for n in fors[0].body if isinstance(n, ast.Expr) and ast.unparse(n).replace(" ", "") == f"{SEARCHED}.append({stackvar}[-1])"] if fors else []
    r.check(okd and len(marks) == 1 and dedup[0].lineno < marks[0].lineno, "R4", f"{fn.qualname}#explore-each-session-once",
            "without --thorough a session is explored from its first stack only: the test `not thorough and stack[-1] in searched_sessions -> continue` "
            "followed by `searched_sessions.append(stack[-1])` changed", loc=fn.loc)
    POS = ast.unparse(pos[0].ast.value.func.value) if pos else "positive_results"
    rep_loops = [n for n in fn.node.body if isinstance(n, ast.If) and POS in ast.unparse(n.test)]
    okr = False
    if len(rep_loops) == 1:
        lp = [n for n in ast.walk(rep_loops[0]) if isinstance(n, ast.For) and POS in ast.unparse(n.iter)]
        if len(lp) == 1:
            ifs_ = [n for n in lp[0].body if isinstance(n, ast.If)]
            okr = len(ifs_) >= 1 and m.mtext(fn, ifs_[0].test).replace(" ", "") == "_L!=_L" and \
                any(m.mtext(fn, x) == "_L = _L" for x in ifs_[0].body) and \
                any(m.has(fn, "self.result.append(int(session))", x) for x in ifs_[0].body) and \
                m.has(fn, "self.db_handler.insert_session_transition(session, res['stack'])", ifs_[0]) and \
                ast.unparse(rep_loops[0].test).replace(" ", "") in (f"len({POS})>0", POS)
    r.check(okr, "R4", f"{fn.qualname}#report-each-found-session-once",
            "every session with a positive result must be appended to the result exactly once (and stored with its stack)", loc=fn.loc)

    # sessions answered with subFunctionNotSupportedInActiveSession exist but cannot be entered from here: they must not be reported /
    # stored with the current stack as a transition
    neg_lists = {n.func.value.id for x in (ifs[1:2] if len(ifs) >= 2 else []) for n in ast.walk(x) if isinstance(n, ast.Call) and isinstance(n.func, ast.Attribute)
                 and n.func.attr == "append" and isinstance(n.func.value, ast.Name)}
    neg_loops = [n for n in ast.walk(fn.node) if isinstance(n, ast.For) and any(isinstance(x, ast.Name) and x.id in neg_lists for x in ast.walk(n.iter))]
    okn = False
    detail_n = "report loop over the not-activated sessions not found"
    if len(neg_loops) == 1:
        nifs = [x for x in neg_loops[0].body if isinstance(x, ast.If)]
        if len(nifs) == 1:
            conj = nifs[0].test.values if isinstance(nifs[0].test, ast.BoolOp) and isinstance(nifs[0].test.op, ast.And) else [nifs[0].test]
            codes = [ast.unparse(x) for c in conj if isinstance(c, ast.Compare) and len(c.ops) == 1 and isinstance(c.ops[0], ast.NotEq) and "['error']" in ast.unparse(c)
                     for x in (c.left, c.comparators[0]) if "['error']" not in ast.unparse(x)]
            memb = [c for c in conj if isinstance(c, ast.Compare) and len(c.ops) == 1 and isinstance(c.ops[0], ast.NotIn)]
            detail_n = f"filter is `{ast.unparse(nifs[0].test)}`"
            okn = codes == ["UDSErrorCodes.subFunctionNotSupportedInActiveSession"] and len(memb) == 1 and len(conj) == 2
    r.check(okn, "R4", f"{fn.qualname}#identified-filter",
            f"{detail_n}; a not-activated session is listed / stored iff it was never activated and its NRC is not subFunctionNotSupportedInActiveSession (0x7E)", loc=fn.loc)

    # the probe loops run over their whole domain: nothing leaves them early (a `break` would drop all remaining session ids / stacks of the level)
    brk = [n.lineno for n in ast.walk(W) if isinstance(n, ast.Break)]
    r.check(not brk, "R5", f"{fn.qualname}#no-early-exit", f"`break` at line(s) {brk} inside the level / stack / session loops: the remaining candidates are never probed", loc=fn.loc)
    if len(neg_loops) == 1 and len(nifs) == 1:
        dd = [x for x in nifs[0].body if isinstance(x, ast.If)]
        r.check(len(dd) >= 1 and m.mtext(fn, dd[0].test).replace(" ", "") == "_L!=_L", "R4", f"{fn.qualname}#identified-once",
                "a not-activated session must be listed / stored once (when it differs from the previously listed one)", loc=fn.loc)
    from sa.util import accepts_domain, check_unravel_inclusive
    refused = accepts_domain(m, "gallia.services.uds.core.utils.check_sub_function", range(1, 0x80))
    r.check(not refused, "R5", "gallia.services.uds.core.utils.check_sub_function#accepts-probe-domain",
            f"the request constructor's range check refuses {[hex(v) for v in refused[:4]]} of the probe domain 0x01..0x7F: the scanner's catch-all only logs the "
            "ValueError, so these sessions are never requested and are missing from the result", loc="src/gallia/services/uds/core/utils.py")
    check_unravel_inclusive(m, r, "R2")
    # ... and the request class the probe is built with: every range guard in its constructor admits the whole probe domain
    dsc = m.require_class("gallia.services.uds.core.service.DiagnosticSessionControlRequest")
    dinit = dsc.methods.get("__init__")
    if dinit is None:
        raise AnalysisError(f"{dsc.qualname}: constructor not found")
    spar = dinit.params()[1] if len(dinit.params()) > 1 else None
    narrowed = []
    for c_ in ast.walk(dinit.node):
        if isinstance(c_, ast.Call) and ast.unparse(c_.func) == "check_range" and len(c_.args) == 4 and ast.unparse(c_.args[0]) == spar:
            lo_, hi_ = m.try_fold(dinit.module, c_.args[2]), m.try_fold(dinit.module, c_.args[3])
            if not (isinstance(lo_, int) and isinstance(hi_, int)):
                raise AnalysisError(f"{dinit.qualname}: cannot evaluate {ast.unparse(c_)}")
            if lo_ > 1 or hi_ < 0x7F:
                narrowed.append(f"{lo_:#x}..{hi_:#x}")
        elif isinstance(c_, ast.Call) and isinstance(c_.func, ast.Name) and c_.func.id.startswith("check_") and c_.func.id not in ("check_range", "check_sub_function") and \
                c_.args and ast.unparse(c_.args[0]) == spar:
            narrowed.extend(f"{c_.func.id} refuses {v:#x}" for v in accepts_domain(m, f"gallia.services.uds.core.utils.{c_.func.id}", range(1, 0x80))[:2])
    r.check(spar is not None and not narrowed, "R5", f"{dinit.qualname}#accepts-probe-domain", f"the DiagnosticSessionControl request constructor only admits {narrowed}: "
            "sessions of the probe domain 0x01..0x7F outside of it raise inside set_session, the scanner's catch-all logs it, and the session (and everything behind it) is missing",
            loc=dsc.loc)

    # ---------------------------------------------------------------- R6
    hh = m.require_function(f"{SCAN}.SessionsScanner.set_session_with_hooks_handling")
    calls = [n for n in ast.walk(hh.node) if isinstance(n, ast.Call) and ast.unparse(n.func) == "self.ecu.set_session"]
    r.check(len(calls) >= 1 and all(any(k.arg == "use_db" and isinstance(k.value, ast.Constant) and k.value.value is False for k in c.keywords) for c in calls),
            "R6", f"{hh.qualname}#use_db-false", "the scanner must request sessions with use_db=False (no replay of stored transitions)", loc=hh.loc)
    ss = m.require_function(f"{ECU}.ECU.set_session")
    branches = [n for n in walk_no_nested(ss.node) if isinstance(n, ast.If) and "get_session_transition" in ast.unparse(n)]
    okb = False
    if len(branches) >= 1:
        outer = branches[0]
        conj = outer.test.values if isinstance(outer.test, ast.BoolOp) and isinstance(outer.test.op, ast.And) else [outer.test]
        okb = any(isinstance(c, ast.Name) and c.id == "use_db" for c in conj)
    r.check(okb, "R6", f"{ss.qualname}#honours-use_db",
            "the database-transition fallback is not guarded by use_db: with a database from an earlier run the scan enters sessions through stored "
            "paths and reports sessions beyond the depth limit / requests skipped sessions", loc=ss.loc)
    rs = m.require_function(f"{SCAN}.SessionsScanner._recover_stack")
    r.check(m.has(rs, "self.set_session_with_hooks_handling(session, use_hooks)") and "return False" in ast.unparse(rs.node), "R6",
            f"{rs.qualname}#raw-recovery", "stack recovery must use the same raw session change and report failure", loc=rs.loc)

    # a recovered stack really is the chain of sessions: _recover_stack reports success only if every change was answered positively
    gr = CFG(rs.node)
    rloops = [n for n in walk_no_nested(rs.node) if isinstance(n, ast.For)]
    if len(rloops) != 1:
        raise AnalysisError(f"{rs.qualname}: loop over the stack not found")
    success = {n.id for n in gr.nodes.values() if n.kind == "loop" and n.ast is rloops[0]}
    success |= {n.id for n in gr.nodes.values() if n.kind == "return" and isinstance(n.ast, ast.Return) and n.ast.value is not None and ast.unparse(n.ast.value) == "True"}
    calls_ = [n for n in gr.nodes.values() if n.kind == "stmt" and n.ast is not None and "self.set_session_with_hooks_handling(" in ast.unparse(n.ast)]
    if not calls_ or len(success) < 2:
        raise AnalysisError(f"{rs.qualname}: session change call / success exits not found")
    for c in calls_:
        leak = set()
        for b, k in gr.succ[c.id]:
            if k == "exc":
                leak |= gr.reachable_from(b) & success
        r.check(not leak, "R3", f"{rs.qualname}#failed-change-fails-recovery",
                "after a session change of the stack re-entry raised (timeout, connection loss) the function can still continue with the next session / return True: "
                + ", ".join(repr(gr.nodes[x]) for x in sorted(leak)) + "; the scan then probes from a session that is not the one on the stack", loc=rs.loc)
    rt_true = [n for n in ast.walk(rs.node) if isinstance(n, ast.Return) and n.value is not None and ast.unparse(n.value) == "True"]
    top = rs.node.body
    r.check(len(rt_true) == 1 and rt_true[0] is top[-1] and rloops[0] in top and not any(isinstance(x, ast.Return) for st in top[:top.index(rloops[0])] for x in ast.walk(st)),
            "R3", f"{rs.qualname}#success-only-after-re-entry",
            "success is reported somewhere else than after the loop that re-enters every session of the stack (e.g. a shortcut on the client-side session state, "
            "which only reflects replies the client could parse): the scan then continues from a session that may not be the top of the stack", loc=rs.loc)
    negc = [n for n in gr.nodes.values() if n.kind == "cond" and n.ast is not None and "NegativeResponse" in ast.unparse(n.ast) and "isinstance" in ast.unparse(n.ast)]
    if not negc:
        raise AnalysisError(f"{rs.qualname}: negative response test not found")
    for c in negc:
        tb = [b for b, k in gr.succ[c.id] if k == "n"][0]
        leak = gr.reachable_from(tb, edge_kinds=("n",)) & success
        r.check(not leak, "R3", f"{rs.qualname}#negative-change-fails-recovery",
                "a negative response to a session change of the stack does not end the recovery with failure", loc=rs.loc)

    # per-scan state: containers the scanner fills are created per instance
    sc_cls = m.require_class(f"{SCAN}.SessionsScanner")
    n_cont = 0
    for k in m.mro(sc_cls):
        if not k.module.name.startswith("gallia.command"):
            continue
        for attr, val in k.class_attrs.items():
            mutable = isinstance(val, (ast.List, ast.Dict, ast.Set, ast.ListComp, ast.DictComp, ast.SetComp)) or \
                (isinstance(val, ast.Call) and ast.unparse(val.func) in ("list", "dict", "set", "defaultdict", "collections.defaultdict", "deque"))
            if not mutable:
                continue
            n_cont += 1
            mutated = [f.qualname for c2 in m.mro(sc_cls) for f in c2.methods.values() for n in ast.walk(f.node)
                       if (isinstance(n, ast.Call) and isinstance(n.func, ast.Attribute) and n.func.attr in ("append", "extend", "add", "update", "insert", "setdefault", "pop", "remove", "clear")
                           and ast.unparse(n.func.value) == f"self.{attr}")
                       or (isinstance(n, (ast.Assign, ast.AugAssign)) and any(isinstance(t, ast.Subscript) and ast.unparse(t.value) == f"self.{attr}"
                                                                               for t in (n.targets if isinstance(n, ast.Assign) else [n.target])))]
            rebound = any(isinstance(n, (ast.Assign, ast.AnnAssign)) and ast.unparse(n.targets[0] if isinstance(n, ast.Assign) else n.target) == f"self.{attr}"
                          for c2 in m.mro(sc_cls) if "__init__" in c2.methods for n in ast.walk(c2.methods["__init__"].node))
            r.check(not mutated or rebound, "R4", f"{k.qualname}.{attr}#per-instance",
                    f"{attr} is a mutable class attribute that {sorted(set(mutated))[:2]} fill in place: every scanner instance of the process shares it, "
                    "so a scan also reports the sessions found by earlier scans", loc=k.loc)
    init_ = sc_cls.methods.get("__init__")
    res_init = init_ is not None and any(isinstance(n, (ast.Assign, ast.AnnAssign)) and ast.unparse(n.targets[0] if isinstance(n, ast.Assign) else n.target) == "self.result"
                                           and isinstance(n.value, ast.List) and not n.value.elts for n in ast.walk(init_.node))
    res_main = any(isinstance(n, (ast.Assign, ast.AnnAssign)) and ast.unparse(n.targets[0] if isinstance(n, ast.Assign) else n.target) == "self.result"
                   for n in ast.walk(fn.node))
    r.check(res_init or res_main, "R4", f"{sc_cls.qualname}.result#fresh-per-scan",
            "self.result is not created per scanner instance (empty list in __init__) nor assigned by main()", loc=sc_cls.loc)

    r.assumptions += ["the ECU changes session only on a positive DiagnosticSessionControl response"]
    r.not_decided += ["exactness of the reported set over all session graphs (a statement about the search on runtime graphs)"]
