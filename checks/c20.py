"""C20 Target URIs and range expressions denote exactly what the user wrote (static clauses)."""
from __future__ import annotations

import ast

from sa.model import AnalysisError, ClassInfo, FuncInfo, Model, walk_no_nested
from sa.report import Report
from sa.util import check_unravel_2d

TITLE = "Target URIs and range expressions denote exactly what the user wrote"
NET = "gallia.net"
BASE = "gallia.transports.base"
UTILS = "gallia.utils"
CONFIG = "gallia.command.config"


def names_in(e: ast.AST) -> set[str]:
    return {n.id for n in ast.walk(e) if isinstance(n, ast.Name)}


def auto_int_fields(m: Model, cls: ClassInfo) -> set[str]:
    out: set[str] = set()
    for f in cls.methods.values():
        for d in f.node.decorator_list:
            if isinstance(d, ast.Call) and ast.unparse(d.func) == "field_validator" and any(k.arg == "mode" and ast.unparse(k.value) == "'before'" for k in d.keywords):
                if any(isinstance(n, ast.Call) and ast.unparse(n.func) == "auto_int" for n in ast.walk(f.node)):
                    out |= {a.value for a in d.args if isinstance(a, ast.Constant)}
    return out


def is_hex_expr(e: ast.expr) -> bool:
    if isinstance(e, ast.Call) and ast.unparse(e.func) == "hex":
        return True
    if isinstance(e, ast.JoinedStr):
        for v in e.values:
            if isinstance(v, ast.FormattedValue) and v.format_spec is not None and "x" in ast.unparse(v.format_spec).lower():
                return True
    return False


def run(m: Model, r: Report, tier: str) -> None:
    r.rule("R1", "URI construction depends on every parameter and passes the parameter map on unaltered", floor=3)
    r.rule("R7", "values interpolated into URI strings render as their wire text: the scheme enum formats as its value (StrEnum), not as Class.MEMBER", floor=2)
    sch_mod = m.module("gallia.transports.schemes")
    sch_classes = [n for n in ast.walk(sch_mod.tree) if isinstance(n, ast.ClassDef) and n.name == "TransportScheme"]
    if not sch_classes:
        raise AnalysisError("gallia.transports.schemes.TransportScheme not found")
    turi = m.require_class("gallia.transports.base.TargetURI")
    interpolated = [f.qualname for f in turi.methods.values() for n in ast.walk(f.node) if isinstance(n, ast.FormattedValue) and ast.unparse(n.value) == "self.scheme"]
    for sc in sch_classes:
        bases = [ast.unparse(b) for b in sc.bases]
        renders = any(b.split(".")[-1] == "StrEnum" for b in bases) or any(isinstance(x, ast.FunctionDef) and x.name in ("__str__", "__format__") for x in sc.body)
        r.check(renders or not interpolated, "R7", f"gallia.transports.schemes.TransportScheme@{sc.lineno}#formats-as-value",
                f"TransportScheme({', '.join(bases)}) is interpolated into URI text by {interpolated}: since Python 3.12 format() of a (str, Enum) mix-in member gives "
                "'TransportScheme.DOIP', only StrEnum (or an own __str__) gives 'doip', so TargetURI.location is no URI any more", loc=f"{sch_mod.relpath}:{sc.lineno}")
    r.rule("R2", "join_host_port brackets exactly the hosts that contain a colon (inverse of split_host_port)", floor=2)
    r.rule("R3", "keys the discovery scanners emit are fields of the scheme's config; values emitted in hex are parsed with auto_int", floor=8)
    r.rule("R4", "auto_int accepts decimal, hex, octal and binary (int(x, 0))", floor=1)
    r.rule("R5", "range grammar: inclusive upper bound, sorted union, comma / dash / space / colon delimiters agree between the parsers; "
                 "a bare outer key means 'all' and is never replaced or extended", floor=8)

    # ---------------------------------------------------------------- R1 / R2
    jh = m.require_function(f"{NET}.join_host_port")
    # join_host_port, evaluated over host kinds x ports: `host:port`, with the host in brackets exactly when it contains a colon, the host text unaltered
    from sa import miniterp as _mtj
    hpar, ppar_ = (jh.params() + ["host", "port"])[:2]
    bad_j, unknown_j = [], None
    try:
        for h_ in ("localhost", "192.0.2.1", "::1", "fe80::1%eth0", "2001:db8::8a2e:370:7334", "A.example", ""):
            for p_ in (0, 80, 13400, 65535):
                try:
                    ret_, env_ = _mtj.run_function(jh.node, {hpar: h_, ppar_: p_})
                    got_ = _mtj.eval_expr(ret_.value, env_) if ret_ is not None and ret_.value is not None else None
                except _mtj.Raised as ex_:
                    got_ = "raises " + (ast.unparse(ex_.node.exc)[:40] if ex_.node.exc is not None else "")
                want_ = f"[{h_}]:{p_}" if ":" in h_ else f"{h_}:{p_}"
                if got_ != want_:
                    bad_j.append(f"({h_!r}, {p_}) -> {got_!r}, expected {want_!r}")
    except AnalysisError as ex_:
        unknown_j = str(ex_)
    for rid_, cn_, why_ in (("R1", "return[0]", "the result must be built from both parameters"),
                            ("R2", "bracket-rule", "every host containing a colon (any IPv6 literal, e.g. ::1 or fe80::1) needs brackets, otherwise host and port cannot be split again"),
                            ("R2", "host-verbatim", "the host text must be written unaltered: split_host_port / TargetURI.hostname do not undo an escape or re-format "
                                                    "(e.g. a scoped IPv6 literal fe80::1%eth0)")):
        r.check3(None if unknown_j else not bad_j, rid_, f"{jh.qualname}#{cn_}", f"{bad_j[:3]}: {why_}", loc=jh.loc, unknown_msg=f"join_host_port is outside the evaluated language: {unknown_j}")
    sh = m.require_function(f"{NET}.split_host_port")
    ssrc = ast.unparse(sh.node)
    r.check3(True if ("urlparse(f'//{hostport}')" in ssrc and "url.hostname" in ssrc and "url.port" in ssrc and "ipaddress.ip_address(hostport)" in ssrc) else
             (None if ("urlparse(" in ssrc and "ip_address(" in ssrc) or any(isinstance(n_, ast.Call) and isinstance(n_.func, ast.Name) and n_.func.id in sh.module.functions for n_ in ast.walk(sh.node)) else False), "R2",
             f"{sh.qualname}#inverse", "split_host_port must parse bracketed hosts through urlparse and bare IP literals through ipaddress", loc=sh.loc)
    # port 0 is a port: "is the port present" must be decided with `is None`, never by truthiness
    def _truthy_port_tests(fn) -> list[str]:
        out_ = []
        for n in ast.walk(fn.node):
            tests = [n.test] if isinstance(n, (ast.If, ast.IfExp, ast.While)) else (n.values if isinstance(n, ast.BoolOp) else [])
            for t in tests:
                inner = t.operand if isinstance(t, ast.UnaryOp) and isinstance(t.op, ast.Not) else t
                if isinstance(inner, (ast.Name, ast.Attribute)) and ast.unparse(inner).split(".")[-1] == "port":
                    out_.append(f"line {n.lineno}: `{ast.unparse(t)}`")
        return out_
    tu_ = m.require_class(f"{BASE}.TargetURI")
    for fn_ in [sh, m.require_function(f"{BASE}.TargetURI.from_parts")] + ([tu_.methods["port"]] if "port" in tu_.methods else []):
        tp_ = _truthy_port_tests(fn_)
        r.check(not tp_, "R2", f"{fn_.qualname}#port-zero", f"the port is tested by truthiness ({tp_}): port 0 is treated as 'no port' and replaced by the default, so host:0 does not "
                "split / parse back to port 0", loc=fn_.loc)
    fp = m.require_function(f"{BASE}.TargetURI.from_parts")
    src = ast.unparse(fp.node)
    enc = [n for n in ast.walk(fp.node) if isinstance(n, ast.Call) and ast.unparse(n.func) == "urlencode"]
    r.check(len(enc) == 1 and len(enc[0].args) == 1 and ast.unparse(enc[0].args[0]) == "args" and not enc[0].keywords, "R1", f"{fp.qualname}#args-unaltered",
            f"the parameter map is encoded as `{ast.unparse(enc[0]) if enc else None}`; values must be written exactly as given (re-formatting, e.g. to hex, "
            "breaks fields the consumer parses as decimal)", loc=fp.loc)
    r.check("join_host_port(host, port)" in src and m.has(fp, "urlunparse((scheme, netloc, '', '', urlencode(args), ''))") and
            not any(isinstance(n, (ast.For, ast.While, ast.DictComp)) for n in ast.walk(fp.node)), "R1", f"{fp.qualname}#uses-all-parts",
            "scheme, host, port and args must all reach urlunparse", loc=fp.loc)
    # the network location for every kind of host, with and without port (finite-domain evaluation; join_host_port is interpreted from its own source):
    # an IPv6 literal is bracketed exactly once, also when there is no port - otherwise urlparse takes the text after the last colon for a port
    from sa import miniterp as _mt20
    jhp = m.require_function(f"{NET}.join_host_port")

    def _orc(call, env):
        fn_ = ast.unparse(call.func)
        if fn_.endswith("join_host_port") and len(call.args) == 2:
            ret_, env_ = _mt20.run_function(jhp.node, dict(zip(jhp.params(), [_mt20.eval_expr(a, env, _orc) for a in call.args])), _orc)
            return _mt20.eval_expr(ret_.value, env_, _orc)
        if fn_.endswith("urlencode"):
            return "Q"
        if fn_.endswith("urlunparse") and len(call.args) == 1:
            return ("URL",) + tuple(_mt20.eval_expr(call.args[0], env, _orc))
        if fn_ == "cls" and len(call.args) == 1:
            return _mt20.eval_expr(call.args[0], env, _orc)
        return NotImplemented
    bad_nl = []
    pr = fp.params()
    for host_ in ("example.org", "10.0.0.1", "fec2::10"):
        for port_ in (None, 0, 6801):
            want = (f"[{host_}]" if ":" in host_ else host_) + ("" if port_ is None else f":{port_}")
            try:
                ret_, env_ = _mt20.run_function(fp.node, {"cls": None, pr[1]: "doip", pr[2]: host_, pr[3]: port_, pr[4]: {"a": 1}}, _orc)
                val = _mt20.eval_expr(ret_.value, env_, _orc)
                got = val[2] if isinstance(val, tuple) and len(val) > 2 and val[0] == "URL" else repr(val)
            except _mt20.Raised:
                got = "raises"
            if got != want:
                bad_nl.append(f"({host_}, {port_}) -> {got}")
    r.check(not bad_nl, "R1", f"{fp.qualname}#netloc", f"network location for (host, port): {bad_nl[:3]}; an IPv6 literal must be bracketed exactly once, with and without a port "
            "(unbracketed, urlparse reads the text after its last colon as the port and hostname / port raise ValueError)", loc=fp.loc)
    tu = m.require_class(f"{BASE}.TargetURI")
    qs = tu.methods.get("qs_flat")
    r.check(qs is not None and "v[0]" in ast.unparse(qs.node), "R1", f"{tu.qualname}.qs_flat#first-value", "qs_flat must return the first value of each key", loc=tu.loc)

    # ---------------------------------------------------------------- R3
    schemes = {}
    for c in m.subclasses(m.require_class(f"{BASE}.BaseTransport"), strict=True):
        if "scheme" in c.keywords:
            schemes[m.class_kw(c, "scheme")] = c
    n_sites = 0
    for fn in m.functions():
        for call in [n for n in walk_no_nested(fn.node) if isinstance(n, ast.Call) and ast.unparse(n.func) == "TargetURI.from_parts"]:
            n_sites += 1
            a0 = call.args[0]
            if isinstance(a0, ast.Attribute) and a0.attr == "SCHEME":
                tc = m.resolve_expr(fn.module, a0.value, fn.cls)
                scheme = m.class_kw(tc, "scheme") if isinstance(tc, ClassInfo) else None
            else:
                scheme = m.try_fold(fn.module, a0)
            tcls = schemes.get(scheme)
            if tcls is None:
                raise AnalysisError(f"{fn.qualname}: cannot resolve the scheme of {ast.unparse(call)[:60]}")
            # the config class the transport's connect() instantiates with **qs_flat
            conn = m.resolve_method(tcls, "connect")
            cfgs = [m.resolve_expr(conn.module, n.func, conn.cls) for n in ast.walk(conn.node) if isinstance(n, ast.Call) and any(
                k.arg is None and "qs_flat" in ast.unparse(k.value) for k in n.keywords)]
            cfgs = [c for c in cfgs if isinstance(c, ClassInfo)]
            if len(cfgs) != 1:
                raise AnalysisError(f"{tcls.qualname}.connect: config class not found")
            cfg = cfgs[0]
            fields = set(cfg.class_annots)
            ai = auto_int_fields(m, cfg)
            items: dict[str, ast.expr] = {}
            argmap = call.args[3]
            if isinstance(argmap, ast.Dict):
                for k, v in zip(argmap.keys, argmap.values):
                    items[m.try_fold(fn.module, k)] = v
            elif isinstance(argmap, ast.Name):
                for n in walk_no_nested(fn.node):
                    if isinstance(n, ast.Assign) and isinstance(n.targets[0], ast.Subscript) and ast.unparse(n.targets[0].value) == argmap.id:
                        items.setdefault(m.try_fold(fn.module, n.targets[0].slice), n.value)
                        if is_hex_expr(n.value):
                            items[m.try_fold(fn.module, n.targets[0].slice)] = n.value
            if not items:
                raise AnalysisError(f"{fn.qualname}: emitted parameter map is empty")
            for k, v in sorted(items.items(), key=lambda kv: str(kv[0])):
                construct = f"{fn.qualname}#{scheme}:{k}"
                r.check(k in fields, "R3", construct + "#known-field", f"emits parameter {k}, which {cfg.name} does not have ({sorted(fields)})", loc=fn.loc)
                if is_hex_expr(v):
                    r.check(k in ai, "R3", construct + "#hex-parsed", f"{k} is emitted in hex (`{ast.unparse(v)}`) but {cfg.name} parses it without auto_int "
                            f"(auto_int fields: {sorted(ai)})", loc=fn.loc)
                else:
                    r.ok("R3", construct + "#decimal-or-literal", ast.unparse(v)[:40])
    if n_sites < 2:
        raise AnalysisError(f"only {n_sites} TargetURI.from_parts call sites found")
    for q in ("gallia.transports.doip.DoIPConfig", "gallia.transports.hsfz.HSFZConfig", "gallia.transports.isotp.ISOTPConfig"):
        c = m.require_class(q)
        ai = auto_int_fields(m, c)
        addr = {f for f in c.class_annots if "addr" in f}
        r.check(addr <= ai, "R3", f"{q}#address-fields-auto-int", f"address fields {sorted(addr - ai)} are not parsed with auto_int", loc=c.loc)

    # ---------------------------------------------------------------- R4
    ai_fn = m.require_function(f"{UTILS}.auto_int")
    rets = [ast.unparse(n.value) for n in walk_no_nested(ai_fn.node) if isinstance(n, ast.Return) and n.value is not None]
    r.check(rets == ["int(arg, 0)"], "R4", ai_fn.qualname, f"auto_int returns {rets}; base 0 is what accepts 0x / 0o / 0b prefixes", loc=ai_fn.loc)

    # sibling agreement: every transport config parses its integer fields with the same auto_int (base 0), nothing else first
    n_val = 0
    for c in m.classes.values():
        if not c.module.name.startswith("gallia.transports."):
            continue
        f = c.methods.get("auto_int")
        if f is None or not any("field_validator" in ast.unparse(d) for d in f.node.decorator_list):
            continue
        n_val += 1
        vpar = [p_ for p_ in f.params() if p_ not in ("cls", "self")]
        rets_v = [ast.unparse(n.value) for n in walk_no_nested(f.node) if isinstance(n, ast.Return) and n.value is not None]
        r.check(len(vpar) >= 1 and rets_v == [f"auto_int({vpar[0]})"] and not any(isinstance(n, ast.Try) for n in ast.walk(f.node)), "R4", f"{f.qualname}#base-0",
                f"the validator returns {rets_v}: all transport configs must read the same spelling as the same number (decimal, 0x, 0o, 0b via int(x, 0)); "
                "trying another base first silently changes decimal / binary values for this scheme only", loc=f.loc)
    if n_val < 4:
        raise AnalysisError(f"only {n_val} transport auto_int validators found")
    # ... and keeps the number: a field parsed with auto_int is not typed as an enum whose _missing_ hook folds unknown values into a catch-all member
    n_typed = 0
    for c in m.classes.values():
        if not c.module.name.startswith("gallia.transports.") or "auto_int" not in c.methods:
            continue
        for fname in auto_int_fields(m, c):
            ann_ = c.class_annots.get(fname)
            if ann_ is None:
                continue
            n_typed += 1
            lossy = [k.name for k in m.annotation_classes(c.module, ann_, c) if m.enum_members(k) is not None and any("_missing_" in b.methods for b in m.mro(k))]
            r.check(not lossy, "R4", f"{c.qualname}.{fname}#keeps-the-number", f"the field is typed {ast.unparse(ann_)}: after auto_int pydantic coerces the number through {lossy}, "
                    "whose _missing_ hook replaces values outside its table: the transport does not get the numeric setting the URI carries", loc=c.loc)
    if n_typed < 8:
        raise AnalysisError(f"only {n_typed} typed auto_int fields found in the transport configs")
    # every integer setting of a transport is read with the base-0 parser: a field typed int that is left out of the validator only accepts decimal text
    n_int = 0
    for c in m.classes.values():
        if not c.module.name.startswith("gallia.transports.") or "auto_int" not in c.methods:
            continue
        ai_ = auto_int_fields(m, c)
        for fname, ann_ in c.class_annots.items():
            if ast.unparse(ann_).replace(" ", "") not in ("int", "int|None", "None|int", "Optional[int]"):
                continue
            n_int += 1
            r.check(fname in ai_, "R4", f"{c.qualname}.{fname}#base-0", f"the integer setting {fname} is not in the auto_int validator of {c.name} ({sorted(ai_)}): "
                    f"`{fname}=0x10` in a target URI is rejected while the address fields of the same URI accept hex / octal / binary", loc=c.loc)
    if n_int < 10:
        raise AnalysisError(f"only {n_int} integer settings found in the transport configs")

    # ---------------------------------------------------------------- R5
    un = m.require_function(f"{UTILS}.unravel")
    us = ast.unparse(un.node)
    def delimiters(fn):
        """(split delimiter, `in`-test delimiter) by role: the constant used in listing.split(...) and in `X in element` / element.split(X)"""
        cv = {ast.unparse(n.targets[0]): n.value.value for n in ast.walk(fn.node) if isinstance(n, ast.Assign) and isinstance(n.value, ast.Constant) and isinstance(n.value.value, str)}
        outer = inner = None
        for n in ast.walk(fn.node):
            if isinstance(n, ast.For) and isinstance(n.iter, ast.Call) and isinstance(n.iter.func, ast.Attribute) and n.iter.func.attr == "split" and n.iter.args:
                a0 = n.iter.args[0]
                outer = cv.get(ast.unparse(a0), a0.value if isinstance(a0, ast.Constant) else None)
            if isinstance(n, (ast.If, ast.IfExp)) and isinstance(n.test, ast.Compare) and isinstance(n.test.ops[0], (ast.In, ast.NotIn)):
                a0 = n.test.left
                got = cv.get(ast.unparse(a0), a0.value if isinstance(a0, ast.Constant) else None)
                inner = got if isinstance(got, str) else inner
        return outer, inner
    dl_ = delimiters(un)
    r.check3(None if None in dl_ else dl_ == (",", "-"), "R5", f"{un.qualname}#delimiters", f"delimiters {dl_}", loc=un.loc)
    rng = [n for n in ast.walk(un.node) if isinstance(n, ast.Call) and ast.unparse(n.func) == "range"]
    # every parsed range reaches the expansion loop: nothing between parsing the bounds and the loop skips the element (a-a is {a})
    from sa.cfg import CFG as _CFG
    gu = _CFG(un.node)
    outer_for = [n for n in walk_no_nested(un.node) if isinstance(n, ast.For) and isinstance(n.iter, ast.Call) and isinstance(n.iter.func, ast.Attribute) and n.iter.func.attr == "split"]
    inner_for = [n for n in ast.walk(un.node) if isinstance(n, ast.For) and rng and any(x is rng[0] for x in ast.walk(n.iter))]
    if len(outer_for) == 1 and len(inner_for) == 1:
        oh = {n.id for n in gu.nodes.values() if n.kind == "loop" and n.ast is outer_for[0]}
        ih = {n.id for n in gu.nodes.values() if n.kind == "loop" and n.ast is inner_for[0]}
        blk = next((b_ for a_ in ast.walk(outer_for[0]) for b_ in (getattr(a_, "body", None), getattr(a_, "orelse", None)) if isinstance(b_, list) and inner_for[0] in b_), [])
        same_block = [st for st in blk[:blk.index(inner_for[0])] if isinstance(st, ast.Assign) and "auto_int(" in ast.unparse(st.value)] if blk else []
        bounds = [n.id for n in gu.nodes.values() if n.kind == "stmt" and any(n.ast is st for st in same_block)]
        okr_ = bool(bounds) and all(gu.must_pass(b_, ih, oh | {gu.exit_return}, skip_edge=lambda n, b, k: k == "exc")[0] for b_ in bounds)
        r.check(okr_, "R5", f"{un.qualname}#range-always-expanded",
                "after the bounds of `a-b` are parsed the element can be skipped before the expansion loop (e.g. a guard against 'empty' ranges that also drops a-a)", loc=un.loc)
    r.check(len(rng) == 1 and m.mtext(un, rng[0]).replace(" ", "") == "range(_L,_L+1)", "R5", f"{un.qualname}#inclusive",
            f"range elements come from `{ast.unparse(rng[0]) if rng else None}`; 'a-b' includes b", loc=un.loc)
    r.check(m.has(un, "sorted(result)") and m.has(un, "result = set()") and us.count("auto_int(") == 3, "R5", f"{un.qualname}#sorted-union",
            "the result must be the sorted union and every number parsed with auto_int", loc=un.loc)
    u2 = m.require_function(f"{UTILS}.unravel_2d")
    dl2_ = delimiters(u2)
    r.check3(None if None in dl2_ else dl2_ == (" ", ":"), "R5", f"{u2.qualname}#delimiters", f"delimiters {dl2_}", loc=u2.loc)
    src2 = ast.unparse(u2.node)
    r.check(src2.count("unravel(") == 3 and m.has(u2, "sorted(ur)") and m.has(u2, "sorted(unsorted_result)"), "R5", f"{u2.qualname}#uses-unravel",
            "both levels must be parsed with unravel and the result sorted", loc=u2.loc)
    check_unravel_2d(m, r, "R5")
    # the before-validators of Ranges / Ranges2D, evaluated over the input kinds pydantic hands them: text, the CLI's list of words, an already parsed value
    from sa import miniterp as _mtv
    cmod = m.module(CONFIG)

    def validator_of(name: str):
        ann = cmod.assigns.get(name)
        calls_ = [n for n in ast.walk(ann) if isinstance(n, ast.Call) and ast.unparse(n.func).split(".")[-1] == "BeforeValidator" and len(n.args) == 1] if ann is not None else []
        if len(calls_) != 1:
            return None
        a0 = calls_[0].args[0]
        if isinstance(a0, ast.Lambda):
            return a0
        if isinstance(a0, ast.Name) and a0.id in cmod.functions:
            return cmod.functions[a0.id].node
        return None

    def run_validator(v, value, parser: str):
        def orc(call, env_):
            if ast.unparse(call.func) == parser and len(call.args) == 1:
                return ("PARSED", _mtv.eval_expr(call.args[0], env_, orc))
            return NotImplemented
        if isinstance(v, ast.Lambda):
            return _mtv.eval_expr(v.body, {v.args.args[0].arg: value}, orc)
        ret_, env_ = _mtv.run_function(v, {v.args.args[0].arg: value}, orc)
        return _mtv.eval_expr(ret_.value, env_, orc) if ret_ is not None and ret_.value is not None else None
    for tname, parser, sep, construct in (("Ranges", "unravel", ",", f"{CONFIG}._process_ranges#joins"), ("Ranges2D", "unravel_2d", " ", f"{CONFIG}.Ranges2D#joins")):
        v_ = validator_of(tname)
        if v_ is None:
            r.unrecognised("R5", construct, f"the BeforeValidator of {tname} was not found", cmod.relpath)
            continue
        parsed_in = [1, 2] if tname == "Ranges" else {1: [2]}
        cases = [("1-3", ("PARSED", "1-3")), (["1", "5-6"] if tname == "Ranges" else ["1:2", "3"], ("PARSED", sep.join(["1", "5-6"] if tname == "Ranges" else ["1:2", "3"]))), (parsed_in, parsed_in)]
        if tname == "Ranges":
            cases.append(("1 2  3", ("PARSED", "1,2,3")))
        badv, unk = [], None
        try:
            for inp, want in cases:
                try:
                    got = run_validator(v_, inp, parser)
                except _mtv.Raised as ex_:
                    got = "raises " + (ast.unparse(ex_.node.exc)[:30] if ex_.node.exc is not None else "")
                if got != want:
                    badv.append(f"{inp!r} -> {got!r} (expected {want!r})")
        except AnalysisError as ex_:
            unk = str(ex_)
        r.check3(None if unk else not badv, "R5", construct, f"{badv[:3]}: {tname} must join the words with {sep!r} and parse with {parser}; parsed values pass unchanged",
                 loc=cmod.relpath, unknown_msg=f"validator outside the evaluated language: {unk}")

    r.assumptions += ["urllib.parse (urlparse/urlunparse/urlencode/parse_qs) and ipaddress behave as documented"]
    r.not_decided += ["correctness over the whole input language (percent-encoding, exotic hosts)"]
