"""C17 Log records written by a run are read back exactly, in any navigation mode (static clauses)."""
from __future__ import annotations

import ast

from sa.cfg import CFG
from sa.model import AnalysisError, Model, walk_no_nested
from sa.report import Report

TITLE = "Log records written by a run are read back exactly, in any navigation mode"
LOG = "gallia.log"
HR = "gallia.cli.hr"


def small_eval(e: ast.expr, env: dict[str, int]) -> int:
    """Evaluate a pure integer expression extracted from the source over a finite test domain (no gallia code is run)."""
    if isinstance(e, ast.Constant) and isinstance(e.value, int):
        return e.value
    if isinstance(e, ast.Name):
        return env[e.id]
    if isinstance(e, ast.UnaryOp) and isinstance(e.op, ast.USub):
        return -small_eval(e.operand, env)
    if isinstance(e, ast.BinOp):
        a, b = small_eval(e.left, env), small_eval(e.right, env)
        if isinstance(e.op, ast.Add):
            return a + b
        if isinstance(e.op, ast.Sub):
            return a - b
        if isinstance(e.op, ast.Mod):
            return a % b
        if isinstance(e.op, ast.Mult):
            return a * b
        if isinstance(e.op, ast.FloorDiv):
            return a // b
    if isinstance(e, ast.Call):
        f = ast.unparse(e.func)
        if f in ("max", "min"):
            vals = [small_eval(a, env) for a in e.args]
            return max(vals) if f == "max" else min(vals)
        if f == "len" and ast.unparse(e.args[0]) in ("self", "self._record_offsets"):
            return env["__len__"]
        if f == "abs":
            return abs(small_eval(e.args[0], env))
    if isinstance(e, ast.IfExp):
        t = e.test
        if isinstance(t, ast.Compare) and len(t.ops) == 1:
            a, b = small_eval(t.left, env), small_eval(t.comparators[0], env)
            c = {ast.Lt: a < b, ast.LtE: a <= b, ast.Gt: a > b, ast.GtE: a >= b, ast.Eq: a == b, ast.NotEq: a != b}[type(t.ops[0])]
            return small_eval(e.body if c else e.orelse, env)
    raise AnalysisError(f"expression outside the small integer language: {ast.unparse(e)}")


def log_queues_unbounded(m: Model, r: Report, rid: str) -> int:
    """The queues between the logging callers and the writer threads are unbounded: logging.handlers.QueueHandler enqueues with put_nowait, so a full queue drops
    the record (handleError) instead of waiting - a burst while the compressor lags would lose records."""
    logm = m.module(LOG)
    n = 0
    for c in ast.walk(logm.tree):
        if isinstance(c, ast.Call) and isinstance(c.func, ast.Name) and c.func.id == "Queue":
            n += 1
            size = c.args[0] if c.args else next((k.value for k in c.keywords if k.arg == "maxsize"), None)
            v = 0 if size is None else m.try_fold(logm, size, default="?")
            r.check(isinstance(v, int) and v <= 0, rid, f"{LOG}#log-queue-unbounded@{n}", f"a log queue is created with maxsize={ast.unparse(size) if size is not None else 0}: "
                    "QueueHandler.enqueue uses put_nowait, records beyond the limit are dropped silently", loc=f"{logm.relpath}:{c.lineno}")
    return n


def zstd_close_rules(m: Model, r: Report, rid: str) -> None:
    """_ZstdFileHandler.close: queue handler closed, listener stopped (drained) iff it runs, then flush + close on every path.  Shared by C17 (the
    log is complete and readable) and C15 (closing the log is the last bookkeeping step of a run)."""
    zc = m.require_function(f"{LOG}._ZstdFileHandler.close")
    from sa.util import subst_locals as _slz0
    import copy as _cpz
    zc = _cpz.copy(zc)
    zc.node = ast.fix_missing_locations(_slz0(zc.node, zc.node))      # local aliases of self.queue_listener (assignment / walrus) resolved
    gz = CFG(zc.node)
    fclose = {n.id for n in gz.nodes.values() if n.kind == "stmt" and n.ast is not None and ("self.file.close()" in ast.unparse(n.ast) or "self.file.flush()" in ast.unparse(n.ast))}
    stops = {n.id for n in gz.nodes.values() if n.ast is not None and (("queue_listener.stop()" in ast.unparse(n.ast) and n.kind == "stmt") or
                                                                   (n.kind == "cond" and "queue_listener" in ast.unparse(n.ast)))}
    if not fclose or not stops:
        raise AnalysisError(f"{zc.qualname}: file close / listener stop not found")
    closes_ = {n.id for n in gz.nodes.values() if n.kind == "stmt" and n.ast is not None and "self.file.close()" in ast.unparse(n.ast)}
    flushes_ = {n.id for n in gz.nodes.values() if n.kind == "stmt" and n.ast is not None and "self.file.flush()" in ast.unparse(n.ast)}
    okc_, _ = gz.must_pass(gz.entry, closes_, {gz.exit_return}) if closes_ else (False, [])
    r.check(okc_, rid, f"{zc.qualname}#file-closed", "close() can return without closing the zstd stream: the frame is never ended and the log cannot be decompressed", loc=zc.loc)
    qh = {n.id for n in gz.nodes.values() if n.kind == "stmt" and n.ast is not None and "self.queue_handler.close()" in ast.unparse(n.ast)}
    r.check(bool(qh), rid, f"{zc.qualname}#queue-handler-closed", "the queue handler must be closed so that no record is enqueued after the file is finalised", loc=zc.loc)
    # the listener is stopped iff it exists and runs
    # (a local alias of the listener - `l = self.queue_listener` / a walrus - is resolved first)
    from sa.util import subst_locals as _slz
    zc_res = zc.node
    stop_stmts = [n for n in ast.walk(zc_res) if isinstance(n, ast.Expr) and "queue_listener.stop()" in ast.unparse(n)]
    r.check(len(stop_stmts) == 1, rid, f"{zc.qualname}#listener-stopped", "the queue listener must be stopped (QueueListener.stop() drains the queue)", loc=zc.loc)
    r.check(bool(flushes_), rid, f"{zc.qualname}#file-flushed", "the file must be flushed before it is closed", loc=zc.loc)
    if len(stop_stmts) == 1:
        from sa.util import path_condition, truth_table
        badq = truth_table(path_condition(zc_res, stop_stmts[0]), {"self.queue_listener": [None, "L"], "self.queue_listener._thread": [None, "T"]},
                           lambda a: a["self.queue_listener"] is not None and a["self.queue_listener._thread"] is not None)
        r.check(not badq, rid, f"{zc.qualname}#stop-condition", f"the queue listener is stopped on {badq}; it must be stopped (drained) exactly when it exists and its thread runs", loc=zc.loc)
    okz, pz = gz.must_pass(gz.entry, stops, fclose)
    r.check(okz, rid, f"{zc.qualname}#drain-before-finalise",
            "the zstd file is flushed / closed before the queue listener was stopped (stop() drains the queue): records still queued hit a closed stream and are lost", loc=zc.loc)



def run(m: Model, r: Report, tier: str) -> None:
    r.rule("R1", "writer record schema = keys the reader parses (+ version)", floor=2)
    r.rule("R2", "level <-> priority tables are inverse bijections over all seven log levels", floor=14)
    r.rule("R3", "the '<prio>' line prefix and the JSON priority come from the same expression; the reader strips exactly that prefix", floor=4)
    r.rule("R4", "one record per line: ASCII-only single-line JSON, one newline terminator", floor=3)
    r.rule("R5", "the priority filter keeps records with priority value <= the requested one", floor=2)
    r.rule("R6", "every variable index into the offset table is bounds-checked (negative indices would silently wrap around)", floor=1)
    r.rule("R7", "negative offsets count from the end and are clamped to the beginning for short logs", floor=1)
    r.rule("R10", "compressed logs are copied from the compressed source into the temporary file, which is flushed before it is read; the record offset "
                  "table holds the start of every line and ends at end-of-file", floor=8)
    r.rule("R9", "the cached parsed record is dropped whenever the current line changes; the log file is finalised only after the queue listener drained", floor=2)
    r.rule("R8", "hr: head = first n, tail = offset -n, reverse = from the last record backwards", floor=3)

    mod = m.module(LOG)
    # ---------------------------------------------------------------- R1
    v2 = m.require_class(f"{LOG}._PenlogRecordV2")
    pj = m.require_function(f"{LOG}.PenlogRecord.parse_json")
    wfields = set(v2.class_annots)
    recs = {n.targets[0].id for n in walk_no_nested(pj.node) if isinstance(n, ast.Assign) and isinstance(n.targets[0], ast.Name)
            and isinstance(n.value, ast.Call) and ast.unparse(n.value.func) == "json.loads"}
    if len(recs) != 1:
        raise AnalysisError(f"{pj.qualname}: the decoded JSON record variable was not found ({sorted(recs)})")
    REC = recs.pop()
    rkeys = {n.slice.value for n in ast.walk(pj.node) if isinstance(n, ast.Subscript) and isinstance(n.slice, ast.Constant) and ast.unparse(n.value) == REC} | \
            {n.args[0].value for n in ast.walk(pj.node) if isinstance(n, ast.Call) and ast.unparse(n.func) == f"{REC}.get" and n.args and isinstance(n.args[0], ast.Constant)}
    r.check(rkeys == wfields, "R1", f"{pj.qualname}#keys", f"reader parses {sorted(rkeys)}, writer emits {sorted(wfields)}: "
            f"missing {sorted(wfields - rkeys)}, unknown {sorted(rkeys - wfields)}", loc=pj.loc)
    pr = m.require_class(f"{LOG}.PenlogRecord")
    ctor = [n for n in ast.walk(pj.node) if isinstance(n, ast.Call) and ast.unparse(n.func) == "cls"]
    kw = {k.arg: ast.unparse(k.value) for k in ctor[0].keywords} if ctor else {}
    bad = [k for k, v in kw.items() if f"{REC}['{k}']" not in v and f"{REC}.get('{k}')" not in v]
    r.check(bool(kw) and not bad and set(kw) <= set(pr.class_annots), "R1", f"{pj.qualname}#field-binding",
            f"fields not bound to the key of the same name: {bad}", loc=pj.loc)

    # ---------------------------------------------------------------- R9
    from sa.cfg import CFG
    rd_cls = m.require_class(f"{LOG}.PenlogReader")
    n_set = 0
    for f in rd_cls.methods.values():
        if f.name == "__init__":
            continue
        gq = CFG(f.node)
        line_sets = [n for n in gq.nodes.values() if n.kind == "stmt" and isinstance(n.ast, (ast.Assign, ast.AugAssign)) and
                     ast.unparse(n.ast.targets[0] if isinstance(n.ast, ast.Assign) else n.ast.target) == "self._current_line"]
        inval = {n.id for n in gq.nodes.values() if n.kind == "stmt" and isinstance(n.ast, ast.Assign) and ast.unparse(n.ast.targets[0]) == "self._current_record"
                 and isinstance(n.ast.value, ast.Constant) and n.ast.value.value is None}
        for ls in line_sets:
            n_set += 1
            before, _ = gq.must_pass(gq.entry, inval, {ls.id}) if inval else (False, [])
            after, _ = gq.must_pass(ls.id, inval, {gq.exit_return}, skip_edge=lambda n, b, k: k == "exc") if inval else (False, [])
            r.check(before or after, "R9", f"{f.qualname}#cache-coherent",
                    "self._current_line is replaced without dropping the cached parsed record (self._current_record = None): current_record then returns the "
                    "record of an earlier line (duplicates / missing records when prefixed and prefix-less lines are mixed)", loc=f"{f.module.relpath}:{ls.lineno}")
    if n_set < 1:
        raise AnalysisError("PenlogReader: no assignment of self._current_line outside __init__")
    zstd_close_rules(m, r, "R9")
    if log_queues_unbounded(m, r, "R9") < 2:
        raise AnalysisError("the queues of the log handlers were not found")

    # optional keys: present -> the value, absent -> None (evaluated for both cases)
    from sa import miniterp
    def _wrap_oracle(call, env):
        # constructors / converters around a looked-up value are transparent for this rule
        if len(call.args) == 1 and not call.keywords and ast.unparse(call.func) in ("PenlogPriority", "datetime.datetime.fromisoformat", "int", "str"):
            return miniterp.eval_expr(call.args[0], env, _wrap_oracle)
        return NotImplemented
    badk = []
    for k in (ctor[0].keywords if ctor else []):
        for present in (True, False):
            try:
                got = miniterp.eval_expr(k.value, {REC: ({k.arg: "VALUE"} if present else {})}, _wrap_oracle)
            except miniterp.Raised:
                got = "<KeyError>"
            ann_ = pr.class_annots.get(k.arg)
            optional = ann_ is not None and "None" in ast.unparse(ann_)
            want = "VALUE" if present else (None if optional else "<KeyError>")
            if got != want:
                badk.append(f"{k.arg} {'present' if present else 'absent'} -> {got!r}")
    r.check(not badk, "R1", f"{pj.qualname}#present-absent", f"fields are read back as {badk}; a stored value must be returned, a missing optional key must give None", loc=pj.loc)

    # ---------------------------------------------------------------- R10
    pm = m.require_function(f"{LOG}.PenlogReader._prepare_for_mmap")
    EXT_SIG = {"copyfileobj": ("source", "destination"), "copy_stream": ("source", "destination")}
    tmp_vars = {n.targets[0].id for n in ast.walk(pm.node) if isinstance(n, ast.Assign) and isinstance(n.targets[0], ast.Name) and "TemporaryFile" in ast.unparse(n.value)}
    n_copy = 0
    def _unwrap(e):
        while isinstance(e, ast.Call) and ast.unparse(e.func) == "cast" and len(e.args) == 2:
            e = e.args[1]
        return e
    for w in [n for n in ast.walk(pm.node) if isinstance(n, ast.With)]:
        src_vars = {it.optional_vars.id for it in w.items if isinstance(it.optional_vars, ast.Name)}
        for c in [x for b_ in w.body for x in ast.walk(b_) if isinstance(x, ast.Call) and isinstance(x.func, ast.Attribute) and x.func.attr in EXT_SIG]:
            n_copy += 1
            a0, a1 = (_unwrap(c.args[0]), _unwrap(c.args[1])) if len(c.args) >= 2 else (None, None)
            r.check(isinstance(a0, ast.Name) and a0.id in src_vars and isinstance(a1, ast.Name) and a1.id in tmp_vars, "R10", f"{pm.qualname}#copy-direction@{c.lineno - pm.node.lineno}",
                    f"`{ast.unparse(c)[:70]}` does not copy from the opened log ({sorted(src_vars)}) into the temporary file ({sorted(tmp_vars)})", loc=f"{pm.module.relpath}:{c.lineno}")
    if n_copy < 3:
        raise AnalysisError(f"{pm.qualname}: expected three copy calls (zst, gz, plain), found {n_copy}")
    gp = CFG(pm.node)
    # the suffix match has no catch-all arm, but it is entered only under `path.suffix in [<the same literals>]`: its fall-through edge is infeasible
    exhaustive_match = set()
    for mt in [n for n in ast.walk(pm.node) if isinstance(n, ast.Match)]:
        pats = {ast.literal_eval(ast.unparse(c.pattern)) for c in mt.cases if isinstance(c.pattern, ast.MatchValue) and isinstance(c.pattern.value, ast.Constant)}
        from sa.util import path_condition as _pc
        for t_, pol in _pc(pm.node, mt):
            for cmp_ in [x for x in ast.walk(t_) if isinstance(x, ast.Compare) and len(x.ops) == 1 and isinstance(x.ops[0], ast.In) and isinstance(x.comparators[0], (ast.List, ast.Tuple, ast.Set))]:
                if pol and ast.unparse(cmp_.left) == ast.unparse(mt.subject) and {e.value for e in cmp_.comparators[0].elts if isinstance(e, ast.Constant)} == pats and len(pats) == len(mt.cases):
                    exhaustive_match.add(mt.lineno)
    def _skip(n, b, k):
        if k == "exc":
            return True
        if n.kind == "match" and n.lineno in exhaustive_match:
            mt_n = next(x for x in ast.walk(pm.node) if isinstance(x, ast.Match) and x.lineno == n.lineno)
            arm_first = {id(c.body[0]) for c in mt_n.cases}
            return id(gp.nodes[b].ast) not in arm_first
        return False
    for tv in sorted(tmp_vars):
        rets_t = {n.id for n in gp.nodes.values() if n.kind == "return" and isinstance(n.ast, ast.Return) and n.ast.value is not None and tv in {x.id for x in ast.walk(n.ast.value) if isinstance(x, ast.Name)}}
        fl = {n.id for n in gp.nodes.values() if n.kind == "stmt" and n.ast is not None and f"{tv}.flush()" in ast.unparse(n.ast)}
        cp = {n.id for n in gp.nodes.values() if n.ast is not None and n.kind in ("stmt", "with_enter") and any(isinstance(x, ast.Call) and isinstance(x.func, ast.Attribute) and x.func.attr in EXT_SIG for x in ast.walk(n.ast))}
        okf_, _ = gp.must_pass(gp.entry, fl, rets_t, skip_edge=_skip) if fl and rets_t else (False, [])
        okc2, _ = gp.must_pass(gp.entry, cp, rets_t, skip_edge=_skip) if cp and rets_t else (False, [])
        r.check(okf_ and okc2, "R10", f"{pm.qualname}#filled-and-flushed", "the temporary file can be handed out without having been filled and flushed: trailing records are missing from the mapped view", loc=pm.loc)
    from sa import dispatch as _dps
    subj_s = sorted({ast.unparse(n.subject) for n in ast.walk(pm.node) if isinstance(n, ast.Match)} |
                    {ast.unparse(c.left) for n in ast.walk(pm.node) if isinstance(n, ast.If) for c in ast.walk(n.test)
                     if isinstance(c, ast.Compare) and isinstance(c.ops[0], ast.Eq) and isinstance(c.comparators[0], ast.Constant) and c.comparators[0].value in (".zst", ".gz")})
    arms_s = _dps.arms(pm.node, subj_s[0]) if len(subj_s) == 1 else None
    arms_ = {p_: ast.unparse(ast.Module(body=a_.body, type_ignores=[])) for a_ in (arms_s or []) for p_ in a_.patterns}
    r.check("zstandard" in arms_.get("'.zst'", "") and "gzip.open" in arms_.get("'.gz'", ""), "R10", f"{pm.qualname}#decompressor-by-suffix",
            f"suffix dispatch is {sorted(arms_)}: .zst must be read with zstandard, .gz with gzip", loc=pm.loc)
    psf = m.require_function(f"{LOG}.PenlogReader._parse_file_structure")
    ploops = [n for n in walk_no_nested(psf.node) if isinstance(n, ast.While)]
    okl = False
    eof_if = []
    detail_l = "offset loop not found"
    if len(ploops) == 1 and isinstance(ploops[0].test, ast.Constant) and ploops[0].test.value is True:
        L_ = ploops[0]
        breaks = [n for n in ast.walk(L_) if isinstance(n, ast.Break)]
        eof_if = [n for n in L_.body if isinstance(n, ast.If) and any(isinstance(x, ast.Break) for x in n.body)]
        if len(breaks) == 1 and len(eof_if) == 1:
            lv = [ast.unparse(x) for x in ast.walk(eof_if[0].test) if isinstance(x, ast.Name)]
            bad_t = []
            for val in (b"", b"x\n", b"\n"):
                taken = bool(miniterp.eval_expr(eof_if[0].test, {lv[0]: val})) if lv else None
                if taken != (val == b""):
                    bad_t.append(f"line={val!r} -> {'stop' if taken else 'continue'}")
            app = [i for i, s_ in enumerate(L_.body) if "self._record_offsets.append(self.file_mmap.tell())" in ast.unparse(s_)]
            rd = [i for i, s_ in enumerate(L_.body) if ".readline()" in ast.unparse(s_) and not isinstance(s_, ast.If)]
            dl = any(isinstance(s_, ast.Delete) and ast.unparse(s_.targets[0]) == "self._record_offsets[-1]" for s_ in eof_if[0].body)
            detail_l = f"eof test {bad_t or 'ok'}, append at {app}, readline at {rd}, last offset dropped at eof: {dl}"
            okl = not bad_t and len(app) == 1 and len(rd) == 1 and app[0] < rd[0] < L_.body.index(eof_if[0]) and dl and not any(isinstance(n, ast.Continue) for n in ast.walk(L_))
    # (only the confirmed shape - `while True: tell; readline; if eof: drop, break` - is decided; another formulation of the table is "not recognised")
    r.check3(okl if (okl or (len(ploops) == 1 and len(eof_if) == 1)) else None, "R10", f"{psf.qualname}#offset-table",
            f"{detail_l}; each iteration must record the position before reading a line, stop exactly at end-of-file and drop the position recorded for the "
            "non-existent line after the last newline", loc=psf.loc)
    # the offset table describes the whole file: it is built from position 0, whatever has been read before
    # (`old = tell()` ... `seek(old)` only saves and restores the reader's position)
    if len(ploops) == 1:
        pre = [st for st in psf.node.body if st.lineno < ploops[0].lineno]
        rewinds = [st for st in pre if isinstance(st, ast.Expr) and isinstance(st.value, ast.Call) and ast.unparse(st.value.func) == "self.file_mmap.seek"
                   and st.value.args and m.try_fold(psf.module, st.value.args[0]) == 0]
        r.check(bool(rewinds), "R10", f"{psf.qualname}#from-start",
                "the offset table is built starting at the current read position, not at the beginning of the file: after k records have been read, len() is short by k and "
                "negative offsets / reverse reading address the wrong records", loc=psf.loc)
    rinit = m.require_function(f"{LOG}.PenlogReader.__init__")
    maps = [n for n in ast.walk(rinit.node) if isinstance(n, ast.Call) and ast.unparse(n.func) == "mmap.mmap"]
    if len(maps) != 1:
        raise AnalysisError(f"{rinit.qualname}: mmap call not found")
    guarded_map = any(isinstance(t_, ast.Try) and any(maps[0] is x for b_ in t_.body for x in ast.walk(b_)) and
                      any(h.type is None or any(k in ast.unparse(h.type) for k in ("ValueError", "Exception")) for h in t_.handlers) for t_ in ast.walk(rinit.node)) or \
        any(isinstance(i_, ast.If) and ("st_size" in ast.unparse(i_.test) or "getsize" in ast.unparse(i_.test)) for i_ in ast.walk(rinit.node))
    r.check(guarded_map, "R10", f"{rinit.qualname}#empty-log",
            "mmap.mmap(fd, 0) raises ValueError for an empty file and nothing handles it: a log without any record (0 is in the property's range of lengths) cannot be opened at all", loc=rinit.loc)
    # the mappability probe decides between mapping the input and copying it into a temporary file: an input that cannot be mapped makes mmap raise ValueError
    # (empty file) or OSError (character device, e.g. `hr - </dev/null`; some pseudo files) - both must select the copy
    tmm = m.require_function(f"{LOG}.PenlogReader._test_mmap")
    tries_ = [t_ for t_ in ast.walk(tmm.node) if isinstance(t_, ast.Try) and any(isinstance(c_, ast.Call) and ast.unparse(c_.func) == "mmap.mmap" for b_ in t_.body for c_ in ast.walk(b_))]
    if len(tries_) != 1:
        raise AnalysisError(f"{tmm.qualname}: the try around mmap.mmap was not found")
    caught_ = " ".join(ast.unparse(h.type) if h.type is not None else "BaseException" for h in tries_[0].handlers)
    r.check(("OSError" in caught_ or "Exception" in caught_) and ("ValueError" in caught_ or "Exception" in caught_), "R10", f"{tmm.qualname}#unmappable-input",
            f"the probe catches only `{caught_}`: mmap raises OSError for inputs that are no regular files (an empty log given as `hr - </dev/null`), the error escapes "
            "and the copy-to-temporary-file fallback is never reached", loc=tmm.loc)
    lo = m.require_function(f"{LOG}.PenlogReader._lookup_offset")
    first_if = next((n for n in lo.node.body if isinstance(n, ast.If)), None)
    ipar = lo.params()[1] if len(lo.params()) > 1 else "index"
    okz0 = first_if is not None and isinstance(first_if.body[0], ast.Return) and ast.unparse(first_if.body[0].value) == "0" and \
        all(bool(miniterp.eval_expr(first_if.test, {ipar: v})) == (v == 0) for v in (-1, 0, 1, 5))
    r.check(okz0, "R10", f"{lo.qualname}#first-record", "record 0 starts at offset 0 (and only record 0 takes that shortcut)", loc=lo.loc)
    recs_fn = m.require_function(f"{LOG}.PenlogReader.records")
    wl = [n for n in walk_no_nested(recs_fn.node) if isinstance(n, ast.While)]
    # (canonical view: `while True: if self.readline() == b"": break; ...` is the loop `while self.readline() != b"": ...`)
    r.check(len(wl) == 2 and all("self.readline()" in ast.unparse(w_.test) or any("self.readline()" in ast.unparse(s_) for s_ in w_.body[:1]) for w_ in wl), "R10", f"{recs_fn.qualname}#reads-each-record",
            "both iteration directions must read the line at the current position first in every iteration", loc=recs_fn.loc)

    # positioning primitives
    RD = f"{LOG}.PenlogReader"
    sk = m.require_function(f"{RD}.seek_to_record")
    npar = sk.params()[1] if len(sk.params()) > 1 else "n"
    r.check(any(isinstance(n, ast.Expr) and ast.unparse(n.value) == f"self.file_mmap.seek(self._lookup_offset({npar}))" for n in sk.node.body) and
            any(isinstance(n, ast.Assign) and ast.unparse(n) == f"self._current_record_index = {npar}" for n in sk.node.body), "R10", f"{sk.qualname}#positions",
            "seek_to_record(n) must move the file to the offset of record n and remember n", loc=sk.loc)
    for fname, op in (("seek_to_next_record", ast.Add), ("seek_to_previous_record", ast.Sub)):
        f_ = m.require_function(f"{RD}.{fname}")
        steps = [n for n in f_.node.body if isinstance(n, ast.AugAssign) and ast.unparse(n.target) == "self._current_record_index"]
        seeks = [n for n in f_.node.body if isinstance(n, ast.Expr) and ast.unparse(n.value) == "self.seek_to_record(self._current_record_index)"]
        r.check(len(steps) == 1 and isinstance(steps[0].op, op) and m.try_fold(f_.module, steps[0].value) == 1 and len(seeks) == 1 and steps[0].lineno < seeks[0].lineno, "R10",
                f"{f_.qualname}#step", "must move by exactly one record and re-position the file", loc=f_.loc)
    sc_ = m.require_function(f"{RD}.seek_to_current_record")
    r.check("self.file_mmap.seek(self._lookup_offset(self._current_record_index))" in ast.unparse(sc_.node), "R10", f"{sc_.qualname}#positions", "must re-position the file", loc=sc_.loc)
    r.check(any("self._parse_file_structure()" in ast.unparse(n) for n in lo.node.body if isinstance(n, ast.If) and m.mtext(lo, n.test) == "not self._parsed"), "R10",
            f"{lo.qualname}#parses-on-demand", "the offset table must be built before it is indexed", loc=lo.loc)
    ln_ = m.require_function(f"{RD}.__len__")
    r.check(any("self._parse_file_structure()" in ast.unparse(n) for n in ln_.node.body if isinstance(n, ast.If) and ast.unparse(n.test) == "not self._parsed"), "R10",
            f"{ln_.qualname}#parses-on-demand", "len() must build the offset table first", loc=ln_.loc)
    saved = {n.targets[0].id for n in psf.node.body if isinstance(n, ast.Assign) and isinstance(n.targets[0], ast.Name) and ast.unparse(n.value) == "self.file_mmap.tell()"
             and n.lineno < ploops[0].lineno} if ploops else set()
    r.check(any(isinstance(n, ast.Expr) and isinstance(n.value, ast.Call) and ast.unparse(n.value.func) == "self.file_mmap.seek" and len(n.value.args) == 1
                and isinstance(n.value.args[0], ast.Name) and n.value.args[0].id in saved and ploops and n.lineno > ploops[0].lineno for n in psf.node.body), "R10", f"{psf.qualname}#restores-position",
            "building the offset table must not move the read position", loc=psf.loc)
    # forward iteration ends exactly at end-of-file; reverse iteration steps back and ends at the first record
    fw = next((w_ for w_ in wl if not any(isinstance(x, ast.Try) for x in w_.body)), None)
    bw = next((w_ for w_ in wl if any(isinstance(x, ast.Try) for x in w_.body)), None)
    if fw is not None and bw is not None:
        # the loop runs while the line read is not b"" (evaluated over the line read), and nothing skips the read
        def _runs(line) -> bool:
            return bool(miniterp.eval_expr(fw.test, {}, lambda call, env_: line if ast.unparse(call.func) == "self.readline" else NotImplemented))
        try:
            okfw = "self.readline()" in ast.unparse(fw.test) and [_runs(x_) for x_ in (b"", b"\n", b"{}\n", b"x")] == [False, True, True, True] \
                and not any(isinstance(n, ast.Continue) for n in ast.walk(fw))
        except AnalysisError:
            okfw = None
        r.check3(okfw, "R10", f"{recs_fn.qualname}#forward-ends-at-eof", "the forward loop must stop exactly when readline() returns b''", loc=recs_fn.loc)
        tr_b = [n for n in bw.body if isinstance(n, ast.Try)]
        okbw = len(tr_b) == 1 and "self.seek_to_previous_record()" in ast.unparse(tr_b[0].body[0]) and \
            any(h.type is not None and ast.unparse(h.type) == "IndexError" and isinstance(h.body[-1], (ast.Break, ast.Return)) for h in tr_b[0].handlers)
        r.check(okbw, "R10", f"{recs_fn.qualname}#reverse-steps-back", "the reverse loop must step to the previous record and stop at the IndexError of record -1", loc=recs_fn.loc)
    # the reader accepts exactly the version the writer emits
    fmt_ = m.require_function(f"{LOG}._JSONFormatter.format")
    wkw = [k.value for n in ast.walk(fmt_.node) if isinstance(n, ast.Call) and ast.unparse(n.func) == "_PenlogRecordV2" for k in n.keywords if k.arg == "version"]
    wver = m.try_fold(mod, wkw[0]) if len(wkw) == 1 else None
    vifs = [n for n in pj.node.body if isinstance(n, ast.If) and "version" in ast.unparse(n.test) and any(isinstance(x, ast.Raise) for x in n.body)]
    okver = False
    if isinstance(wver, int) and len(vifs) == 1:
        okver = all(bool(miniterp.eval_expr(vifs[0].test, {REC: {"version": vv}})) == (vv != wver) for vv in (wver - 1, wver, wver + 1))
    r.check(okver, "R1", f"{pj.qualname}#version", f"records of the writer's version ({wver}) must be accepted and every other version refused", loc=pj.loc)

    # ---------------------------------------------------------------- R2
    levels = {k: ast.unparse(v) for k, v in m.require_class(f"{LOG}.Loglevel").class_attrs.items() if not k.startswith("_")}
    prios = m.enum_members(m.require_class(f"{LOG}.PenlogPriority"))
    if not levels or len(levels) != 7:
        raise AnalysisError(f"Loglevel members: {levels}")
    fl = m.require_function(f"{LOG}.PenlogPriority.from_level")
    tl = m.require_function(f"{LOG}.PenlogPriority.to_level")

    def table(fn, subject: str) -> dict[str, str]:
        """value -> result of a conversion function written as a match, an if-chain (sa/dispatch.py) or a lookup in a module-level dict literal."""
        from sa import dispatch as _dp17
        arms_t = _dp17.arms(fn.node, subject)
        out = {}
        if arms_t is not None:
            for a_ in arms_t:
                ret = [ast.unparse(s.value) for s in a_.body if isinstance(s, ast.Return) and s.value is not None]
                res = ret[0] if ret else ("raise" if any(isinstance(s, ast.Raise) for s in a_.body) else "?")
                for p_ in (a_.patterns or ["_"]):
                    out[p_] = res
            return out
        dicts = [fn.module.assigns[n.id] for n in ast.walk(fn.node) if isinstance(n, ast.Name) and isinstance(fn.module.assigns.get(n.id), ast.Dict)]
        if len(dicts) == 1 and all(k is not None for k in dicts[0].keys):
            cname = fn.cls.name if fn.cls is not None else ""
            for k, v in zip(dicts[0].keys, dicts[0].values):
                # inside the class `cls.X` / `self.X`-relative spellings: the table names members by their class
                out[ast.unparse(k).replace(f"{cname}.", "self." if subject == "self" else f"{cname}.")] = ast.unparse(v).replace(f"{cname}.", "cls.")
            out["_"] = "raise" if any(isinstance(x, ast.Raise) for x in ast.walk(fn.node)) else "?"
            return out
        raise AnalysisError(f"{fn.qualname}: conversion table on {subject} (match / if-chain / dict) not found")
    t_from, t_to = table(fl, "value"), table(tl, "self")
    for name in levels:
        r.check(t_from.get(f"Loglevel.{name}") == f"cls.{name}", "R2", f"{fl.qualname}#{name}",
                f"level {name} maps to {t_from.get('Loglevel.' + name)}", loc=fl.loc)
        r.check(t_to.get(f"self.{name}") == f"Loglevel.{name}", "R2", f"{tl.qualname}#{name}", f"priority {name} maps to {t_to.get('self.' + name)}", loc=tl.loc)
    r.check(t_from.get("_") == "raise" and t_to.get("_") == "raise", "R2", f"{LOG}.PenlogPriority#defaults", "unknown values must raise", loc=fl.loc)
    r.check(all(n in prios for n in levels) and sorted(prios.values()) == list(range(len(prios))), "R2", f"{LOG}.PenlogPriority#members",
            f"priorities {prios}", loc=fl.loc)
    # severity order: higher level <=> lower priority value
    r.extra["levels"] = sorted(levels)

    # ---------------------------------------------------------------- R3
    emit = m.require_function(f"{LOG}._ZstdFileHandler.emit")
    fmt = m.require_function(f"{LOG}._JSONFormatter.format")
    pa = [n for n in walk_no_nested(emit.node) if isinstance(n, ast.Assign) and isinstance(n.targets[0], ast.Name) and "from_level" in ast.unparse(n.value)]
    pexpr = ast.unparse(pa[0].value) if pa else None
    pvar = pa[0].targets[0].id if pa else "prio"
    jprio = [ast.unparse(k.value) for n in ast.walk(fmt.node) if isinstance(n, ast.Call) and ast.unparse(n.func) == "_PenlogRecordV2" for k in n.keywords if k.arg == "priority"]
    r.check(pexpr == "PenlogPriority.from_level(record.levelno).value" and jprio == [pexpr], "R3", f"{emit.qualname}#same-priority",
            f"prefix priority is `{pexpr}`, JSON priority is `{jprio}`: the reader filters on the prefix, so both must be the same value", loc=emit.loc)
    # what emit() writes, evaluated for a formatter result with and without trailing newline and two priorities: exactly b"<prio>" + text + b"\n"
    from sa import miniterp as _mte17

    def emitted(text: str, prio: int):
        written: list = []

        def orc(call, env_):
            f_ = ast.unparse(call.func)
            if f_ == "self.format":
                return text
            if f_ == "PenlogPriority.from_level":
                return _mte17.Obj(value=prio)
            if f_ == "self.file.write" and len(call.args) == 1:
                written.append(_mte17.eval_expr(call.args[0], env_, orc))
                return None
            if isinstance(call.func, ast.Attribute) and call.func.attr == "encode" and not call.args:
                v_ = _mte17.eval_expr(call.func.value, env_, orc)
                return v_.encode() if isinstance(v_, str) else NotImplemented
            return NotImplemented
        _mte17.run_function(emit.node, {"record": "REC", "record.levelno": 20}, orc)
        return written
    emit_bad, emit_unknown = [], None
    try:
        for text_, prio_ in (("{}", 6), ("{}\n", 6), ("{\"a\": 1}", 3), ("", 7)):
            got_ = emitted(text_, prio_)
            want_ = [f"<{prio_}>{text_.rstrip(chr(10))}\n".encode()] if not text_.endswith("\n\n") else None
            if got_ != want_:
                emit_bad.append(f"format() -> {text_!r}, priority {prio_}: writes {got_}")
    except (AnalysisError, _mte17.Raised) as ex_:
        emit_unknown = str(ex_)
    r.check3(None if emit_unknown else not emit_bad, "R3", f"{emit.qualname}#prefix-format",
             f"{emit_bad[:2]}: the line must be '<' + priority + '>' + JSON, with the priority unmodified", loc=emit.loc, unknown_msg=f"emit is outside the evaluated language: {emit_unknown}")
    pp = m.require_function(f"{LOG}.PenlogRecord.parse_priority")
    sp = ast.unparse(pp.node)
    # (the values parse_priority returns are decided by evaluation in #prefix-value below; this is the structural confirmation of the usual spelling)
    r.check3(True if ("data.startswith(b'<')" in sp and "data[1:data.index(b'>')]" in sp and "return None" in sp) else None, "R3", f"{pp.qualname}#prefix-parse",
            "parse_priority must read the number between '<' and the first '>' and return None without prefix", loc=pp.loc)
    # evaluated for every priority the writer can emit (0..8), with and without prefix
    from sa import miniterp as _mt
    dpar = pp.params()[1] if len(pp.params()) > 1 else "data"
    badp = []
    for pv in range(0, 9):
        for line, want in ((f'<{pv}>{{"priority": {pv}}}'.encode(), pv), (f'{{"priority": {pv}}}'.encode(), None)):
            try:
                ret_, env_ = _mt.run_function(pp.node, {dpar: line, "cls": None})
                got = _mt.eval_expr(ret_.value, env_) if ret_ is not None and ret_.value is not None else None
            except _mt.Raised:
                got = "raises"
            if got != want:
                badp.append(f"{line[:4]!r}... -> {got}")
    r.check(not badp, "R3", f"{pp.qualname}#prefix-value", f"parse_priority returns {badp[:4]}: the prefix carries the writer's priority value unchanged (0..8, TRACE = 8); a different "
            "value makes the prefix path and the JSON path of the priority filter disagree", loc=pp.loc)
    sj = ast.unparse(pj.node)
    r.check("data[data.index(b'>') + 1:]" in sj and "data.startswith(b'<')" in sj, "R3", f"{pj.qualname}#prefix-strip", "parse_json must strip exactly the prefix", loc=pj.loc)
    cp = m.require_function(f"{LOG}.PenlogReader.current_priority")
    r.check("parse_priority(self._current_line)" in ast.unparse(cp.node) and m.has(cp, "prio is None") and ".priority" in ast.unparse(cp.node),
            "R3", f"{cp.qualname}#fallback", "without prefix the priority must be taken from the JSON record", loc=cp.loc)

    # ---------------------------------------------------------------- R4
    dumps = [n for n in ast.walk(fmt.node) if isinstance(n, ast.Call) and ast.unparse(n.func) == "json.dumps"]
    kws = [k.arg for d in dumps for k in d.keywords]
    r.check(len(dumps) == 1 and not kws, "R4", f"{fmt.qualname}#json-dumps",
            f"json.dumps is called with {kws}: the defaults guarantee a single ASCII line (indent adds newlines; ensure_ascii=False lets unencodable "
            "characters, e.g. lone surrogates, kill the writer thread)", loc=fmt.loc)
    # the dumped object is the complete record: every key the reader indexes unconditionally is written for every value, also falsy ones ("" / 0)
    if len(dumps) == 1 and dumps[0].args:
        obj = dumps[0].args[0]
        loc_assign = {n.targets[0].id: n.value for n in walk_no_nested(fmt.node) if isinstance(n, ast.Assign) and isinstance(n.targets[0], ast.Name)}
        if isinstance(obj, ast.Name) and obj.id in loc_assign:
            obj = loc_assign[obj.id]
        if isinstance(obj, ast.Call) and ast.unparse(obj.func).endswith("asdict"):
            dropped = []
        elif isinstance(obj, ast.DictComp) and len(obj.generators) == 1 and "asdict(" in ast.unparse(obj.generators[0].iter) and isinstance(obj.generators[0].target, ast.Tuple):
            from sa import miniterp as _mt4
            kv = [ast.unparse(x) for x in obj.generators[0].target.elts]
            dropped = []
            for val in ("", 0, "x", 2):
                env4 = {kv[0]: "data", kv[1]: val}
                if not all(bool(_mt4.eval_expr(t_, dict(env4))) for t_ in obj.generators[0].ifs) or ast.unparse(obj.key) != kv[0] or ast.unparse(obj.value) != kv[1]:
                    dropped.append(repr(val))
        else:
            raise AnalysisError(f"{fmt.qualname}: the object passed to json.dumps ({ast.unparse(obj)[:60]}) is neither dataclasses.asdict(record) nor a filter over it")
        r.check(not dropped, "R1", f"{fmt.qualname}#all-keys-written", f"fields with the values {dropped} are left out of the JSON line: the reader indexes data / priority / "
                "module / host / datetime / version unconditionally, so e.g. an empty message makes the whole log unreadable", loc=fmt.loc)
    r.check3(None if emit_unknown else not emit_bad, "R4", f"{emit.qualname}#terminator", f"{emit_bad[:2]}: each record must be written as one newline-terminated line",
             loc=emit.loc, unknown_msg=f"emit is outside the evaluated language: {emit_unknown}")
    pfs = m.require_function(f"{LOG}.PenlogReader._parse_file_structure")
    r.check("self.file_mmap.readline()" in ast.unparse(pfs.node) and "self._record_offsets.append(self.file_mmap.tell())" in ast.unparse(pfs.node), "R4",
            f"{pfs.qualname}#line-index", "the offset table must index line starts", loc=pfs.loc)

    # ---------------------------------------------------------------- R5
    rec = m.require_function(f"{LOG}.PenlogReader.records")
    tests = [ast.unparse(n.test).replace(" ", "") for n in ast.walk(rec.node) if isinstance(n, ast.If) and "current_priority" in ast.unparse(n.test)]
    r.check(len(tests) == 2 and all(t == "self.current_priority<=priority" for t in tests), "R5", f"{rec.qualname}#filter",
            f"filter tests {tests}; lower numbers are more severe, so records with value <= requested are kept", loc=rec.loc)
    ys = [n for n in ast.walk(rec.node) if isinstance(n, ast.Yield)]
    r.check(len(ys) == 2 and all(ast.unparse(y.value) == "self.current_record" for y in ys), "R5", f"{rec.qualname}#yields", "both directions must yield the current record", loc=rec.loc)

    # a line that was read is parsed only after it was found non-empty (end of data / a log without records): in both directions
    grec = CFG(rec.node)
    prio_nodes = {n.id for n in grec.nodes.values() if n.kind == "cond" and n.ast is not None and "self.current_priority" in ast.unparse(n.ast)}
    empt = [n for n in grec.nodes.values() if n.kind in ("cond", "loop") and n.ast is not None and "self.readline()" in (n.label if n.kind == "loop" else ast.unparse(n.ast))
            and "b''" in (n.label if n.kind == "loop" else ast.unparse(n.ast))]
    if len(prio_nodes) != 2:
        raise AnalysisError(f"{rec.qualname}: expected two priority tests (forward / reverse)")

    for pn in sorted(prio_nodes):
        oke, _pe = grec.must_pass(grec.entry, {e.id for e in empt}, {pn})
        r.check(oke, "R5", f"{rec.qualname}#empty-line-guard@{'forward' if pn == min(prio_nodes) else 'reverse'}",
                "the priority of the line just read is evaluated without testing the line for emptiness first: at the end of the data / for a log without records "
                "the empty line is handed to the JSON parser, which raises", loc=rec.loc)
    # ---------------------------------------------------------------- R6
    reader = m.require_class(f"{LOG}.PenlogReader")
    n_idx = 0
    for f in reader.methods.values():
        subs = [n for n in walk_no_nested(f.node) if isinstance(n, ast.Subscript) and ast.unparse(n.value) == "self._record_offsets" and isinstance(n.ctx, ast.Load)
                and not isinstance(n.slice, ast.Constant)]
        if not subs:
            continue
        g = CFG(f.node)
        for s in subs:
            n_idx += 1
            idx = ast.unparse(s.slice)
            guards = {n.id for n in g.nodes.values() if n.kind == "cond" and n.ast is not None and
                      ast.unparse(n.ast).replace(" ", "") in (f"not0<={idx}<len(self._record_offsets)", f"{idx}<0or{idx}>=len(self._record_offsets)",
                                                               f"not(0<={idx}<len(self._record_offsets))")}
            uses = {n.id for n in g.nodes_of(s)}
            ok = bool(guards)
            if ok:
                ok, _ = g.must_pass(g.entry, guards, uses)
                # the guard's true branch must raise
                for gid in guards:
                    t = g.succ[gid][0][0]
                    ok = ok and g.nodes[t].kind == "raise" and "IndexError" in ast.unparse(g.nodes[t].ast)
            r.check(ok, "R6", f"{f.qualname}#_record_offsets[{idx}]",
                    f"self._record_offsets[{idx}] is not dominated by a `0 <= {idx} < len(...)` check that raises IndexError: Python wraps negative "
                    "indices, so reading backwards past record 0 continues at the last record and an offset beyond a short log raises", loc=f"{f.module.relpath}:{s.lineno}")
    if n_idx < 1:
        raise AnalysisError("no variable index into _record_offsets found")
    sprev = m.require_function(f"{LOG}.PenlogReader.seek_to_previous_record")
    r.extra["reverse_stop"] = "reverse iteration ends when seek_to_previous_record raises IndexError for index -1 (bounds check above)"

    # ---------------------------------------------------------------- R7
    norm = [n for n in walk_no_nested(rec.node) if isinstance(n, ast.If) and ast.unparse(n.test).replace(" ", "") == "offset<0"]
    okn = False
    detail = "no `if offset < 0` normalisation"
    if len(norm) == 1:
        asg = [s for s in norm[0].body if isinstance(s, (ast.Assign, ast.AugAssign)) and ast.unparse(s.targets[0] if isinstance(s, ast.Assign) else s.target) == "offset"]
        if len(asg) == 1:
            if isinstance(asg[0], ast.AugAssign):
                expr = ast.BinOp(left=ast.Name(id="offset", ctx=ast.Load()), op=asg[0].op, right=asg[0].value)
            else:
                expr = asg[0].value
            okn = True
            fails = []
            for n in range(1, 9):
                for off in range(-12, 0):
                    got = small_eval(expr, {"offset": off, "__len__": n})
                    want = max(n + off, 0)
                    if got != want:
                        okn = False
                        fails.append((n, off, got, want))
            detail = f"offset = {ast.unparse(expr)} gives (len, offset, got, expected) {fails[:3]}"
        seek_after = any(isinstance(s, ast.Expr) and "self.seek_to_record(offset)" in ast.unparse(s) for s in rec.node.body[rec.node.body.index(norm[0]) + 1:])
        okn = okn and seek_after
    r.check(okn, "R7", f"{rec.qualname}#negative-offset", f"{detail}: tail reading of a log shorter than the requested count must start at the first record", loc=rec.loc)

    # ---------------------------------------------------------------- R8
    # hr's option handling is decided by evaluation, not by its text: the statements between `with PenlogReader(...)` and the print loop are
    # interpreted for every mode x line count over a model log [0..L-1]; `reader.records(prio, offset, reverse)` is answered by the slice
    # semantics R5/R7/R10 establish for PenlogReader.records, `islice(g, n)` by the first n elements.
    hr = m.require_function(f"{HR}._main")
    withs = [n for n in ast.walk(hr.node) if isinstance(n, ast.With) and any("PenlogReader" in ast.unparse(i_.context_expr) for i_ in n.items)]
    if len(withs) != 1 or not isinstance(withs[0].items[0].optional_vars, ast.Name):
        raise AnalysisError(f"{hr.qualname}: the `with PenlogReader(...) as reader` block was not found")
    rname = withs[0].items[0].optional_vars.id
    loops = [k for k, s_ in enumerate(withs[0].body) if isinstance(s_, ast.For)]
    if len(loops) != 1:
        raise AnalysisError(f"{hr.qualname}: expected one print loop inside the reader block")
    setup, loop = withs[0].body[:loops[0]], withs[0].body[loops[0]]
    arg_attrs = sorted({ast.unparse(n) for s_ in setup + [loop] for n in ast.walk(s_) if isinstance(n, ast.Attribute) and isinstance(n.value, ast.Name) and n.value.id == "args"})
    known_args = {"args.head", "args.tail", "args.reverse", "args.lines", "args.priority"}
    if not set(arg_attrs) <= known_args:
        raise AnalysisError(f"{hr.qualname}: option(s) {sorted(set(arg_attrs) - known_args)} are not part of the navigation model")

    def _records_model(L: int, offset: int, reverse: bool):
        if offset < 0:
            offset = max(L + offset, 0)
        if offset != 0 and not 0 <= offset < L:
            return "IndexError"
        if L == 0:
            return []
        return list(range(offset, -1, -1)) if reverse else list(range(offset, L))

    def _hr_oracle(L: int):
        def oracle(call: ast.Call, env):
            from sa.miniterp import eval_expr as ev
            f = ast.unparse(call.func)
            if f == f"{rname}.records":
                names = ["priority", "offset", "reverse"]
                vals = {"priority": None, "offset": 0, "reverse": False}
                for k_, a_ in enumerate(call.args):
                    vals[names[k_]] = ev(a_, env, oracle)
                for kw_ in call.keywords:
                    vals[kw_.arg] = ev(kw_.value, env, oracle)
                if vals["priority"] != "PRIO":
                    return "WRONG-PRIORITY"
                return _records_model(L, vals["offset"], bool(vals["reverse"]))
            if f in ("islice", "itertools.islice") and len(call.args) == 2:
                g, n_ = ev(call.args[0], env, oracle), ev(call.args[1], env, oracle)
                if not isinstance(g, list):
                    return g
                if n_ is not None and n_ < 0:
                    return "ValueError"
                return g[:n_]
            if f in ("iter", "list", "reversed") and len(call.args) == 1:
                g = ev(call.args[0], env, oracle)
                g = list(g) if isinstance(g, (list, tuple)) else g
                return g[::-1] if f == "reversed" and isinstance(g, list) else g
            if f == "len" and len(call.args) == 1 and ast.unparse(call.args[0]) == rname:
                return L
            return NotImplemented
        return oracle

    from sa.miniterp import exec_body as _exec, Raised as _Raised
    if not (isinstance(loop.iter, (ast.Name, ast.Call))):
        raise AnalysisError(f"{hr.qualname}: print loop iterates over {ast.unparse(loop.iter)}")
    bad8: dict[str, list] = {"head": [], "tail": [], "reverse": [], "forward": []}
    n_eval = 0
    for mode in ("forward", "head", "tail", "reverse"):
        for L in range(0, 5):
            for n_lines in (0, 1, 2, 3, 4, 7, 100):
                env = {"args.head": mode == "head", "args.tail": mode == "tail", "args.reverse": mode == "reverse", "args.lines": n_lines, "args.priority": "PRIO"}
                full = list(range(L))
                want = {"forward": full, "head": full[:n_lines], "tail": full[L - min(n_lines, L):], "reverse": full[::-1]}[mode]
                try:
                    _exec(setup, env, _hr_oracle(L))
                    from sa.miniterp import eval_expr as _ev
                    got = _ev(loop.iter, env, _hr_oracle(L))
                except _Raised as ex_:
                    got = "raises " + ast.unparse(ex_.node)[:40]
                n_eval += 1
                if got != want:
                    bad8[mode].append((L, n_lines, got, want))
    r.extra["hr_navigation_evaluated"] = n_eval
    r.check(not bad8["head"], "R8", f"{hr.qualname}#head", f"(log length, -n, printed, expected) {bad8['head'][:3]}: head must print the first n selected records", loc=hr.loc)
    r.check(not bad8["tail"], "R8", f"{hr.qualname}#tail", f"(log length, -n, printed, expected) {bad8['tail'][:3]}: tail must print the last n records (all of a shorter log, none for n = 0)", loc=hr.loc)
    r.check(not bad8["reverse"], "R8", f"{hr.qualname}#reverse", f"(log length, -n, printed, expected) {bad8['reverse'][:3]}: reverse must print every record once, last first", loc=hr.loc)
    r.check(not bad8["forward"], "R8", f"{hr.qualname}#forward", f"(log length, -n, printed, expected) {bad8['forward'][:3]}: without a mode option every record is printed once, in order", loc=hr.loc)
    pr_ok = any(isinstance(n, ast.Call) and ast.unparse(n.func) == "print" and n.args and isinstance(n.args[0], ast.Name) and isinstance(loop.target, ast.Name) and n.args[0].id == loop.target.id
                for n in ast.walk(loop))
    r.check(pr_ok, "R8", f"{hr.qualname}#prints-each", "every record of the selected slice must be printed", loc=hr.loc)

    r.assumptions += ["json.dumps with default arguments emits one ASCII line; zstandard/gzip streams decompress to the written bytes",
                      "R7 evaluates the extracted integer expression over len 1..8, offset -12..-1 (pure arithmetic, no gallia code is run)"]
    r.not_decided += ["slice semantics for all record sequences and containers", "timestamps / Unicode content (json round trip)"]
