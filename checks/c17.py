"""C17 Log records written by a run are read back exactly, in any navigation mode (static clauses)."""
from __future__ import annotations

import ast

from sa.cfg import CFG
from sa.model import AnalysisError, Model, walk_no_nested
from sa.report import Report

TITLE = "Log records written by a run are read back exactly, in any navigation mode"
LOG = "gallia.log"
HR = "gallia.cli.hr"


def small_eval(e: ast.expr, env: dict[str, int]) -> int:
    """Evaluate a pure integer expression extracted from the source over a finite test domain (no gallia code is run)."""
    if isinstance(e, ast.Constant) and isinstance(e.value, int):
        return e.value
    if isinstance(e, ast.Name):
        return env[e.id]
    if isinstance(e, ast.UnaryOp) and isinstance(e.op, ast.USub):
        return -small_eval(e.operand, env)
    if isinstance(e, ast.BinOp):
        a, b = small_eval(e.left, env), small_eval(e.right, env)
        if isinstance(e.op, ast.Add):
            return a + b
        if isinstance(e.op, ast.Sub):
            return a - b
        if isinstance(e.op, ast.Mod):
            return a % b
        if isinstance(e.op, ast.Mult):
            return a * b
        if isinstance(e.op, ast.FloorDiv):
            return a // b
    if isinstance(e, ast.Call):
        f = ast.unparse(e.func)
        if f in ("max", "min"):
            vals = [small_eval(a, env) for a in e.args]
            return max(vals) if f == "max" else min(vals)
        if f == "len" and ast.unparse(e.args[0]) in ("self", "self._record_offsets"):
            return env["__len__"]
        if f == "abs":
            return abs(small_eval(e.args[0], env))
    if isinstance(e, ast.IfExp):
        t = e.test
        if isinstance(t, ast.Compare) and len(t.ops) == 1:
            a, b = small_eval(t.left, env), small_eval(t.comparators[0], env)
            c = {ast.Lt: a < b, ast.LtE: a <= b, ast.Gt: a > b, ast.GtE: a >= b, ast.Eq: a == b, ast.NotEq: a != b}[type(t.ops[0])]
            return small_eval(e.body if c else e.orelse, env)
    raise AnalysisError(f"expression outside the small integer language: {ast.unparse(e)}")


def run(m: Model, r: Report, tier: str) -> None:
    r.rule("R1", "writer record schema = keys the reader parses (+ version)", floor=2)
    r.rule("R2", "level <-> priority tables are inverse bijections over all seven log levels", floor=14)
    r.rule("R3", "the '<prio>' line prefix and the JSON priority come from the same expression; the reader strips exactly that prefix", floor=4)
    r.rule("R4", "one record per line: ASCII-only single-line JSON, one newline terminator", floor=3)
    r.rule("R5", "the priority filter keeps records with priority value <= the requested one", floor=2)
    r.rule("R6", "every variable index into the offset table is bounds-checked (negative indices would silently wrap around)", floor=1)
    r.rule("R7", "negative offsets count from the end and are clamped to the beginning for short logs", floor=1)
    r.rule("R9", "the cached parsed record is dropped whenever the current line changes; the log file is finalised only after the queue listener drained", floor=2)
    r.rule("R8", "hr: head = first n, tail = offset -n, reverse = from the last record backwards", floor=3)

    mod = m.module(LOG)
    # ---------------------------------------------------------------- R1
    v2 = m.require_class(f"{LOG}._PenlogRecordV2")
    pj = m.require_function(f"{LOG}.PenlogRecord.parse_json")
    wfields = set(v2.class_annots)
    recs = {n.targets[0].id for n in walk_no_nested(pj.node) if isinstance(n, ast.Assign) and isinstance(n.targets[0], ast.Name)
            and isinstance(n.value, ast.Call) and ast.unparse(n.value.func) == "json.loads"}
    if len(recs) != 1:
        raise AnalysisError(f"{pj.qualname}: the decoded JSON record variable was not found ({sorted(recs)})")
    REC = recs.pop()
    rkeys = {n.slice.value for n in ast.walk(pj.node) if isinstance(n, ast.Subscript) and isinstance(n.slice, ast.Constant) and ast.unparse(n.value) == REC}
    r.check(rkeys == wfields, "R1", f"{pj.qualname}#keys", f"reader parses {sorted(rkeys)}, writer emits {sorted(wfields)}: "
            f"missing {sorted(wfields - rkeys)}, unknown {sorted(rkeys - wfields)}", loc=pj.loc)
    pr = m.require_class(f"{LOG}.PenlogRecord")
    ctor = [n for n in ast.walk(pj.node) if isinstance(n, ast.Call) and ast.unparse(n.func) == "cls"]
    kw = {k.arg: ast.unparse(k.value) for k in ctor[0].keywords} if ctor else {}
    bad = [k for k, v in kw.items() if f"{REC}['{k}']" not in v]
    r.check(bool(kw) and not bad and set(kw) <= set(pr.class_annots), "R1", f"{pj.qualname}#field-binding",
            f"fields not bound to the key of the same name: {bad}", loc=pj.loc)

    # ---------------------------------------------------------------- R9
    from sa.cfg import CFG
    rd_cls = m.require_class(f"{LOG}.PenlogReader")
    n_set = 0
    for f in rd_cls.methods.values():
        if f.name == "__init__":
            continue
        gq = CFG(f.node)
        line_sets = [n for n in gq.nodes.values() if n.kind == "stmt" and isinstance(n.ast, (ast.Assign, ast.AugAssign)) and
                     ast.unparse(n.ast.targets[0] if isinstance(n.ast, ast.Assign) else n.ast.target) == "self._current_line"]
        inval = {n.id for n in gq.nodes.values() if n.kind == "stmt" and isinstance(n.ast, ast.Assign) and ast.unparse(n.ast.targets[0]) == "self._current_record"
                 and isinstance(n.ast.value, ast.Constant) and n.ast.value.value is None}
        for ls in line_sets:
            n_set += 1
            before, _ = gq.must_pass(gq.entry, inval, {ls.id}) if inval else (False, [])
            after, _ = gq.must_pass(ls.id, inval, {gq.exit_return}, skip_edge=lambda n, b, k: k == "exc") if inval else (False, [])
            r.check(before or after, "R9", f"{f.qualname}#cache-coherent",
                    "self._current_line is replaced without dropping the cached parsed record (self._current_record = None): current_record then returns the "
                    "record of an earlier line (duplicates / missing records when prefixed and prefix-less lines are mixed)", loc=f"{f.module.relpath}:{ls.lineno}")
    if n_set < 1:
        raise AnalysisError("PenlogReader: no assignment of self._current_line outside __init__")
    zc = m.require_function(f"{LOG}._ZstdFileHandler.close")
    gz = CFG(zc.node)
    fclose = {n.id for n in gz.nodes.values() if n.kind == "stmt" and n.ast is not None and ("self.file.close()" in ast.unparse(n.ast) or "self.file.flush()" in ast.unparse(n.ast))}
    stops = {n.id for n in gz.nodes.values() if n.ast is not None and (("queue_listener.stop()" in ast.unparse(n.ast) and n.kind == "stmt") or
                                                                   (n.kind == "cond" and "queue_listener" in ast.unparse(n.ast)))}
    if not fclose or not stops:
        raise AnalysisError(f"{zc.qualname}: file close / listener stop not found")
    okz, pz = gz.must_pass(gz.entry, stops, fclose)
    r.check(okz, "R9", f"{zc.qualname}#drain-before-finalise",
            "the zstd file is flushed / closed before the queue listener was stopped (stop() drains the queue): records still queued hit a closed stream and are lost", loc=zc.loc)

    # ---------------------------------------------------------------- R2
    levels = {k: ast.unparse(v) for k, v in m.require_class(f"{LOG}.Loglevel").class_attrs.items() if not k.startswith("_")}
    prios = m.enum_members(m.require_class(f"{LOG}.PenlogPriority"))
    if not levels or len(levels) != 7:
        raise AnalysisError(f"Loglevel members: {levels}")
    fl = m.require_function(f"{LOG}.PenlogPriority.from_level")
    tl = m.require_function(f"{LOG}.PenlogPriority.to_level")

    def table(fn, subject: str) -> dict[str, str]:
        mt = [n for n in walk_no_nested(fn.node) if isinstance(n, ast.Match) and ast.unparse(n.subject) == subject]
        if len(mt) != 1:
            raise AnalysisError(f"{fn.qualname}: match on {subject} not found")
        out = {}
        for c in mt[0].cases:
            pat = ast.unparse(c.pattern)
            ret = [ast.unparse(s.value) for s in c.body if isinstance(s, ast.Return)]
            out[pat] = ret[0] if ret else ("raise" if any(isinstance(s, ast.Raise) for s in c.body) else "?")
        return out
    t_from, t_to = table(fl, "value"), table(tl, "self")
    for name in levels:
        r.check(t_from.get(f"Loglevel.{name}") == f"cls.{name}", "R2", f"{fl.qualname}#{name}",
                f"level {name} maps to {t_from.get('Loglevel.' + name)}", loc=fl.loc)
        r.check(t_to.get(f"self.{name}") == f"Loglevel.{name}", "R2", f"{tl.qualname}#{name}", f"priority {name} maps to {t_to.get('self.' + name)}", loc=tl.loc)
    r.check(t_from.get("_") == "raise" and t_to.get("_") == "raise", "R2", f"{LOG}.PenlogPriority#defaults", "unknown values must raise", loc=fl.loc)
    r.check(all(n in prios for n in levels) and sorted(prios.values()) == list(range(len(prios))), "R2", f"{LOG}.PenlogPriority#members",
            f"priorities {prios}", loc=fl.loc)
    # severity order: higher level <=> lower priority value
    r.extra["levels"] = sorted(levels)

    # ---------------------------------------------------------------- R3
    emit = m.require_function(f"{LOG}._ZstdFileHandler.emit")
    fmt = m.require_function(f"{LOG}._JSONFormatter.format")
    pa = [n for n in walk_no_nested(emit.node) if isinstance(n, ast.Assign) and isinstance(n.targets[0], ast.Name) and "from_level" in ast.unparse(n.value)]
    pexpr = ast.unparse(pa[0].value) if pa else None
    pvar = pa[0].targets[0].id if pa else "prio"
    jprio = [ast.unparse(k.value) for n in ast.walk(fmt.node) if isinstance(n, ast.Call) and ast.unparse(n.func) == "_PenlogRecordV2" for k in n.keywords if k.arg == "priority"]
    r.check(pexpr == "PenlogPriority.from_level(record.levelno).value" and jprio == [pexpr], "R3", f"{emit.qualname}#same-priority",
            f"prefix priority is `{pexpr}`, JSON priority is `{jprio}`: the reader filters on the prefix, so both must be the same value", loc=emit.loc)
    pre = [n for n in walk_no_nested(emit.node) if isinstance(n, ast.Assign) and isinstance(n.value, ast.JoinedStr)]
    okp = False
    if pre:
        vals = pre[0].value.values
        okp = len(vals) == 4 and isinstance(vals[0], ast.Constant) and vals[0].value == "<" and isinstance(vals[1], ast.FormattedValue) and \
            ast.unparse(vals[1].value) == pvar and isinstance(vals[2], ast.Constant) and vals[2].value == ">" and ast.unparse(vals[3].value) == "self.format(record)"
    reassigned = [n for n in walk_no_nested(emit.node) if isinstance(n, (ast.Assign, ast.AugAssign)) and n not in pa and
                  any(ast.unparse(t) == pvar for t in (n.targets if isinstance(n, ast.Assign) else [n.target]))]
    r.check(okp and not reassigned, "R3", f"{emit.qualname}#prefix-format", "the line must be '<' + priority + '>' + JSON, with the priority unmodified", loc=emit.loc)
    pp = m.require_function(f"{LOG}.PenlogRecord.parse_priority")
    sp = ast.unparse(pp.node)
    r.check("data.startswith(b'<')" in sp and "data[1:data.index(b'>')]" in sp and "return None" in sp, "R3", f"{pp.qualname}#prefix-parse",
            "parse_priority must read the number between '<' and the first '>' and return None without prefix", loc=pp.loc)
    sj = ast.unparse(pj.node)
    r.check("data[data.index(b'>') + 1:]" in sj and "data.startswith(b'<')" in sj, "R3", f"{pj.qualname}#prefix-strip", "parse_json must strip exactly the prefix", loc=pj.loc)
    cp = m.require_function(f"{LOG}.PenlogReader.current_priority")
    r.check("parse_priority(self._current_line)" in ast.unparse(cp.node) and m.has(cp, "prio is None") and ".priority" in ast.unparse(cp.node),
            "R3", f"{cp.qualname}#fallback", "without prefix the priority must be taken from the JSON record", loc=cp.loc)

    # ---------------------------------------------------------------- R4
    dumps = [n for n in ast.walk(fmt.node) if isinstance(n, ast.Call) and ast.unparse(n.func) == "json.dumps"]
    kws = [k.arg for d in dumps for k in d.keywords]
    r.check(len(dumps) == 1 and not kws, "R4", f"{fmt.qualname}#json-dumps",
            f"json.dumps is called with {kws}: the defaults guarantee a single ASCII line (indent adds newlines; ensure_ascii=False lets unencodable "
            "characters, e.g. lone surrogates, kill the writer thread)", loc=fmt.loc)
    se = m.mtext(emit)
    r.check("if not _L.endswith('\\n'):" in se and "_L += '\\n'" in se and "self.file.write(_L.encode())" in se, "R4", f"{emit.qualname}#terminator",
            "each record must be written as one newline-terminated line", loc=emit.loc)
    pfs = m.require_function(f"{LOG}.PenlogReader._parse_file_structure")
    r.check("self.file_mmap.readline()" in ast.unparse(pfs.node) and "self._record_offsets.append(self.file_mmap.tell())" in ast.unparse(pfs.node), "R4",
            f"{pfs.qualname}#line-index", "the offset table must index line starts", loc=pfs.loc)

    # ---------------------------------------------------------------- R5
    rec = m.require_function(f"{LOG}.PenlogReader.records")
    tests = [ast.unparse(n.test).replace(" ", "") for n in ast.walk(rec.node) if isinstance(n, ast.If) and "current_priority" in ast.unparse(n.test)]
    r.check(len(tests) == 2 and all(t == "self.current_priority<=priority" for t in tests), "R5", f"{rec.qualname}#filter",
            f"filter tests {tests}; lower numbers are more severe, so records with value <= requested are kept", loc=rec.loc)
    ys = [n for n in ast.walk(rec.node) if isinstance(n, ast.Yield)]
    r.check(len(ys) == 2 and all(ast.unparse(y.value) == "self.current_record" for y in ys), "R5", f"{rec.qualname}#yields", "both directions must yield the current record", loc=rec.loc)

    # ---------------------------------------------------------------- R6
    reader = m.require_class(f"{LOG}.PenlogReader")
    n_idx = 0
    for f in reader.methods.values():
        subs = [n for n in walk_no_nested(f.node) if isinstance(n, ast.Subscript) and ast.unparse(n.value) == "self._record_offsets" and isinstance(n.ctx, ast.Load)
                and not isinstance(n.slice, ast.Constant)]
        if not subs:
            continue
        g = CFG(f.node)
        for s in subs:
            n_idx += 1
            idx = ast.unparse(s.slice)
            guards = {n.id for n in g.nodes.values() if n.kind == "cond" and n.ast is not None and
                      ast.unparse(n.ast).replace(" ", "") in (f"not0<={idx}<len(self._record_offsets)", f"{idx}<0or{idx}>=len(self._record_offsets)",
                                                               f"not(0<={idx}<len(self._record_offsets))")}
            uses = {n.id for n in g.nodes_of(s)}
            ok = bool(guards)
            if ok:
                ok, _ = g.must_pass(g.entry, guards, uses)
                # the guard's true branch must raise
                for gid in guards:
                    t = g.succ[gid][0][0]
                    ok = ok and g.nodes[t].kind == "raise" and "IndexError" in ast.unparse(g.nodes[t].ast)
            r.check(ok, "R6", f"{f.qualname}#_record_offsets[{idx}]",
                    f"self._record_offsets[{idx}] is not dominated by a `0 <= {idx} < len(...)` check that raises IndexError: Python wraps negative "
                    "indices, so reading backwards past record 0 continues at the last record and an offset beyond a short log raises", loc=f"{f.module.relpath}:{s.lineno}")
    if n_idx < 1:
        raise AnalysisError("no variable index into _record_offsets found")
    sprev = m.require_function(f"{LOG}.PenlogReader.seek_to_previous_record")
    r.extra["reverse_stop"] = "reverse iteration ends when seek_to_previous_record raises IndexError for index -1 (bounds check above)"

    # ---------------------------------------------------------------- R7
    norm = [n for n in walk_no_nested(rec.node) if isinstance(n, ast.If) and ast.unparse(n.test).replace(" ", "") == "offset<0"]
    okn = False
    detail = "no `if offset < 0` normalisation"
    if len(norm) == 1:
        asg = [s for s in norm[0].body if isinstance(s, (ast.Assign, ast.AugAssign)) and ast.unparse(s.targets[0] if isinstance(s, ast.Assign) else s.target) == "offset"]
        if len(asg) == 1:
            if isinstance(asg[0], ast.AugAssign):
                expr = ast.BinOp(left=ast.Name(id="offset", ctx=ast.Load()), op=asg[0].op, right=asg[0].value)
            else:
                expr = asg[0].value
            okn = True
            fails = []
            for n in range(1, 9):
                for off in range(-12, 0):
                    got = small_eval(expr, {"offset": off, "__len__": n})
                    want = max(n + off, 0)
                    if got != want:
                        okn = False
                        fails.append((n, off, got, want))
            detail = f"offset = {ast.unparse(expr)} gives (len, offset, got, expected) {fails[:3]}"
        seek_after = any(isinstance(s, ast.Expr) and "self.seek_to_record(offset)" in ast.unparse(s) for s in rec.node.body[rec.node.body.index(norm[0]) + 1:])
        okn = okn and seek_after
    r.check(okn, "R7", f"{rec.qualname}#negative-offset", f"{detail}: tail reading of a log shorter than the requested count must start at the first record", loc=rec.loc)

    # ---------------------------------------------------------------- R8
    hr = m.require_function(f"{HR}._main")
    sh = ast.unparse(hr.node)
    r.check("islice(record_generator, args.lines)" in sh and "args.head" in sh, "R8", f"{hr.qualname}#head", "head must take the first n records", loc=hr.loc)
    r.check("reader.records(args.priority, offset=-args.lines)" in sh and "args.tail" in sh, "R8", f"{hr.qualname}#tail", "tail must start n records before the end", loc=hr.loc)
    r.check("offset=-1 if args.reverse else 0, reverse=args.reverse" in sh, "R8", f"{hr.qualname}#reverse", "reverse must start at the last record", loc=hr.loc)

    r.assumptions += ["json.dumps with default arguments emits one ASCII line; zstandard/gzip streams decompress to the written bytes",
                      "R7 evaluates the extracted integer expression over len 1..8, offset -12..-1 (pure arithmetic, no gallia code is run)"]
    r.not_decided += ["slice semantics for all record sequences and containers", "timestamps / Unicode content (json round trip)"]
