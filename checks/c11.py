"""C11 Every exchange is recorded once, in order and byte-exact, in the scan database (static clauses)."""
from __future__ import annotations

import ast

from sa import sqlcheck
from sa.cfg import CFG
from sa.codec import SERVICE, CodecAnalyser, Registry
from sa.layout import BytesV, ConstV, DictV, IntV, ListV, NoneV, TupleV, CondV
from sa.model import AnalysisError, ClassInfo, Model, walk_no_nested
from sa.report import Report
from sa.util import effective_max_length

TITLE = "Every exchange is recorded once, in order and byte-exact, in the scan database"
ECU = "gallia.services.uds.ecu"
HANDLER = "gallia.db.handler"


def shape_of(v) -> str:
    if isinstance(v, (IntV, CondV)):
        return "int"
    if isinstance(v, ConstV):
        return "scalar"
    if isinstance(v, NoneV):
        return "none"
    if isinstance(v, BytesV):
        return "bytes"
    if isinstance(v, ListV):
        elems = v.items if v.items is not None else [v.elem]
        kinds = {shape_of(e) for e in elems if e is not None}
        return "list[" + ",".join(sorted(kinds)) + "]"
    if isinstance(v, TupleV):
        return "tuple[" + ",".join(sorted({shape_of(e) for e in v.items})) + "]"
    if isinstance(v, DictV):
        if v.key is None:
            return "dict[]"
        return f"dict[{shape_of(v.key)}:{shape_of(v.val)}]"
    return "unknown"


SHAPE_VALUES = {
    "int": 5, "scalar": "s", "none": None, "bytes": b"\x01\x02", "list[int]": [1, 2], "list[]": [], "list[bytes]": [b"a", b"b"], "list[scalar]": ["a"],
    "tuple[int]": (1, 2), "dict[]": {}, "dict[int:int]": {1: 2}, "dict[int:bytes]": {1: b"x"},
}


def _json_native(v) -> bool:
    if v is None or isinstance(v, (bool, int, float, str)):
        return True
    if isinstance(v, (list, tuple)):
        return all(_json_native(x) for x in v)
    if isinstance(v, dict):
        return all(isinstance(k, (str, int, float, bool)) or k is None for k in v) and all(_json_native(x) for x in v.values())
    return False


def handled_shapes(loop: ast.For, m=None, fn=None) -> set[str]:
    """Which attribute shapes the attribute-conversion loop of insert_scan_result converts to JSON-native values: the loop body is evaluated
    (finite-domain interpreter) for one representative value per shape; a shape is handled when the body neither raises nor leaves a
    bytes object in the stored value."""
    from sa import miniterp
    if not (isinstance(loop.target, ast.Tuple) and len(loop.target.elts) == 2 and all(isinstance(t, ast.Name) for t in loop.target.elts)):
        raise AnalysisError("attribute loop target changed")
    av, vv = loop.target.elts[0].id, loop.target.elts[1].id
    stores = {ast.unparse(t.value) for n in ast.walk(loop) if isinstance(n, ast.Assign) for t in n.targets if isinstance(t, ast.Subscript) and isinstance(t.value, ast.Name)}
    if len(stores) != 1:
        raise AnalysisError(f"attribute loop stores into {sorted(stores)}")
    dv = stores.pop()

    def oracle(call, env):
        if ast.unparse(call.func).endswith("bytes_repr") and len(call.args) == 1:
            x = miniterp.eval_expr(call.args[0], env, oracle)
            if not isinstance(x, (bytes, bytearray)):
                raise miniterp.TypeRaised("TypeError")
            return "hex"
        return NotImplemented
    ok = set()
    orc_all = miniterp.with_helpers(fn.module.functions, oracle) if fn is not None else oracle
    for shape, val in SHAPE_VALUES.items():
        env = {av: "field", vv: val, dv: {}}
        try:
            miniterp.exec_body(loop.body, env, orc_all)
        except miniterp.Raised:
            continue
        if "field" in env[dv] and _json_native(env[dv]["field"]):
            ok.add(shape)
    return ok


def run(m: Model, r: Report, tier: str) -> None:
    r.rule("R1", "ECU._request: every path from the awaited exchange to a function exit passes the insert_scan_result call "
                 "(or the implicit-logging guard) exactly once", floor=2)
    r.rule("R2", "outcome capture: handlers bind exception (and e.response) and re-raise; the insert call receives them", floor=4)
    r.rule("R3", "the state is snapshotted before it is updated: update_state only after logging; json.dumps(state) before the first await", floor=3)
    r.rule("R4", "send_time is taken before, receive_time directly after the awaited exchange", floor=2)
    r.rule("R5", "scan_result INSERT: column list, placeholders and parameter tuple agree; every statement compiles against DB_SCHEMA", floor=12)
    r.rule("R6", "every public attribute shape of every request/response class is converted to a JSON-native value by the handler", floor=70)
    r.rule("R7", "disconnect drains before closing: unbounded join() < cancel() < connection.close(); one FIFO consumer task", floor=5)
    r.rule("R8", "rows are written iff implicit logging is on and a handler exists; emphasized iff 'ANALYZE' tag", floor=3)
    r.rule("R9", "byte strings are stored through a non-truncating representation; the logged request object re-serialises to the transmitted bytes", floor=6)
    r.rule("R11", "the stored reply is response.pdu: it equals the received bytes because every response class re-serialises byte-identically (C02.R1 / R4 obligations)", floor=1)
    r.rule("R10", "a scanner's implicit-logging setting reaches the ECU object before the first request of setup()", floor=1)

    req = m.require_function(f"{ECU}.ECU._request")
    g = CFG(req.node)

    def has(n, text: str) -> bool:
        return n.ast is not None and n.kind in ("stmt", "return", "cond") and text in ast.unparse(n.ast)

    exch = [n for n in g.nodes.values() if has(n, "super()._request(")]
    ins = {n.id for n in g.nodes.values() if has(n, ".insert_scan_result(")}
    guard = {n.id for n in g.nodes.values() if n.kind == "cond" and has(n, "self.implicit_logging") and has(n, "self.db_handler is not None")}
    upd = {n.id for n in g.nodes.values() if has(n, "self.update_state(")}
    if len(exch) != 1 or not ins or not guard:
        raise AnalysisError(f"{req.qualname}: exchange / insert / guard anchors not found ({len(exch)}, {len(ins)}, {len(guard)})")
    ex = exch[0]
    ok, path = g.must_pass(ex.id, ins | guard, {g.exit_return, g.exit_raise})
    r.check(ok, "R1", f"{req.qualname}#logged-on-every-exit",
            "an exit of the exchange bypasses the logging call: " + " -> ".join(repr(g.nodes[p]) for p in path[-5:]), loc=req.loc)
    twice = False
    for i in ins:
        reach = set()
        for b, _ in g.succ[i]:
            reach |= g.reachable_from(b)
        if reach & ins:
            twice = True
    r.check(not twice, "R1", f"{req.qualname}#logged-once", "a path passes two insert_scan_result calls", loc=req.loc)
    # guard true-branch leads to the insert before anything else can exit normally
    for gid in guard:
        t_succ = g.succ[gid][0][0]
        ok2, p2 = g.must_pass(t_succ, ins, {g.exit_return} | upd | {n.id for n in g.nodes.values() if n.kind == "cond" and has(n, "response is not None")})
        r.check(ok2, "R8", f"{req.qualname}#guard-leads-to-insert@{g.nodes[gid].copy or 'n'}",
                "with logging enabled the insert can be skipped: " + " -> ".join(repr(g.nodes[p]) for p in p2[-4:]), loc=req.loc)

    # ---------------------------------------------------------------- R2
    tries = [n for n in ast.walk(req.node) if isinstance(n, ast.Try) and any("super()._request(" in ast.unparse(b) for b in n.body)]
    if len(tries) != 1:
        raise AnalysisError(f"{req.qualname}: try around the exchange not found")
    tr = tries[0]
    icalls0 = [n for n in ast.walk(req.node) if isinstance(n, ast.Call) and isinstance(n.func, ast.Attribute) and n.func.attr == "insert_scan_result"]
    hins0 = m.require_function(f"{HANDLER}.DBHandler.insert_scan_result")
    roles: dict[str, str] = {}
    if icalls0:
        roles = dict(zip(hins0.params()[1:], [ast.unparse(a) for a in icalls0[0].args]))
        for kw in icalls0[0].keywords:
            roles[kw.arg] = ast.unparse(kw.value)
    EV, RV, SV, TV, MV = (roles.get(k, k) for k in ("exception", "response", "send_time", "receive_time", "log_mode"))
    types = [ast.unparse(h.type) if h.type else "<bare>" for h in tr.handlers]
    r.check(types[-1:] == ["Exception"] and "ResponseException" in types, "R2", f"{req.qualname}#handlers",
            f"handlers {types}: need ResponseException (carries the reply) and a final Exception handler", loc=req.loc)
    for h in tr.handlers:
        name = h.name
        assigns = {ast.unparse(s.targets[0]): ast.unparse(s.value) for s in h.body if isinstance(s, ast.Assign)}
        reraises = isinstance(h.body[-1], ast.Raise) and h.body[-1].exc is None
        okh = assigns.get(EV) == name and reraises
        if h.type is not None and ast.unparse(h.type) == "ResponseException":
            okh = okh and assigns.get(RV) == f"{name}.response"
        r.check(okh, "R2", f"{req.qualname}#handler:{ast.unparse(h.type) if h.type else 'bare'}",
                f"handler assigns {assigns}, re-raises={reraises}: the row would lack the exception / reply or the error would be swallowed", loc=req.loc)
    icalls = [n for n in ast.walk(req.node) if isinstance(n, ast.Call) and isinstance(n.func, ast.Attribute) and n.func.attr == "insert_scan_result"]
    hins = m.require_function(f"{HANDLER}.DBHandler.insert_scan_result")
    params = hins.params()[1:]
    for c in icalls:
        bound = dict(zip(params, [ast.unparse(a) for a in c.args]))
        for kw in c.keywords:
            bound[kw.arg] = ast.unparse(kw.value)
        want = {"state": "self.state.__dict__"}
        bad = {k: bound.get(k) for k, v in want.items() if bound.get(k) != v}
        for k in ("response", "exception", "send_time", "receive_time", "log_mode"):
            if not (bound.get(k) or "").isidentifier():
                bad[k] = bound.get(k)
        # the variable handed over as `response` must be the one the exchange assigns; `exception` the one the handlers assign
        if not any(isinstance(n, ast.Assign) and ast.unparse(n.targets[0]) == RV and "super()._request(" in ast.unparse(n.value) for n in ast.walk(req.node)):
            bad["response"] = f"{RV} is not the result of the exchange"
        r.check(not bad, "R2", f"{req.qualname}#insert-arguments", f"insert_scan_result receives {bad} (expected {want})", loc=req.loc)
        r.check("parse_dynamic(request.pdu)" in bound.get("request", "") or bound.get("request") == "request", "R2",
                f"{req.qualname}#insert-request", f"request argument is {bound.get('request')}", loc=req.loc)

    # ---------------------------------------------------------------- R3
    ok3, p3 = g.must_pass(g.entry, ins | guard, upd)
    r.check(bool(upd) and ok3, "R3", f"{req.qualname}#update-after-log",
            "update_state is reachable before the exchange was logged (the row would show the state after the request): "
            + " -> ".join(repr(g.nodes[p]) for p in p3[-4:]), loc=req.loc)
    first_await = min((n.lineno for n in ast.walk(hins.node) if isinstance(n, ast.Await)), default=None)
    dumps = [n.lineno for n in ast.walk(hins.node) if isinstance(n, ast.Call) and ast.unparse(n.func) == "json.dumps" and n.args and ast.unparse(n.args[0]) == "state"]
    r.check(bool(dumps) and first_await is not None and max(dumps) < first_await, "R3", f"{hins.qualname}#snapshot-before-await",
            f"json.dumps(state) at {dumps}, first await at {first_await}: the live state dict must be serialised before control is yielded", loc=hins.loc)
    us = m.require_function(f"{ECU}.ECU.update_state")
    r.check(all(isinstance(n.args[0], ast.Name) and n.args[0].id == "response" for n in ast.walk(us.node)
                if isinstance(n, ast.Call) and ast.unparse(n.func) == "isinstance"), "R3", f"{us.qualname}#driven-by-replies",
            "state transitions must be driven by response classes", loc=us.loc)

    # ---------------------------------------------------------------- R4
    dom = g.dominators()
    send = [n.id for n in g.nodes.values() if n.kind == "stmt" and isinstance(n.ast, ast.Assign) and ast.unparse(n.ast.targets[0]) == SV and "datetime.now" in ast.unparse(n.ast.value)]
    r.check(len(send) == 1 and send[0] in dom[ex.id], "R4", f"{req.qualname}#send-time",
            "send_time is not assigned exactly once on every path before the exchange", loc=req.loc)
    nsucc = [b for b, k in g.succ[ex.id] if k == "n"]
    r.check(len(nsucc) == 1 and isinstance(g.nodes[nsucc[0]].ast, ast.Assign) and ast.unparse(g.nodes[nsucc[0]].ast.targets[0]) == TV and "datetime.now" in ast.unparse(g.nodes[nsucc[0]].ast.value),
            "R4", f"{req.qualname}#receive-time", "receive_time is not taken directly after the awaited exchange", loc=req.loc)

    # every way a reply gets into the row comes with a receive time: also the reply carried by a mismatch / malformed-response exception
    resp_binds = [n for n in g.nodes.values() if n.kind == "stmt" and isinstance(n.ast, ast.Assign) and any(ast.unparse(t_) == RV for t_ in n.ast.targets)
                  and not (isinstance(n.ast.value, ast.Constant) and n.ast.value.value is None)]
    recv_binds = {n.id for n in g.nodes.values() if n.kind == "stmt" and isinstance(n.ast, ast.Assign) and any(ast.unparse(t_) == TV for t_ in n.ast.targets) and "datetime.now" in ast.unparse(n.ast.value)}
    if len(resp_binds) < 2:
        raise AnalysisError(f"{req.qualname}: expected the reply to be bound on the success path and in the ResponseException handler")
    for rb in resp_binds:
        okt, _pt = g.must_pass(rb.id, recv_binds, ins, skip_edge=lambda n, b, k: k == "exc" and n.id == rb.id)
        r.check(okt, "R4", f"{req.qualname}#receive-time-with-every-reply@{'exchange' if 'await' in ast.unparse(rb.ast) else 'exception'}",
                f"`{ast.unparse(rb.ast)}` puts a reply into the row without a receive time: rows of mismatching / malformed replies hold the reply bytes but response_time NULL, "
                "so 'send time not after receive time' cannot hold for these outcome classes", loc=f"{req.module.relpath}:{rb.ast.lineno}")

    # ---------------------------------------------------------------- R5
    con = sqlcheck.schema_db(m)
    hmod = m.module(HANDLER)
    dbh = m.require_class(f"{HANDLER}.DBHandler")
    n_sql = 0
    for fn in dbh.methods.values():
        for sql, ln in sqlcheck.sql_literals(m, fn):
            n_sql += 1
            err = sqlcheck.compile_sql(con, sql)
            r.check(err is None, "R5", f"{fn.qualname}#sql@{sql.split()[0]}-{sql.split()[2] if len(sql.split()) > 2 else ''}",
                    f"statement does not compile against DB_SCHEMA: {err}: {sql[:120]}", loc=f"{hmod.relpath}:{ln}")
    if n_sql < 10:
        raise AnalysisError(f"only {n_sql} SQL statements found in DBHandler")
    lits = [s for s, _ in sqlcheck.sql_literals(m, hins) if "scan_result" in s]
    if len(lits) != 1:
        raise AnalysisError("scan_result INSERT not found")
    cols = sqlcheck.insert_columns(lits[0])
    tup = None
    for n in ast.walk(hins.node):
        if isinstance(n, ast.Assign) and isinstance(n.value, ast.Tuple) and len(n.value.elts) >= 8 and "self.scan_run" in ast.unparse(n.value):
            tup = n.value
    if cols is None or tup is None:
        raise AnalysisError("scan_result INSERT column list / query_parameter tuple not found")
    r.check(len(cols) == lits[0].count("?") == len(tup.elts), "R5", f"{hins.qualname}#arity",
            f"{len(cols)} columns, {lits[0].count('?')} placeholders, {len(tup.elts)} parameters", loc=hins.loc)
    expect = {
        "run": ["self.scan_run"], "state": ["json.dumps(state)"], "request_pdu": ["bytes_repr(request.pdu)"],
        "request_time": ["send_time.timestamp()"], "request_timezone": ["send_time.tzname()"],
        "request_data": ["json.dumps(request_attributes)"], "response_pdu": ["bytes_repr(response.pdu) if response is not None else None"],
        "response_time": ["receive_time.timestamp() if response is not None and receive_time is not None else None"],
        "response_timezone": ["receive_time.tzname() if response is not None and receive_time is not None else None"],
        "response_data": ["json.dumps(response_attributes) if response is not None else None"],
        "exception": ["repr(exception) if exception is not None else None"],
        "log_mode": ["log_mode.name"],
    }
    for cname, e in zip(cols, tup.elts):
        txt = m.mtext(hins, e)
        want = expect.get(cname)
        if want is None:
            r.violation("R5", f"{hins.qualname}#column:{cname}", f"unknown scan_result column {cname}", hins.loc)
            continue
        r.check(all(m.mpat(hins, w) in txt for w in want), "R5", f"{hins.qualname}#column:{cname}",
                f"column {cname} is bound to `{txt[:100]}`; expected an expression containing {want}", loc=hins.loc)

    # every dereference of the (optional) reply in the handler happens exactly when a reply exists: unanswered requests are rows too
    from sa.util import path_condition as _pc11, truth_table as _tt11
    rpar = "response" if "response" in hins.params() else None
    if rpar is None:
        raise AnalysisError(f"{hins.qualname}: response parameter not found")
    derefs = [n for n in ast.walk(hins.node) if isinstance(n, ast.Attribute) and isinstance(n.value, ast.Name) and n.value.id == rpar]
    bad_d = []
    for d_ in derefs:
        conds_ = [(t, p_) for t, p_ in _pc11(hins.node, d_) if any(isinstance(x, ast.Name) and x.id == rpar for x in ast.walk(t)) and not any(isinstance(x, ast.Call) for x in ast.walk(t))]
        # conditional expressions guard their own body
        for ie in ast.walk(hins.node):
            if isinstance(ie, ast.IfExp) and any(x is d_ for x in ast.walk(ie.body)):
                conds_.append((ie.test, True))
            elif isinstance(ie, ast.IfExp) and any(x is d_ for x in ast.walk(ie.orelse)):
                conds_.append((ie.test, False))
        names_ = sorted({x.id for t, _ in conds_ for x in ast.walk(t) if isinstance(x, ast.Name)})
        rows_ = _tt11(conds_, {n_: [None, "X"] for n_ in names_}, lambda a: all(v is not None for v in a.values())) if conds_ else ["unguarded"]
        if rows_:
            bad_d.append(f"line {d_.lineno}: {ast.unparse(d_)} reached on {rows_[:2]}")
    r.check(bool(derefs) and not bad_d, "R5", f"{hins.qualname}#reply-dereferenced-iff-present", f"{bad_d[:3]}: with no reply the handler raises (the row of a timed-out request is lost, "
            "only logged as 'Could not log messages'), with a reply its columns stay empty", loc=hins.loc)

    # ---------------------------------------------------------------- R6
    loops = [n for n in ast.walk(hins.node) if isinstance(n, ast.For) and ".__dict__.items()" in ast.unparse(n.iter)]
    by_side = {}
    for l in loops:
        side = "request" if ast.unparse(l.iter).startswith("request.") else "response"
        by_side[side] = handled_shapes(l, m, hins)
    if set(by_side) != {"request", "response"}:
        raise AnalysisError(f"{hins.qualname}: attribute conversion loops not found ({list(by_side)})")
    reg = Registry(m)
    ca = CodecAnalyser(m)
    sides = {"request": reg.registered_requests(), "response": reg.registered_responses() + [m.require_class(f"{SERVICE}.NegativeResponse")]}
    for side, classes in sides.items():
        for cls in classes:
            a = ca.analyse(cls)
            shapes: dict[str, set[str]] = {}
            for p in a.accepted:
                for fname, v in p.fields.items():
                    if fname.startswith("_") or fname == "trigger_request":
                        continue
                    shapes.setdefault(fname, set()).add(shape_of(v))
            for fname, sh in sorted(shapes.items()):
                bad = sorted(s for s in sh if s not in by_side[side])
                r.check(not bad, "R6", f"{cls.qualname}.{fname}",
                        f"attribute {fname} has shape {bad} which the {side} conversion loop of insert_scan_result does not make "
                        "JSON-serialisable: json.dumps raises and the whole row is lost", loc=cls.loc, fact_ok=f"{sorted(sh)} handled")

    # which attributes are written: every public one, and never the back-reference to the request
    from sa import miniterp as _mt
    for l in loops:
        side = "request" if ast.unparse(l.iter).startswith("request.") else "response"
        if not (isinstance(l.target, ast.Tuple) and len(l.target.elts) == 2 and isinstance(l.target.elts[0], ast.Name)):
            raise AnalysisError(f"{hins.qualname}: attribute loop target changed")
        av = l.target.elts[0].id
        sel = [x for x in l.body if isinstance(x, ast.If)]
        if len(sel) != 1:
            raise AnalysisError(f"{hins.qualname}: attribute selection of the {side} loop not found")
        badsel = []
        for name, want in (("data_identifier", True), ("_pdu", False), ("trigger_request", side == "request"), ("dtc_status_mask", True)):
            got = bool(_mt.eval_expr(sel[0].test, {av: name}))
            if got != want:
                badsel.append(f"{name} -> {'stored' if got else 'left out'}")
        r.check(not badsel, "R6", f"{hins.qualname}#{side}-attribute-selection",
                f"{badsel}: exactly the public attributes are stored" + (" (the response's trigger_request back-reference is not serialisable and must be left out)" if side == "response" else ""), loc=hins.loc)

    from sa.uds_rules import guarded_attribute_access
    n_ga = guarded_attribute_access(m, r, "R6", hins, "response", f"{SERVICE}.UDSResponse") + guarded_attribute_access(m, r, "R6", hins, "request", f"{SERVICE}.UDSRequest")
    if n_ga < 3:
        raise AnalysisError(f"{hins.qualname}: guarded attribute reads of request / response not found ({n_ga})")

    # ---------------------------------------------------------------- R7
    dis = m.require_function(f"{HANDLER}.DBHandler.disconnect")
    def line_of(pred) -> list[int]:
        return [n.lineno for n in ast.walk(dis.node) if pred(n)]
    # the writer queue and the writer task of the handler, by role (private attributes may be renamed): the attribute that holds an asyncio.Queue() and the
    # one that holds the task created for the executor coroutine
    _dbh_cls = m.require_class(f"{HANDLER}.DBHandler")
    _qa = sorted({ast.unparse(n.targets[0]) for f_ in _dbh_cls.methods.values() for n in ast.walk(f_.node) if isinstance(n, ast.Assign) and isinstance(n.targets[0], ast.Attribute)
                  and isinstance(n.value, ast.Call) and ast.unparse(n.value.func).endswith("Queue")})
    _ta = sorted({ast.unparse(n.targets[0]) for f_ in _dbh_cls.methods.values() for n in ast.walk(f_.node) if isinstance(n, ast.Assign) and isinstance(n.targets[0], ast.Attribute)
                  and isinstance(n.value, ast.Call) and ast.unparse(n.value.func).endswith("create_task")})
    if len(_qa) != 1 or len(_ta) != 1:
        raise AnalysisError(f"DBHandler: writer queue / writer task attributes not found ({_qa}, {_ta})")
    QA, TA = _qa[0], _ta[0]
    joins = [n for n in ast.walk(dis.node) if isinstance(n, ast.Await) and ast.unparse(n.value) == f"{QA}.join()"]
    all_join_calls = [n for n in ast.walk(dis.node) if isinstance(n, ast.Call) and ast.unparse(n.func) == f"{QA}.join"]
    r.check(len(joins) == 1 and len(all_join_calls) == 1, "R7", f"{dis.qualname}#unbounded-join",
            "the queue join() is not awaited directly (wrapped in a timeout or missing): pending rows are dropped when the writer is slow", loc=dis.loc)
    cancel = line_of(lambda n: isinstance(n, ast.Call) and ast.unparse(n.func) == f"{TA}.cancel")
    close = line_of(lambda n: isinstance(n, ast.Call) and ast.unparse(n.func) == "self.connection.close")
    jl = [n.lineno for n in all_join_calls]
    r.check(bool(jl and cancel and close) and max(jl) < min(cancel) < min(close), "R7", f"{dis.qualname}#order",
            f"join at {jl}, cancel at {cancel}, connection.close at {close}", loc=dis.loc)
    gdz = CFG(dis.node)
    commit_n = {n.id for n in gdz.nodes.values() if n.kind == "stmt" and n.ast is not None and "self.connection.commit()" in ast.unparse(n.ast)}
    close_n = {n.id for n in gdz.nodes.values() if n.kind == "stmt" and n.ast is not None and "self.connection.close()" in ast.unparse(n.ast)}
    okcm, _ = gdz.must_pass(gdz.entry, commit_n, close_n) if commit_n and close_n else (False, [])
    okcl, _ = gdz.must_pass(gdz.entry, close_n, {gdz.exit_return}) if close_n else (False, [])
    r.check(okcm and okcl, "R7", f"{dis.qualname}#commit-then-close", "the connection must be committed before it is closed, and closed on every normal exit", loc=dis.loc)
    await_task = [n for n in ast.walk(dis.node) if isinstance(n, ast.Await) and ast.unparse(n.value) == TA]
    r.check(len(await_task) == 1 and cancel and await_task[0].lineno > min(cancel), "R7", f"{dis.qualname}#awaits-cancelled-writer",
            "the cancelled writer task must be awaited before the connection is closed (it may still be inside execute/commit)", loc=dis.loc)
    exf = m.require_function(f"{HANDLER}.DBHandler._executor_func")
    gex = CFG(exf.node)
    exe_n = [n.id for n in gex.nodes.values() if n.kind == "stmt" and n.ast is not None and "self.connection.execute(" in ast.unparse(n.ast)]
    com_n = {n.id for n in gex.nodes.values() if n.kind == "stmt" and n.ast is not None and "self.connection.commit()" in ast.unparse(n.ast)}
    td_n = {n.id for n in gex.nodes.values() if n.ast is not None and "task_done()" in ast.unparse(n.ast) and n.kind == "stmt"}
    okx = bool(exe_n) and bool(com_n) and all(gex.must_pass(e_, com_n, td_n, skip_edge=lambda n, b, k: k == "exc")[0] for e_ in exe_n)
    r.check(okx, "R7", f"{exf.qualname}#commit-per-row", "every executed row must be committed before it is reported done to join()", loc=exf.loc)
    conn = m.require_function(f"{HANDLER}.DBHandler.connect")
    tasks = [n for n in ast.walk(dbh.node) if isinstance(n, ast.Call) and ast.unparse(n.func) == "asyncio.create_task" and "_executor_func" in ast.unparse(n)]
    r.check(len(tasks) == 1, "R7", f"{dbh.qualname}#single-consumer", f"{len(tasks)} consumer tasks are created", loc=conn.loc)
    queues = [ast.unparse(n.value.func) for n in ast.walk(dbh.node) if isinstance(n, ast.Assign) and ast.unparse(n.targets[0]) == QA and isinstance(n.value, ast.Call)]
    r.check(queues == ["asyncio.Queue"], "R7", f"{dbh.qualname}#fifo-queue", f"queue constructors: {queues}", loc=conn.loc)
    ex_fn = m.require_function(f"{HANDLER}.DBHandler._executor_func")
    gets = [n for n in ast.walk(ex_fn.node) if isinstance(n, ast.Call) and ast.unparse(n.func) == f"{QA}.get"]
    done_in_finally = any(isinstance(t, ast.Try) and any("task_done()" in ast.unparse(s) for s in t.finalbody) for t in ast.walk(ex_fn.node))
    r.check(len(gets) == 1 and done_in_finally, "R7", f"{ex_fn.qualname}#task-done",
            "task_done() must be in a finally so join() cannot hang or return early", loc=ex_fn.loc)
    puts = [n for n in ast.walk(hins.node) if isinstance(n, ast.Call) and ast.unparse(n.func) == f"{QA}.put"]
    r.check(len(puts) == 1, "R7", f"{hins.qualname}#one-put", f"{len(puts)} queue puts per exchange", loc=hins.loc)

    conn_fn = m.require_function(f"{HANDLER}.DBHandler.connect")
    qdefs = [n.value for n in ast.walk(conn_fn.node) if isinstance(n, (ast.Assign, ast.AnnAssign)) and n.value is not None and
             ast.unparse(n.targets[0] if isinstance(n, ast.Assign) else n.target) == QA]
    if len(qdefs) != 1 or not isinstance(qdefs[0], ast.Call):
        raise AnalysisError(f"{conn_fn.qualname}: creation of the execute queue not found")
    qsize = qdefs[0].args[0] if qdefs[0].args else next((k.value for k in qdefs[0].keywords if k.arg == "maxsize"), None)
    qv = 0 if qsize is None else m.try_fold(conn_fn.module, qsize, default="?")
    r.check(isinstance(qv, int) and qv <= 0, "R7", f"{conn_fn.qualname}#execute-queue-unbounded",
            f"the execute queue is bounded (maxsize={ast.unparse(qsize) if qsize is not None else 0}): `await queue.put()` in insert_scan_result can then suspend inside the "
            "finally block of ECU._request, and a cancellation arriving there loses the row of an exchange that was completed", loc=conn_fn.loc)

    ep_ = m.require_function("gallia.command.base.BaseCommand.entry_point")
    tr_run = [t for t in ast.walk(ep_.node) if isinstance(t, ast.Try) and any(isinstance(c, ast.Call) and ast.unparse(c.func) == "self.run" for b_ in t.body for c in ast.walk(b_))]
    fin_calls = [c for c in ast.walk(ep_.node) if isinstance(c, ast.Call) and ast.unparse(c.func) == "self._db_finish_run_meta"]
    r.check(len(tr_run) == 1 and len(fin_calls) == 1 and any(fin_calls[0] is x for st in tr_run[0].finalbody for x in ast.walk(st)), "R7",
            f"{ep_.qualname}#drain-in-finally",
            "the database is drained and closed (_db_finish_run_meta) outside the finally of the try around run(): when the run is cancelled, rows still queued are never written", loc=ep_.loc)

    # ... and nothing that can fail stands before it in that finally block: only plain bookkeeping assignments may precede the drain (file system or hook
    # work in front of it - META.json, log handlers - turns its failure into lost rows and a connection that is never closed)
    if len(tr_run) == 1 and len(fin_calls) == 1:
        before = []
        for st in tr_run[0].finalbody:
            if any(fin_calls[0] is x for x in ast.walk(st)):
                break
            before.append(st)
        risky = [ast.unparse(st).splitlines()[0][:60] for st in before
                 if not (isinstance(st, (ast.Assign, ast.AnnAssign)) and not any(isinstance(x, ast.Await) for x in ast.walk(st)) and
                         all(ast.unparse(c.func) in ("datetime.now", "time.time", "str", "int") or ast.unparse(c.func).endswith(".isoformat") for c in ast.walk(st) if isinstance(c, ast.Call)))]
        r.check(not risky, "R7", f"{ep_.qualname}#drain-first", f"{risky} run(s) in the finally block before the database is drained: if it raises (artifacts directory gone, "
                "disk full), the queued rows of the run are never written and the handler is never closed", loc=ep_.loc)

    # the state that is recorded with the following requests: reading the active session is an observation, it changes the tracked state only when it
    # reports another session (a reset on every session read forgets the security level, and every later row is logged with security_access_level null)
    eus = m.require_function(f"{ECU}.ECU.update_state")
    # (named conditions - `unchanged = new == self.state.session` - are resolved first)
    from sa.util import subst_locals as _sl11
    import copy as _cp11
    eus = _cp11.copy(eus)
    eus.node = ast.fix_missing_locations(_sl11(eus.node, eus.node, conditions=True))
    rdbi_ifs = [n for n in eus.node.body if isinstance(n, ast.If) and "ReadDataByIdentifierResponse" in ast.unparse(n.test)]
    if len(rdbi_ifs) != 1:
        raise AnalysisError(f"{eus.qualname}: the ReadDataByIdentifier (active session) branch was not found")
    resets_ = [n for n in ast.walk(rdbi_ifs[0]) if isinstance(n, ast.Call) and ast.unparse(n.func) == "self.state.reset"]
    from sa.util import path_condition as _pc11b
    ok_obs = bool(resets_)
    for rc_ in resets_:
        from sa.util import norm_conds as _nc11b
        # normal form: the reset is reached only under (reported == tracked) being false
        ok_obs = ok_obs and any("self.state.session" in t and "==" in t and p_ is False for t, p_ in _nc11b(_pc11b(rdbi_ifs[0], rc_)))
    r.check(ok_obs, "R3", f"{eus.qualname}#session-read-is-an-observation", "a reply to the active-session read resets the tracked state although the reported session equals the "
            "tracked one: the security level is forgotten and the rows that follow are recorded with a state the ECU is not in", loc=eus.loc)

    # ---------------------------------------------------------------- R8
    ifs = [n for n in ast.walk(req.node) if isinstance(n, ast.If) and "ANALYZE" in ast.unparse(n.test)]
    okm = len(ifs) == 1 and "'ANALYZE' in config.tags" in ast.unparse(ifs[0].test) and \
        any(ast.unparse(s) == f"{MV} = LogMode.emphasized" for s in ifs[0].body)
    default = any(isinstance(n, ast.Assign) and ast.unparse(n) == f"{MV} = LogMode.implicit" for n in ast.walk(req.node))
    if okm:
        t_ = ifs[0].test
        okm = isinstance(t_, ast.BoolOp) and isinstance(t_.op, ast.And) and [ast.unparse(v) for v in t_.values] == \
            ["config is not None", "config.tags is not None", "'ANALYZE' in config.tags"]
    gtests = [n.ast for n in g.nodes.values() if n.id in guard]
    okm = okm and all(isinstance(t, ast.BoolOp) and isinstance(t.op, ast.And) and [ast.unparse(v) for v in t.values] ==
                      ["self.implicit_logging", "self.db_handler is not None"] for t in gtests)
    r.check(okm and default, "R8", f"{req.qualname}#mode", "log mode selection (implicit by default, emphasized iff 'ANALYZE' in config.tags) changed", loc=req.loc)
    ok8, p8 = g.must_pass(g.entry, guard, ins)
    r.check(ok8, "R8", f"{req.qualname}#guarded", "insert_scan_result is reachable without the implicit-logging / handler guard", loc=req.loc)

    # ---------------------------------------------------------------- R10
    from sa.uds_rules import request_roundtrip_guard
    su_ = m.require_function("gallia.command.uds.UDSScanner.setup")
    gs = CFG(su_.node)
    starts = [n.id for n in gs.nodes.values() if n.kind == "stmt" and isinstance(n.ast, ast.Assign) and ast.unparse(n.ast.targets[0]) == "self.ecu"]
    reqs = {n.id for n in gs.nodes.values() if n.ast is not None and n.kind in ("stmt", "cond") and
            any(isinstance(x, ast.Await) and isinstance(x.value, ast.Call) and ast.unparse(x.value.func).startswith("self.ecu.") for x in ast.walk(n.ast))}
    applies = {n.id for n in gs.nodes.values() if n.ast is not None and n.kind == "stmt" and
               ("self._apply_implicit_logging_setting()" in ast.unparse(n.ast) or "self.ecu.implicit_logging = " in ast.unparse(n.ast))}
    nodb = {}
    for n in gs.nodes.values():
        if n.kind == "cond" and n.ast is not None and ast.unparse(n.ast) == "self.db_handler is not None":
            nb = [b for b, k in gs.succ[n.id] if k == "n"]
            if len(nb) == 2:
                nodb[n.id] = nb[1]
    if len(starts) != 1 or not reqs or not applies:
        raise AnalysisError(f"{su_.qualname}: ECU creation / first requests / application of the implicit-logging setting not found")
    ok10, p10 = gs.must_pass(starts[0], applies, reqs, skip_edge=lambda n, b, k: k == "exc" or nodb.get(n.id if hasattr(n, "id") else n) == b)
    r.check(ok10, "R10", f"{su_.qualname}#setting-before-first-request",
            "with a database, a request of setup() (reset, ping, tester present, properties) is reachable before the scanner's implicit_logging setting was "
            "forwarded to the ECU: scanners that switch implicit logging off in their constructor get these exchanges recorded: "
            + " -> ".join(repr(gs.nodes[p_]) for p_ in p10[-4:]), loc=su_.loc)

    # ---------------------------------------------------------------- R9
    request_roundtrip_guard(m, r, "R9")
    from sa.uds_rules import client_helpers_forward_config
    if client_helpers_forward_config(m, r, "R8") < 30:
        raise AnalysisError("UDSClient service helpers with a config parameter not found")
    # the reply column holds response.pdu, i.e. the re-serialisation of the parsed reply: it equals the wire bytes iff the response codec is byte-identical
    # (the obligations of C02.R1 / R4, evaluated by the same engine; its known dict-dedup finding C02.R5 is a different rule and stays with C02)
    from checks import c02 as _c02
    sub = Report("C02", tier, "")
    try:
        _c02.run(m, sub, tier)
    except AnalysisError as e_:
        if not any(v_["rule"] in ("R1", "R4") for v_ in sub.violations):
            raise AnalysisError(f"response codec analysis (C02 engine) stopped: {e_}")
    n_sub = sum(1 for o_ in sub.obligations if o_["rule"] in ("R1", "R4"))
    if n_sub < 60:
        raise AnalysisError(f"only {n_sub} response codec obligations evaluated")
    for v_ in sub.violations:
        if v_["rule"] in ("R1", "R4"):
            r.check(False, "R11", f"response-codec:{v_['construct']}", "the recorded reply bytes differ from the wire: " + v_["message"][:500], loc=v_["loc"])
    r.ok("R11", "response-codec", f"{n_sub} W∘R obligations of the response classes hold")
    n9 = 0
    for n in ast.walk(hins.node):
        if isinstance(n, ast.Call) and ast.unparse(n.func).split(".")[-1].startswith("bytes_repr") and n.args:
            n9 += 1
            ml = effective_max_length(m, hmod, n)
            r.check(ml is None, "R9", f"{hins.qualname}#bytes_repr({ast.unparse(n.args[0])})",
                    f"evaluated with max_length={ml!r}: longer byte strings are stored truncated", loc=f"{hmod.relpath}:{n.lineno}")
    if n9 < 4:
        raise AnalysisError("bytes_repr call sites in insert_scan_result not found")
    from sa.util import bytes_repr_truncates
    why9 = bytes_repr_truncates(m, None)
    r.check(why9 is None, "R9", "gallia.services.uds.core.utils.bytes_repr#none-is-unlimited",
            f"with max_length=None (what the handler passes) {why9}", loc="src/gallia/services/uds/core/utils.py")

    r.assumptions += ["aiosqlite/SQLite behave as documented; asyncio.Queue is FIFO; json.dumps semantics"]
    r.not_decided += ["database contents for all histories", "row order when an OperationalError makes the writer re-queue a row (noted in DESIGN.md)"]
