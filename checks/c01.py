"""C01 UDS requests serialise to the ISO 14229-1 layout and parse back losslessly (static clauses)."""
from __future__ import annotations

import ast

from sa.codec import SERVICE, CodecAnalyser, Registry, field_origin
from sa.layout import (BytesV, CondV, ConstV, IntV, Interp, Lin, State, TupleV, as_const_int, pdu_byte, trim_bits)
from sa.model import AnalysisError, ClassInfo, FuncInfo, Model, walk_no_nested
from sa.oracles import iso14229
from sa.report import Report

TITLE = "UDS requests serialise to the ISO 14229-1 layout and parse back losslessly"
UTILS = "gallia.services.uds.core.utils"
CLIENT = "gallia.services.uds.core.client"

HARD = {"byte", "width", "const", "endian", "overflow", "length-definite"}
SOFT = {"length", "unpinned-width", "partial-group"}

# request classes that are not the Request of any registered service / sub-function holder; dynamic parsing returns
# the generic class for them (documented in DESIGN.md C01.R5/R8: no decoder can distinguish them)
UNREGISTERED_OK = {
    "ReturnControlToECURequest": "IOCBI convenience subclass: parses as InputOutputControlByIdentifierRequest",
    "ResetToDefaultRequest": "IOCBI convenience subclass: parses as InputOutputControlByIdentifierRequest",
    "FreezeCurrentStateRequest": "IOCBI convenience subclass: parses as InputOutputControlByIdentifierRequest",
    "ShortTermAdjustmentRequest": "IOCBI convenience subclass: parses as InputOutputControlByIdentifierRequest",
    "RawRequest": "opaque raw request (fallback of the dynamic parser)",
}


def self_attrs_read(m: Model, cls: ClassInfo, fn: FuncInfo, seen: set[str] | None = None) -> set[str]:
    """Attributes of self read by fn, following properties / methods of the same object."""
    seen = seen if seen is not None else set()
    if fn.qualname in seen:
        return set()
    seen.add(fn.qualname)
    out: set[str] = set()
    for n in walk_no_nested(fn.node):
        if isinstance(n, ast.Attribute) and isinstance(n.value, ast.Name) and n.value.id == "self" and isinstance(n.ctx, ast.Load):
            out.add(n.attr)
            target = m.resolve_method(cls, n.attr)
            if target is not None:
                out |= self_attrs_read(m, cls, target, seen)
    return out


def ctor_chain(m: Model, cls: ClassInfo) -> list[FuncInfo]:
    """__init__ of cls and every super().__init__ it reaches."""
    out: list[FuncInfo] = []
    f = m.resolve_method(cls, "__init__")
    while f is not None:
        out.append(f)
        calls_super = any(
            isinstance(n, ast.Call) and isinstance(n.func, ast.Attribute) and n.func.attr == "__init__"
            and isinstance(n.func.value, ast.Call) and ast.unparse(n.func.value.func) == "super"
            for n in walk_no_nested(f.node))
        if not calls_super:
            break
        f = m.resolve_method(cls, "__init__", after=f.cls)
    return out


def stored_fields(m: Model, cls: ClassInfo) -> dict[str, tuple[FuncInfo, ast.expr]]:
    out: dict[str, tuple[FuncInfo, ast.expr]] = {}
    for f in ctor_chain(m, cls):
        for n in walk_no_nested(f.node):
            tgts: list[ast.expr] = []
            val = None
            if isinstance(n, ast.Assign):
                tgts, val = n.targets, n.value
            elif isinstance(n, ast.AnnAssign) and n.value is not None:
                tgts, val = [n.target], n.value
            for t in tgts:
                for tt in (t.elts if isinstance(t, ast.Tuple) else [t]):
                    if isinstance(tt, ast.Attribute) and isinstance(tt.value, ast.Name) and tt.value.id == "self":
                        out.setdefault(tt.attr, (f, val))
    return out


def range_guards(m: Model, cls: ClassInfo) -> dict[str, tuple[int, int, str]]:
    """field/param name -> (lo, hi, where) from check_range / check_data_identifier / check_sub_function calls."""
    utils = m.module(UTILS)
    out: dict[str, tuple[int, int, str]] = {}
    fixed = {"check_data_identifier": (0, 0xFFFF), "check_sub_function": (0, 0x7F)}
    # verify the helper bounds from their source instead of trusting the table
    for name, (lo, hi) in fixed.items():
        fn = m.require_function(f"{UTILS}.{name}")
        consts = sorted({n.value for n in ast.walk(fn.node) if isinstance(n, ast.Constant) and isinstance(n.value, int)})
        if lo not in consts or hi not in consts:
            raise AnalysisError(f"{UTILS}.{name} no longer checks [{lo:#x}, {hi:#x}] (constants found: {consts})")
    for f in ctor_chain(m, cls):
        for n in walk_no_nested(f.node):
            if not (isinstance(n, ast.Call) and isinstance(n.func, ast.Name)):
                continue
            r = m.lookup_in_module(f.module, n.func.id)
            if not isinstance(r, FuncInfo) or r.module.name != UTILS or not n.args:
                continue
            a0 = n.args[0]
            name = None
            if isinstance(a0, ast.Name):
                name = a0.id
            elif isinstance(a0, ast.Attribute) and isinstance(a0.value, ast.Name) and a0.value.id == "self":
                name = "self." + a0.attr
            if name is None:
                continue
            if r.name == "check_range" and len(n.args) >= 4:
                lo = m.try_fold(f.module, n.args[2])
                hi = m.try_fold(f.module, n.args[3])
                if isinstance(lo, int) and isinstance(hi, int):
                    out[name] = (lo, hi, f"{f.module.relpath}:{n.lineno}")
            elif r.name in fixed:
                out[name] = (*fixed[r.name], f"{f.module.relpath}:{n.lineno}")
    return out


def param_of_field(m: Model, cls: ClassInfo, fieldname: str) -> str | None:
    st = stored_fields(m, cls)
    if fieldname in st and isinstance(st[fieldname][1], ast.Name):
        return st[fieldname][1].id
    return None


def merge_operands(expr: ast.expr) -> list[tuple[ast.expr, int]] | None:
    """Flatten a | b, a + b, a << k, a * 2**k, int(a) * 2**k into [(operand, shift)]."""
    if isinstance(expr, ast.BinOp) and isinstance(expr.op, (ast.BitOr, ast.Add)):
        l, r = merge_operands(expr.left), merge_operands(expr.right)
        if l is None or r is None:
            return None
        return l + r
    if isinstance(expr, ast.BinOp) and isinstance(expr.op, (ast.LShift, ast.Mult)):
        try:
            k = ast.literal_eval(expr.right)
        except Exception:  # noqa: BLE001
            return None
        if not isinstance(k, int):
            return None
        if isinstance(expr.op, ast.Mult):
            if k <= 0 or k & (k - 1):
                return None
            k = k.bit_length() - 1
        inner = merge_operands(expr.left)
        if inner is None:
            return None
        return [(e, s + k) for e, s in inner]
    if isinstance(expr, ast.Call) and isinstance(expr.func, ast.Name) and expr.func.id == "int" and len(expr.args) == 1:
        return [(expr, 0)]
    if isinstance(expr, (ast.Attribute, ast.Name)):
        return [(expr, 0)]
    return None


def run(m: Model, r: Report, tier: str) -> None:
    reg = Registry(m)
    ca = CodecAnalyser(m)
    SubFunctionRequest = m.require_class(f"{SERVICE}.SubFunctionRequest")
    m.require_function(f"{SERVICE}.UDSRequest.from_pdu")
    m.require_function(f"{SERVICE}.UDSRequest.parse_dynamic")

    r.rule("R1", "W∘R byte identity: for every PDU the request parser accepts, each byte the serialiser writes is "
                 "the PDU byte at that offset (bit provenance), with the parsed slice width equal to the written width", floor=35)
    r.rule("R2", "the serialised layout equals the ISO 14229-1 row of the (service, sub-function)", floor=25)
    r.rule("R3", "sub-function requests: the suppress flag is taken from bit 7 of byte 1 and written back there", floor=25)
    r.rule("R4", ".pdu cannot raise for an object the parser produced (pack arity, None into pack)", floor=35)
    r.rule("R5", "every public field stored by the constructor is read by .pdu (no field is silently left off the wire)", floor=60)
    r.rule("R6", "fields merged into one byte are range-guarded to their bit budget at construction", floor=3)
    r.rule("R7", "declared minimal/maximal length admits every well-formed ISO request of the class", floor=35)
    r.rule("R8", "registry consistency: holder, request and response agree on service / sub-function id and response type; "
                 "every concrete request class is reachable by dynamic parsing", floor=60)
    r.rule("R9", "address/length-format helpers put memorySize length in the high and memoryAddress length in the low nibble", floor=3)
    r.rule("R10", "UDSClient service methods forward every parameter to the constructor parameter of the same name", floor=30)
    r.rule("R13", "no PDU shorter than the ISO minimum of its (service, sub-function) is parsed as a typed request", floor=35)
    r.rule("R12", "named fields sit at the ISO 14229-1 positions (sub-byte packing, order of equal-width neighbours, repeated groups)", floor=25)
    r.rule("R11", "from_pdu returns a typed request only after comparing its re-serialisation with the parsed bytes (non-canonical "
                  "encodings fall back to RawRequest, which keeps the bytes)", floor=2)
    from sa.uds_rules import request_roundtrip_guard
    request_roundtrip_guard(m, r, "R11")
    from sa.uds_rules import iso_tables
    iso_tables(m, r, "R8", "UDSIsoServices")
    from sa.uds_rules import iso_subfunction_tables
    iso_subfunction_tables(m, r, "R8")
    from sa.uds_rules import range_helpers_rule
    range_helpers_rule(m, r, "R6")
    from sa.uds_rules import serialiser_keeps_order
    if serialiser_keeps_order(m, r, "R1", "gallia.services.uds.core.service.UDSRequest") < 30:
        raise AnalysisError("serialising methods of the request classes not found")
    # uds_memory_parameters: the explicit-format branch (which validates the format) is taken exactly when a format is given; 0x00 is a given, invalid format
    from sa.util import path_condition as _pc1, truth_table as _tt1
    ump = m.require_function(f"{UTILS}.uds_memory_parameters")
    fpar = ump.params()[2] if len(ump.params()) > 2 else None
    val_calls = [n for n in ast.walk(ump.node) if isinstance(n, ast.Call) and ast.unparse(n.func) == "address_and_size_length"]
    if fpar is None or len(val_calls) != 1:
        raise AnalysisError(f"{ump.qualname}: format parameter / address_and_size_length call not found")
    conds_f = [(t, p_) for t, p_ in _pc1(ump.node, val_calls[0]) if any(isinstance(x, ast.Name) and x.id == fpar for x in ast.walk(t))]
    bad_f = _tt1(conds_f, {fpar: [None, 0, 0x11, 0x24]}, lambda a: a[fpar] is not None) if conds_f else ["not guarded by the format"]
    r.check(not bad_f, "R9", f"{ump.qualname}#explicit-format-branch", f"the given format is validated / used on {bad_f}: it must be used whenever a format is given "
            "(0x00 is a given format and has to be refused, not replaced by an automatic one while the caller still writes 0x00 on the wire)", loc=ump.loc)

    # routing by sub-function must not depend on the suppress bit: every quantity the registry lookup compares is the same for
    # byte 1 = b and b | 0x80 (exhaustive over b)
    from sa.util import byte_fn
    import copy as _copy
    n_rt = 0
    for c in m.classes.values():
        f = c.methods.get("_sub_function_type")
        if f is None or c.module.name != SERVICE:
            continue
        ppar = f.params()[1] if len(f.params()) > 1 else "pdu"
        sym = f"{ppar}[1]"
        defs = {n.targets[0].id: n.value for n in walk_no_nested(f.node) if isinstance(n, ast.Assign) and isinstance(n.targets[0], ast.Name) and sym in ast.unparse(n.value)}
        class _Sub(ast.NodeTransformer):
            def visit_Name(self, node):
                return _copy.deepcopy(defs[node.id]) if node.id in defs else node
        sides = []
        for n in walk_no_nested(f.node):
            if isinstance(n, ast.Compare):
                for side in [n.left] + n.comparators:
                    full = _Sub().visit(_copy.deepcopy(side))
                    if sym in ast.unparse(full):
                        sides.append(full)
        if not sides:
            raise AnalysisError(f"{f.qualname}: no comparison on byte 1 found")
        for side in sides:
            fn_ = byte_fn(m, f.module, side, sym)
            if fn_ is None:
                raise AnalysisError(f"{f.qualname}: `{ast.unparse(side)}` is outside the byte expression language")
            n_rt += 1
            diff = [b for b in range(128) if fn_(b) != fn_(b | 0x80)]
            r.check(not diff, "R3", f"{f.qualname}#suppress-bit-invariant",
                    f"the sub-function lookup compares `{ast.unparse(side)}`, which differs between byte 1 = {diff[0]:#04x} and {diff[0] | 0x80:#04x}: requests with the "
                    "suppressPosRspMsgIndicationBit set are routed differently (degraded to RawRequest by the dynamic parser)" if diff else "", loc=f.loc)
    if n_rt < 2:
        raise AnalysisError("sub-function routing functions not found")

    registered = reg.registered_requests()
    from sa.codec import field_placement
    field_placement(m, r, "R12", ca, list(registered), iso14229.FIELD_PLACEMENT)
    # ---------------------------------------------------------------- R8
    for p in reg.pairs:
        if p.request is None or p.service_id is None:
            continue
        req = p.request
        construct = f"{p.holder}"
        rsid = m.class_kw(req, "service_id", None)
        r.check(rsid == p.service_id, "R8", construct + "#request-service-id",
                f"holder service id {p.service_id} != {req.name}.service_id {rsid}", loc=req.loc)
        if p.response is not None:
            psid = m.class_kw(p.response, "service_id", None)
            r.check(psid == p.service_id, "R8", construct + "#response-service-id",
                    f"holder service id {p.service_id} != {p.response.name}.service_id {psid}", loc=p.response.loc)
            rt = None
            for c in m.mro(req):
                if "response_type" in c.keywords:
                    rt = m.class_kw(c, "response_type")
                    break
            r.check(rt == p.response, "R8", construct + "#response-type",
                    f"{req.name}.response_type is {getattr(rt, 'name', rt)} but the holder's Response is {p.response.name}", loc=req.loc)
        if p.sub_function_id is not None:
            for side, c in (("request", req), ("response", p.response)):
                if c is None:
                    continue
                sf = None
                for k in m.mro(c):
                    if "sub_function_id" in k.keywords:
                        sf = m.class_kw(k, "sub_function_id")
                        break
                r.check(sf == p.sub_function_id, "R8", construct + f"#{side}-sub-function-id",
                        f"holder sub_function_id {p.sub_function_id} != {c.name}.sub_function_id {sf}", loc=c.loc)
    for c in reg.concrete(reg.UDSRequest):
        if c not in registered and c.name not in UNREGISTERED_OK and m.class_kw(c, "service_id", None) is None:
            continue  # service-less base class (cannot pass _check_pdu for any service)
        if c in registered:
            r.ok("R8", c.qualname + "#registered")
        elif c.name in UNREGISTERED_OK:
            r.advisory("R8", c.qualname, UNREGISTERED_OK[c.name], c.loc)
        else:
            r.violation("R8", c.qualname + "#registered",
                        "concrete request class is not the Request of any registered service or sub-function holder: "
                        "the dynamic parser can never return it and degrades its PDUs to another class or RawRequest", c.loc)
    # duplicate (service, sub-function) keys
    seen: dict[tuple, str] = {}
    for p in reg.pairs:
        if p.sub_function_id is None:
            continue
        key = (p.service_id, p.sub_function_id)
        r.check(key not in seen, "R8", p.holder + "#unique-key", f"sub-function {key} registered twice ({seen.get(key)})",
                loc=p.holder_cls.loc if p.holder_cls else "")
        seen[key] = p.holder

    # ---------------------------------------------------------------- R1-R4, R7
    for p in reg.pairs:
        req = p.request
        if req is None or p.service_id is None:
            continue
        construct = req.qualname
        r.note("request classes", construct)
        a = ca.analyse(req)
        acc = a.accepted
        if not acc:
            r.violation("R1", construct, "the parser accepts no PDU at all on any path", req.loc)
            continue
        hard = [(pth, i) for pth in acc for i in pth.issues if i.kind in HARD]
        soft = [(pth, i) for pth in acc for i in pth.issues if i.kind in SOFT]
        rais = [(pth, i) for pth in acc for i in pth.issues if i.kind == "raise"]
        r.check(not hard, "R1", construct, "; ".join(sorted({i.msg for _, i in hard}))[:900], loc=req.loc,
                facts={"layouts": [pth.layout for pth in acc]}, fact_ok=" | ".join(" ".join(pth.shape) for pth in acc))
        r.check(not rais, "R4", construct, "; ".join(sorted({i.msg for _, i in rais}))[:900], loc=req.loc)
        if soft:
            r.extra.setdefault("not_armed_for_requests", []).append(
                {"class": req.name, "notes": sorted({i.kind for _, i in soft}),
                 "why": "only PDUs outside the serialiser's image are affected; from_pdu's round-trip assertion turns them into RawRequest"})
        # R3
        if m.is_subclass(req, SubFunctionRequest):
            bad = []
            for pth in acc:
                v = pth.fields.get("suppress_response")
                o = field_origin(v) if v is not None else "missing"
                ok = isinstance(v, IntV) and v.kind == "bits" and trim_bits(v.bits) == (("p", Lin(1), 7),)
                if isinstance(v, CondV):
                    ok = v.bit == ("p", Lin(1), 7)
                if not ok:
                    bad.append(o)
            r.check(not bad, "R3", construct,
                    f"suppress_response of the parsed request is {bad[:2]} instead of bit 7 of pdu[1]: "
                    "the suppress-positive-response bit is lost when parsing", loc=req.loc)
        # R2 / R7 (oracle)
        key = (p.service_id, p.holder.rsplit(".", 1)[-1])
        if key not in iso14229.REQ:
            key = (p.service_id, p.sub_function_id)
        if key not in iso14229.REQ:
            key = (p.service_id, None)
        if key not in iso14229.REQ:
            raise AnalysisError(f"no ISO oracle row for request {req.name} key {(p.service_id, p.sub_function_id)}")
        shapes, iso_min, iso_max = iso14229.REQ[key]
        if not (hard or rais):
            wrong = [" ".join(pth.shape) for pth in acc if not iso14229.shape_matches(pth.shape, shapes)]
            missing = [s for s in shapes if not any(iso14229.shape_matches(pth.shape, [s]) for pth in acc)]
            r.check(not wrong and not missing, "R2", construct,
                    f"serialised layout(s) {wrong or [' '.join(p2.shape) for p2 in acc]} differ from the ISO 14229-1 layout {shapes}"
                    + (f"; ISO variant(s) {missing} cannot be produced" if missing else ""), loc=req.loc,
                    fact_ok=f"{[' '.join(p2.shape) for p2 in acc]} == ISO {shapes}")
        mn = m.class_kw(req, "minimal_length")
        mx = m.class_kw(req, "maximal_length")
        r.check(isinstance(mn, int) and mn <= iso_min and (mx is None or (iso_max is not None and mx >= iso_max) or (iso_max is None and False)),
                "R7", construct,
                f"declared length envelope [{mn}, {mx}] rejects well-formed requests (ISO: [{iso_min}, {iso_max}])", loc=req.loc,
                fact_ok=f"[{mn},{mx}] ⊇ ISO [{iso_min},{iso_max}]")
        short = sorted({pth.len_lo for pth in acc if isinstance(pth.len_lo, int) and pth.len_lo < iso_min})
        # with computed field widths (address / size lengths taken from a format byte) a too short PDU parses into fields that re-serialise longer, and the
        # round-trip guard of from_pdu (R11) refuses it; only parsers with constant slice bounds hand a truncated PDU through unchanged
        fp_ = m.resolve_method(req, "_from_pdu")
        const_layout = fp_ is not None and all(
            all(b_ is None or isinstance(m.try_fold(fp_.module, b_), int) for b_ in ((sl.slice.lower, sl.slice.upper) if isinstance(sl.slice, ast.Slice) else (sl.slice,)))
            for sl in ast.walk(fp_.node) if isinstance(sl, ast.Subscript) and isinstance(sl.value, ast.Name) and sl.value.id == "pdu")
        if not const_layout:
            short = []
        r.check(not short, "R13", construct, f"PDUs of length {short} are parsed as {req.name} although the shortest well-formed request has {iso_min} bytes: a truncated "
                "request is handled as a typed request (the virtual ECU answers its content instead of incorrectMessageLengthOrInvalidFormat)", loc=req.loc,
                fact_ok=f"shortest accepted length >= {iso_min}")

    # ---------------------------------------------------------------- R5
    for req in registered:
        wr = m.resolve_method(req, "pdu")
        if wr is None:
            continue
        read = self_attrs_read(m, req, wr)
        for fname, (f, val) in stored_fields(m, req).items():
            if fname.startswith("_"):
                continue
            construct = f"{req.qualname}.{fname}"
            if fname == "routine_control_type":
                # alias of the class constant sub_function, which .pdu writes through sub_function_with_suppress_response_bit
                r.check("sub_function_with_suppress_response_bit" in read or "sub_function" in read, "R5", construct,
                        "routine_control_type (= sub_function) is not serialised", loc=f.loc)
                continue
            r.check(fname in read, "R5", construct,
                    f"field {fname} is stored by {f.qualname} but never read by {wr.qualname}: its value never reaches the wire",
                    loc=f.loc)

    # ---------------------------------------------------------------- R6
    merge_sites = 0
    for req in registered:
        wr = m.resolve_method(req, "pdu")
        funcs = [wr] if wr else []
        for name in sorted(self_attrs_read(m, req, wr) if wr else []):
            t = m.resolve_method(req, name)
            if t is not None:
                funcs.append(t)
        guards = range_guards(m, req)
        for fn in funcs:
            for n in walk_no_nested(fn.node):
                if not (isinstance(n, ast.BinOp) and isinstance(n.op, (ast.BitOr, ast.Add))):
                    continue
                ops = merge_operands(n)
                if ops is None or len(ops) < 2:
                    continue
                parent_is_merge = False
                ops_sorted = sorted(ops, key=lambda t: t[1])
                shifts = [s for _, s in ops_sorted] + [8]
                if len(set(shifts)) != len(shifts):
                    continue
                merge_sites += 1
                for (e, s), nxt in zip(ops_sorted, shifts[1:]):
                    budget = nxt - s
                    construct = f"{req.qualname}#{fn.name}:{ast.unparse(e)}"
                    if isinstance(e, ast.Call):  # int(bool)
                        r.ok("R6", construct, "int(bool) occupies 1 bit")
                        continue
                    if not isinstance(e, ast.Attribute):
                        continue
                    fieldname = e.attr
                    # resolve property -> underlying field
                    prop = m.resolve_method(req, fieldname)
                    cands = [fieldname, "self." + fieldname]
                    if prop is not None and prop.is_property:
                        for rn in walk_no_nested(prop.node):
                            if isinstance(rn, ast.Return) and isinstance(rn.value, ast.Attribute):
                                cands.append(rn.value.attr)
                                pp = param_of_field(m, req, rn.value.attr)
                                if pp:
                                    cands.append(pp)
                            if isinstance(rn, ast.Return) and isinstance(rn.value, ast.Attribute) and rn.value.attr == "SUB_FUNCTION_ID":
                                cands.append("<class constant>")
                    pp = param_of_field(m, req, fieldname)
                    if pp:
                        cands.append(pp)
                    g = next((guards[c] for c in cands if c in guards), None)
                    if "<class constant>" in cands and g is None:
                        sf = None
                        for k in m.mro(req):
                            if "sub_function_id" in k.keywords:
                                sf = m.class_kw(k, "sub_function_id")
                                break
                        r.check(isinstance(sf, int) and 0 <= sf < (1 << budget), "R6", construct,
                                f"class constant sub-function {sf} exceeds its {budget}-bit budget", loc=fn.loc)
                        continue
                    r.check(g is not None and g[0] >= 0 and g[1] <= (1 << budget) - 1, "R6", construct,
                            f"{ast.unparse(e)} shares a byte with other fields ({ast.unparse(n)}) and has a {budget}-bit budget, "
                            f"but the constructor's range guard is {g[:2] if g else 'missing'}: an out-of-range value is "
                            "encoded into a wrong PDU instead of being refused", loc=fn.loc,
                            fact_ok=f"guard {g[:2] if g else None} within {budget} bits")
    if merge_sites < 2:
        raise AnalysisError(f"R6 found only {merge_sites} bit-merge sites in request serialisers (expected the suppress-bit and dataFormatIdentifier merges)")

    # ---------------------------------------------------------------- R9
    it = Interp(m)
    f_asl = m.require_function(f"{UTILS}.address_and_size_length")
    outs = [v for _, v in it.call_function(State(), f_asl, [pdu_byte(Lin(0))], {})]
    good = [v for v in outs if isinstance(v, TupleV)]
    want_addr = tuple(("p", Lin(0), j) for j in range(4))
    want_size = tuple(("p", Lin(0), j) for j in range(4, 8))
    okv = len(good) == 1 and all(isinstance(x, IntV) and x.kind == "bits" for x in good[0].items) and \
        trim_bits(good[0].items[0].bits)[:4] == want_addr and trim_bits(good[0].items[1].bits)[:4] == want_size and \
        len(trim_bits(good[0].items[0].bits)) <= 4 and len(trim_bits(good[0].items[1].bits)) <= 4
    r.check(okv, "R9", f"{UTILS}.address_and_size_length",
            f"returns {good[0].items if good else outs} for format byte pdu[0]; ISO: (addressLength = low nibble, sizeLength = high nibble)",
            loc=f_asl.loc)
    f_fmt = m.require_function(f"{UTILS}.address_and_length_fmt")
    al = IntV("bits", bits=tuple(("p", Lin(0), j) for j in range(4)) + (0,) * 4)
    sl = IntV("bits", bits=tuple(("p", Lin(1), j) for j in range(4)) + (0,) * 4)
    outs = [v for _, v in it.call_function(State(), f_fmt, [al, sl], {}) if isinstance(v, IntV)]
    want = tuple(("p", Lin(0), j) for j in range(4)) + tuple(("p", Lin(1), j) for j in range(4))
    r.check(len(outs) >= 1 and all(v.kind == "bits" and trim_bits(v.bits) == want for v in outs), "R9",
            f"{UTILS}.address_and_length_fmt", f"computes {outs}; ISO: (size_length << 4) | address_length", loc=f_fmt.loc)
    f_ump = m.require_function(f"{UTILS}.uds_memory_parameters")
    found = False
    for n in ast.walk(f_ump.node):
        if isinstance(n, ast.Assign) and isinstance(n.value, ast.BinOp) and isinstance(n.value.op, (ast.BitOr, ast.Add)):
            ops = merge_operands(n.value)
            if ops and len(ops) == 2 and all(isinstance(e, ast.Name) for e, _ in ops):
                found = True
                d = {e.id: s for e, s in ops}
                sizes = [k for k in d if "size" in k]
                addrs = [k for k in d if "addr" in k]
                r.check(len(sizes) == 1 and len(addrs) == 1 and d[sizes[0]] == 4 and d[addrs[0]] == 0, "R9",
                        f"{UTILS}.uds_memory_parameters#computed-format",
                        f"computed addressAndLengthFormatIdentifier is {ast.unparse(n.value)}; ISO: size length in the high nibble", loc=f_ump.loc)
    if not found:
        raise AnalysisError("uds_memory_parameters: computed format identifier expression not found")

    # ---------------------------------------------------------------- R10
    client = m.require_class(f"{CLIENT}.UDSClient")
    n_fw = 0
    for name, fn in client.methods.items():
        ret_calls = [n for n in walk_no_nested(fn.node) if isinstance(n, ast.Call) and isinstance(n.func, ast.Attribute)
                     and n.func.attr == "request" and isinstance(n.func.value, ast.Name) and n.func.value.id == "self"]
        for call in ret_calls:
            if not call.args or not isinstance(call.args[0], ast.Call):
                continue
            ctor_call = call.args[0]
            target = m.resolve_expr(fn.module, ctor_call.func)
            if not isinstance(target, ClassInfo) or not m.is_subclass(target, reg.UDSRequest):
                continue
            n_fw += 1
            construct = f"{client.qualname}.{name}"
            init = m.resolve_method(target, "__init__")
            cparams = init.params()[1:] if init else []
            bound: dict[str, ast.expr] = {}
            for cp, a in zip(cparams, ctor_call.args):
                bound[cp] = a
            for kw in ctor_call.keywords:
                if kw.arg:
                    bound[kw.arg] = kw.value
            mparams = [p for p in fn.params()[1:] if p != "config"]
            problems = []
            for mp in mparams:
                if mp in bound and isinstance(bound[mp], ast.Name) and bound[mp].id == mp:
                    continue
                if mp == "pdu" and target.name == "RawRequest":
                    continue
                used = [cp for cp, a in bound.items() if isinstance(a, ast.Name) and a.id == mp]
                if used:
                    problems.append(f"parameter {mp} is passed as constructor parameter {used[0]}")
                else:
                    problems.append(f"parameter {mp} is not forwarded to {target.name}")
            # config must reach self.request
            cfg_ok = "config" not in fn.params() or any(isinstance(a, ast.Name) and a.id == "config" for a in call.args[1:]) or \
                any(kw.arg == "config" for kw in call.keywords)
            if not cfg_ok:
                problems.append("config is not forwarded to self.request")
            r.check(not problems, "R10", construct, "; ".join(problems), loc=fn.loc)
    if n_fw < 30:
        raise AnalysisError(f"R10 found only {n_fw} forwarding sites in UDSClient")

    r.assumptions += [
        "CPython semantics of struct.pack, int.to_bytes/from_bytes and slicing as modelled in sa/layout.py",
        "ISO 14229-1 rows in sa/oracles/iso14229.py are correct transcriptions",
        "codec classes are not monkey-patched at run time",
    ]
    r.not_decided += [
        "arithmetic of uds_memory_parameters for computed format identifiers (all 15x15 widths)",
        "behaviour on PDUs outside the serialiser's image (handled at run time by the round-trip assertion + RawRequest fallback)",
    ]
