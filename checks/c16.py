"""C16 A virtual ECU is fully determined by its seed and arguments (static clauses)."""
from __future__ import annotations

import ast

from sa.model import AnalysisError, ClassInfo, FuncInfo, Model, walk_no_nested
from sa.report import Report

TITLE = "A virtual ECU is fully determined by its seed and arguments"
SRV = "gallia.services.uds.server"
VECU = "gallia.commands.script.vecu"
SERVICE = "gallia.services.uds.core.service"

NONDET = {"hash", "id", "time", "time.time", "datetime.now", "datetime.datetime.now", "os.urandom", "uuid.uuid4", "uuid.uuid1", "secrets.token_bytes",
          "monotonic", "time.monotonic", "perf_counter", "object.__hash__"}
DET_TYPES = {"int", "bytes", "bool", "str", "float"}


def type_of_request_attr(m: Model, cls: ClassInfo, attr: str) -> str | None:
    """Declared type of request.<attr>: constructor parameter annotation feeding the field, property annotation, or class constant."""
    for c in m.mro(cls):
        f = c.methods.get(attr)
        if f is not None and f.is_property and f.node.returns is not None:
            return ast.unparse(f.node.returns)
    for c in m.mro(cls):
        init = c.methods.get("__init__")
        if init is None:
            continue
        ann = init.param_annotations()
        for n in ast.walk(init.node):
            if isinstance(n, ast.Assign) and ast.unparse(n.targets[0]) == f"self.{attr}" and isinstance(n.value, ast.Name) and n.value.id in ann and ann[n.value.id] is not None:
                return ast.unparse(ann[n.value.id])
    return None


def randomize_facts(m: Model):
    rz = m.require_function(f"{SRV}.RandomUDSServer.randomize")
    set_vars: dict[str, list[ast.expr]] = {}
    for n in walk_no_nested(rz.node):
        if isinstance(n, ast.Assign) and isinstance(n.targets[0], ast.Name):
            v = n.value
            if isinstance(v, (ast.Set, ast.SetComp)) or (isinstance(v, ast.Call) and ast.unparse(v.func) == "set") or \
                    (isinstance(v, ast.BinOp) and isinstance(v.op, (ast.Sub, ast.BitOr, ast.BitAnd)) and any(isinstance(x, ast.Call) and ast.unparse(x.func) == "set" for x in ast.walk(v))):
                set_vars.setdefault(n.targets[0].id, []).append(v)
    iterated = []
    for n in walk_no_nested(rz.node):
        if isinstance(n, ast.For) and isinstance(n.iter, ast.Name) and n.iter.id in set_vars:
            iterated.append((n.iter.id, n))
    # names known to hold ints: variables assigned an int constant, loop variables over ranges / int sets / config lists
    int_names = {ast.unparse(n.targets[0]) for n in walk_no_nested(rz.node) if isinstance(n, ast.Assign) and isinstance(n.value, ast.Constant) and isinstance(n.value.value, int)}
    int_names |= {ast.unparse(n.target) for n in walk_no_nested(rz.node) if isinstance(n, ast.For) and isinstance(n.target, ast.Name)}
    comb = {ast.unparse(n.targets[0]) for n in walk_no_nested(rz.node) if isinstance(n, ast.Assign) and "mandatory_sessions + self.randomness_parameters.optional_sessions" in ast.unparse(n.value)}
    trans_names = {ast.unparse(n.targets[0]) for n in walk_no_nested(rz.node) if isinstance(n, ast.Assign) and isinstance(n.value, ast.ListComp)
                   and ".random()" in ast.unparse(n.value) and ast.unparse(n.value.generators[0].iter) in comb}
    return rz, set_vars, iterated, int_names, comb, trans_names


def session_graph_rules(m: Model, r: Report, rid: str) -> None:
    """The session graph built by RandomUDSServer.randomize: mandatory services, way back to the default session, inductive reachability of every
    offered session, one service table per offered session, DSC sub-functions = transitions.  Shared by C16 (reachability) and C14 (the server
    stays in a session it offers)."""
    rz, set_vars, iterated, int_names, comb, trans_names = randomize_facts(m)
    tables = [n.targets[0].id for n in walk_no_nested(rz.node) if isinstance(n, ast.Assign) and isinstance(n.targets[0], ast.Name) and isinstance(n.value, ast.ListComp)
              and ast.unparse(n.value.elt) == "set()"]
    if len(tables) != 1:
        raise AnalysisError(f"{rz.qualname}: the per-session transition table ([set() for ...]) was not found")
    T = tables[0]
    tdef = next(n for n in walk_no_nested(rz.node) if isinstance(n, ast.Assign) and isinstance(n.targets[0], ast.Name) and n.targets[0].id == T and isinstance(n.value, ast.ListComp))
    rng_call = tdef.value.generators[0].iter
    size = m.try_fold(rz.module, rng_call.args[0]) if isinstance(rng_call, ast.Call) and ast.unparse(rng_call.func) == "range" and len(rng_call.args) == 1 else None
    if not isinstance(size, int):
        raise AnalysisError(f"{rz.qualname}: cannot evaluate the size of the session table `{ast.unparse(tdef.value)}`")
    r.check(size >= 0x80, rid, f"{rz.qualname}#session-table-size", f"the per-session transition table has {size} entries (indices 0..{size - 1:#x}): the session ids a model may name "
            "go up to 0x7F (check_sub_function), a mandatory / optional session 0x7F makes setup() raise IndexError, so the model the arguments describe is never built", loc=rz.loc)
    consts = {n.targets[0].id for n in walk_no_nested(rz.node) if isinstance(n, ast.Assign) and isinstance(n.targets[0], ast.Name) and isinstance(n.value, ast.Constant)}
    from sa.util import path_condition as _pc16
    for n in walk_no_nested(rz.node):
        if isinstance(n, ast.Assign) and isinstance(n.targets[0], ast.Subscript) and ast.unparse(n.targets[0].value) == T:
            idx_ = ast.unparse(n.targets[0].slice)
            fresh = any(((pol and m.mtext(rz, t).replace(" ", "") == "len(_L[_L])==0") or (not pol and m.mtext(rz, t).replace(" ", "") == "_L[_L]") or (pol and m.mtext(rz, t).replace(" ", "") == "not_L[_L]")) and any(isinstance(x, ast.Subscript) and ast.unparse(x.value) == T and ast.unparse(x.slice) == idx_ for x in ast.walk(t)) for t, pol in _pc16(rz.node, n))
            in_loop = any(any(x is n for x in ast.walk(w)) for w in walk_no_nested(rz.node) if isinstance(w, ast.While))
            r.check((idx_ in consts and not in_loop) or fresh, rid, f"{rz.qualname}#no-overwrite:{idx_}",
                    f"`{ast.unparse(n)[:70]}` replaces the transitions of a session that may already have some: its earlier targets stay in the model but cannot be "
                    "entered from the default session any more (transitions may only grow with add/update; a plain assignment is for the default session and for a "
                    "mandatory session that has none yet)", loc=f"{rz.module.relpath}:{n.lineno}")
    loops = [n for n in walk_no_nested(rz.node) if isinstance(n, ast.For) and "self.randomness_parameters.mandatory_services +" in ast.unparse(n.iter)]
    r.check(len(loops) == 1 and m.mtext(rz, loops[0].iter).startswith("self.randomness_parameters.mandatory_services + [_L for _L in self.randomness_parameters.optional_services if"),
            rid, f"{rz.qualname}#mandatory-services", "mandatory services must be concatenated unconditionally into every session's service list", loc=rz.loc)
    ret = [n for n in walk_no_nested(rz.node) if isinstance(n, ast.For) and isinstance(n.iter, ast.Name) and n.iter.id in set_vars and
           any(m.has(rz, "session_transitions[session].add(default_session)", s) for s in n.body)]
    r.check(len(ret) == 1, rid, f"{rz.qualname}#return-to-default", "every newly offered session must get the transition back to the default session", loc=rz.loc)
    # inductive argument for "every offered session is reachable": a session gets transitions (= is offered) only if it is the default
    # session, a target drawn for a session that is already offered, or a mandatory session attached to an offered one
    whiles = [n for n in walk_no_nested(rz.node) if isinstance(n, ast.While)]
    # (canonical view: `while len(level) > 0` is `while level`)
    if len(whiles) != 1 or not (isinstance(whiles[0].test, ast.Name) or (isinstance(whiles[0].test, ast.Compare) and "len(" in ast.unparse(whiles[0].test))):
        raise AnalysisError(f"{rz.qualname}: level loop (while len(<level sessions>) ...) not found")
    wl = whiles[0]
    lvl_names = [x.id for x in ast.walk(wl.test) if isinstance(x, ast.Name) and x.id in set_vars]
    grow = [n for n in walk_no_nested(wl) if isinstance(n, ast.For) and isinstance(n.iter, ast.Name) and n.iter.id in lvl_names]
    ok_grow = False
    nxt = None
    if len(grow) == 1 and isinstance(grow[0].target, ast.Name):
        sv = grow[0].target.id
        upd = [c for s_ in grow[0].body for c in ast.walk(s_) if isinstance(c, ast.Call) and isinstance(c.func, ast.Attribute) and c.func.attr == "update" and len(c.args) == 1 and isinstance(c.args[0], ast.Name)]
        into_table = [c for c in upd if isinstance(c.func.value, ast.Subscript) and isinstance(c.func.value.slice, ast.Name) and c.func.value.slice.id == sv and c.args[0].id in trans_names]
        into_next = [c for c in upd if isinstance(c.func.value, ast.Name) and c.func.value.id in set_vars and c.args[0].id in trans_names]
        direct = {id(s_) for s_ in grow[0].body}
        ok_grow = len(into_table) == 1 and len(into_next) == 1 and into_table[0].args[0].id == into_next[0].args[0].id and \
            all(any(id(s_) in direct and isinstance(s_, ast.Expr) and s_.value is c for s_ in grow[0].body) for c in (into_table[0], into_next[0]))
        nxt = into_next[0].func.value.id if into_next else None
    r.check(ok_grow, rid, f"{rz.qualname}#graph-growth",
            "in the level loop the drawn targets must be added, unconditionally, both to the transitions of the (offered) session they were drawn for and to the set of "
            "sessions of the next level; otherwise a target is offered as a sub-function but is no session of the model, or is offered without being reachable", loc=rz.loc)
    ok_ret_set = len(ret) == 1 and nxt is not None and ret[0].iter.id == nxt and any(ret[0] is s_ for s_ in wl.body)
    r.check(ok_ret_set, rid, f"{rz.qualname}#return-to-default-set", "the loop that adds the way back to the default session must run, in every level, over exactly the set the new targets were put into", loc=rz.loc)
    relvl = [s_ for s_ in wl.body if isinstance(s_, ast.Assign) and isinstance(s_.targets[0], ast.Name) and s_.targets[0].id in lvl_names]
    ok_lvl = len(relvl) == 1 and nxt is not None and ((isinstance(relvl[0].value, ast.Name) and relvl[0].value.id == nxt) or
                                                     (isinstance(relvl[0].value, ast.BinOp) and isinstance(relvl[0].value.op, ast.Sub) and isinstance(relvl[0].value.left, ast.Name) and relvl[0].value.left.id == nxt))
    r.check(ok_lvl, rid, f"{rz.qualname}#next-level", "the sessions expanded in the next level must be (a subset of) the targets drawn in this level: only offered, reachable sessions may receive transitions", loc=rz.loc)
    # the service tables: one per session that has transitions; sessions without transitions are skipped one by one
    tbl = [n for n in walk_no_nested(rz.node) if isinstance(n, ast.For) and isinstance(n.target, ast.Tuple) and len(n.target.elts) == 2 and "enumerate(" in ast.unparse(n.iter) and
           any(isinstance(x, ast.Assign) and ast.unparse(x.targets[0]).startswith("self.services[") for x in ast.walk(n))]
    ok_skip = False
    if len(tbl) == 1 and tbl[0].body and isinstance(tbl[0].body[0], ast.If):
        g = tbl[0].body[0]
        tv = ast.unparse(tbl[0].target.elts[1])
        from sa.util import truth_table as _tt16
        bad_g = _tt16([(g.test, True)], {tv: [set(), {1}, {1, 2}]}, lambda a: len(a[tv]) == 0)
        ok_skip = not bad_g and len(g.body) == 1 and isinstance(g.body[0], ast.Continue) and not g.orelse and \
            not any(isinstance(x, (ast.Break, ast.Return)) for s_ in tbl[0].body for x in ast.walk(s_))
    r.check(ok_skip, rid, f"{rz.qualname}#offered-sessions", "every session with transitions gets its service table; exactly the sessions without transitions are skipped (continue), "
            "the loop never ends early", loc=rz.loc)
    ml = [n for n in walk_no_nested(rz.node) if isinstance(n, ast.For) and ast.unparse(n.iter) == "self.randomness_parameters.mandatory_sessions"]
    okm = False
    if len(ml) == 1:
        body = [ast.unparse(s) for s in ast.walk(ml[0]) if isinstance(s, (ast.Assign, ast.Expr))]
        def idx(sub):
            return next((i for i, t in enumerate(body) if sub in t), None)
        body = [m.mtext(rz, s) for s in ast.walk(ml[0]) if isinstance(s, (ast.Assign, ast.Expr))]
        a, c, own = idx("_L = [_L for _L, _L in enumerate(_L) if _L]"), idx("_L.choice(_L)"), idx("_L[_L] = {_L}")
        guard = any(isinstance(s, ast.If) and m.mtext(rz, s.test).replace(" ", "") in ("len(_L[_L])==0", "not_L[_L]") for s in ml[0].body)
        okm = None not in (a, c, own) and a < c < own and guard
    r.check(okm, rid, f"{rz.qualname}#mandatory-session-parent",
            "a mandatory session that is not yet offered must be attached to a session chosen among those already offered *before* it receives its own "
            "transitions; otherwise it can be chosen as its own parent and is unreachable from the default session", loc=rz.loc)
    dsc_if = [n for n in ast.walk(rz.node) if isinstance(n, ast.If) and "UDSIsoServices.DiagnosticSessionControl" in ast.unparse(n.test)]
    dsc = [s_ for n in dsc_if for s_ in n.body if isinstance(s_, ast.Assign)]
    enum_vars = {ast.unparse(n.target.elts[1]) for n in walk_no_nested(rz.node) if isinstance(n, ast.For) and isinstance(n.target, ast.Tuple) and "enumerate(" in ast.unparse(n.iter)}
    r.check(len(dsc) == 1 and isinstance(dsc[0].value, ast.Call) and ast.unparse(dsc[0].value.func) == "sorted" and ast.unparse(dsc[0].value.args[0]) in enum_vars, rid, f"{rz.qualname}#dsc-sub-functions",
            "the DiagnosticSessionControl sub-functions of a session must be exactly its (sorted) transitions", loc=rz.loc)

    # the if/elif chain that selects the sub-functions per service: the DSC branch is taken exactly for DiagnosticSessionControl
    def chain_tests(top: ast.If) -> list[ast.expr]:
        out = [top.test]
        while len(top.orelse) == 1 and isinstance(top.orelse[0], ast.If):
            top = top.orelse[0]
            out.append(top.test)
        return out
    heads = [n for n in ast.walk(rz.node) if isinstance(n, ast.If) and any(t is d.test for d in dsc_if for t in chain_tests(n))]
    ok_chain = False
    if heads and len(dsc_if) == 1:
        head = max(heads, key=lambda h: len(chain_tests(h)))
        tests = chain_tests(head)
        upto = tests[:next(i for i, t in enumerate(tests) if t is dsc_if[0].test) + 1]
        members = []
        for t in upto:
            if isinstance(t, ast.Compare) and len(t.ops) == 1 and isinstance(t.ops[0], ast.Eq):
                sides = [ast.unparse(t.left), ast.unparse(t.comparators[0])]
                mem = [x for x in sides if x.startswith("UDSIsoServices.")]
                var = [x for x in sides if not x.startswith("UDSIsoServices.")]
                if len(mem) == 1 and len(var) == 1 and var[0] == ast.unparse(loops[0].target) if loops else False:
                    members.append(mem[0])
        ok_chain = len(members) == len(upto) and len(set(members)) == len(members) and members[-1] == "UDSIsoServices.DiagnosticSessionControl"
    r.check(ok_chain, rid, f"{rz.qualname}#dsc-branch", "the branch that sets the session transitions as sub-functions must be selected by `service == DiagnosticSessionControl`, "
            "after equality tests for other services only", loc=rz.loc)



def run(m: Model, r: Report, tier: str) -> None:
    r.rule("R1", "the server never uses the module-level random generator; the vECU command passes the configured seed through unchanged", floor=3)
    r.rule("R2", "every RNG construction is seeded from self.seed (frozen exception: security-access seeds)", floor=5)
    r.rule("R3", "every value mixed into a seed has a process-independent str(): int / bytes / bool / str / IntEnum", floor=10)
    r.rule("R4", "no time, hash(), id(), urandom, uuid ... flows into the model or the answers", floor=1)
    r.rule("R5", "sets that are iterated while drawing random numbers hold ints (hash-seed independent order) or are sorted", floor=2)
    r.rule("R6", "mandatory services are always present; every offered session can return to the default session; a mandatory session "
                 "is attached to an already offered session (never to itself)", floor=4)

    rs = m.require_class(f"{SRV}.RandomUDSServer")
    rng_cls = m.require_class(f"{SRV}.RNG")
    smod = m.module(SRV)
    funcs = list(rs.methods.values()) + list(rng_cls.methods.values())

    # ---------------------------------------------------------------- R1 / R4
    glob = []
    nondet = []
    for f in funcs + list(m.require_class(f"{SRV}.UDSServer").methods.values()):
        for n in walk_no_nested(f.node):
            if isinstance(n, ast.Call):
                t = ast.unparse(n.func)
                if t.startswith("random.") and t != "random.Random":
                    glob.append(f"{f.qualname}:{n.lineno} {t}")
                if t in NONDET:
                    nondet.append(f"{f.qualname}:{n.lineno} {t}()")
    r.check(not glob, "R1", f"{SRV}#no-global-random", f"module-level random generator used: {glob}", loc=smod.relpath)
    r.check(any(ast.unparse(b) == "random.Random" for b in rng_cls.node.bases), "R1", f"{rng_cls.qualname}#private-generator", "RNG must be a private random.Random instance", loc=rng_cls.loc)
    r.check(not nondet, "R4", f"{SRV}#no-nondeterministic-sources",
            f"process-dependent sources in the model / answer code: {nondet} (hash() of str/bytes/tuples depends on PYTHONHASHSEED, time and ids differ per run)", loc=smod.relpath)
    vs = m.require_function(f"{VECU}.RngVirtualECU._server")
    calls = [n for n in ast.walk(vs.node) if isinstance(n, ast.Call) and ast.unparse(n.func) == "RandomUDSServer"]
    r.check(len(calls) == 1 and calls[0].args and ast.unparse(calls[0].args[0]) == "self.config.seed" and
            not any(isinstance(n, ast.Call) and ast.unparse(n.func).startswith("random.") for n in ast.walk(vs.node)), "R1", f"{vs.qualname}#seed-forwarded",
            f"the server is built with seed `{ast.unparse(calls[0].args[0]) if calls and calls[0].args else None}`; the configured seed (also 0) must be passed on unchanged", loc=vs.loc)
    cfg = m.require_class(f"{VECU}.RngVirtualECUConfig")
    ann = cfg.class_annots.get("seed")
    r.check(ann is not None and ast.unparse(ann) == "int", "R1", f"{cfg.qualname}#seed-type", f"seed option is typed {ast.unparse(ann) if ann else None}", loc=cfg.loc)
    init = m.require_function(f"{SRV}.RandomUDSServer.__init__")
    r.check(any(isinstance(n, ast.Assign) and ast.unparse(n) == "self.seed = seed" for n in ast.walk(init.node)), "R1", f"{init.qualname}#stores-seed", "self.seed = seed", loc=init.loc)

    # ---------------------------------------------------------------- R2
    n_rng = 0
    for f in rs.methods.values():
        for n in walk_no_nested(f.node):
            if isinstance(n, ast.Call) and ast.unparse(n.func) == "RNG":
                n_rng += 1
                if not n.args:
                    r.check(f.name == "security_access", "R2", f"{f.qualname}#RNG()", "unseeded RNG outside the security-access seed generation", loc=f"{f.module.relpath}:{n.lineno}")
                else:
                    r.check(any("self.seed" in ast.unparse(a) for a in n.args), "R2", f"{f.qualname}#RNG({ast.unparse(n.args[0])[:30]})",
                            "RNG is not seeded from self.seed", loc=f"{f.module.relpath}:{n.lineno}")
    sr = m.require_function(f"{SRV}.RandomUDSServer.stateful_rng")
    # the seed string of the per-request generator, evaluated: a str that changes with the server seed, the session and every argument
    from sa import miniterp as _mt16
    rng_calls = [n for n in ast.walk(sr.node) if isinstance(n, ast.Call) and ast.unparse(n.func) == "RNG" and len(n.args) == 1]
    va_ = sr.node.args.vararg.arg if sr.node.args.vararg else None
    # reads of the server state other than `self.state.session`: the whole state object has no process-independent text (and holds more than the session)
    par_ = {id(c_): p_ for p_ in ast.walk(sr.node) for c_ in ast.iter_child_nodes(p_)}
    state_reads = [n for n in ast.walk(sr.node) if isinstance(n, ast.Attribute) and ast.unparse(n) == "self.state"]
    foreign = [ast.unparse(par_[id(n)]) for n in state_reads if not (isinstance(par_.get(id(n)), ast.Attribute) and par_[id(n)].attr == "session")]
    if foreign:
        r.check(False, "R2", f"{sr.qualname}#seed-composition", f"the per-request generator is seeded from {foreign}: only the session number belongs into the seed string "
                "(the state object's text is not process independent, other state fields make equal requests in equal sessions answer differently)", loc=sr.loc)
    elif len(rng_calls) != 1 or va_ is None:
        r.unrecognised("R2", f"{sr.qualname}#seed-composition", "RNG(<one string>) over *args not found", sr.loc)
    else:
        def seed_of(seed, session, args):
            env_ = {"self.seed": seed, "self.state.session": session, va_: tuple(args)}
            _mt16.exec_body([s_ for s_ in sr.node.body if not any(x is rng_calls[0] for x in ast.walk(s_))], env_)
            return _mt16.eval_expr(rng_calls[0].args[0], env_)
        try:
            base_ = seed_of(7, 3, (1, "a"))
            variants = {"server seed": seed_of(8, 3, (1, "a")), "session": seed_of(7, 2, (1, "a")), "first argument": seed_of(7, 3, (2, "a")),
                        "last argument": seed_of(7, 3, (1, "b")), "number of arguments": seed_of(7, 3, (1, "a", "a"))}
            same = [k_ for k_, v_ in variants.items() if v_ == base_]
            r.check(isinstance(base_, str) and not same, "R2", f"{sr.qualname}#seed-composition",
                    f"the per-request generator is seeded by {base_!r} ({type(base_).__name__}), which does not change with {same}: it must be the string of seed, session and arguments", loc=sr.loc)
        except (AnalysisError, _mt16.Raised) as ex_:
            r.unrecognised("R2", f"{sr.qualname}#seed-composition", f"seed expression outside the evaluated language: {ex_}", sr.loc)
    setseeds = m.require_function(f"{SRV}.RNG.set_seeds")
    sd_calls = [n for n in ast.walk(setseeds.node) if isinstance(n, ast.Call) and ast.unparse(n.func) == "self.seed" and len(n.args) == 1]
    if len(sd_calls) != 1:
        r.unrecognised("R2", f"{setseeds.qualname}#string-seed", f"{len(sd_calls)} seeded self.seed(...) calls", setseeds.loc)
    else:
        try:
            pre_ = [s_ for s_ in setseeds.node.body if isinstance(s_, ast.Assign) and isinstance(s_.targets[0], ast.Name)]
            vals_ = []
            for x_ in ((1, "x"), (1, "y"), (2, "x"), (1, "x", 0)):
                env_ = {"self.seeds": list(x_)}
                _mt16.exec_body(pre_, env_)
                vals_.append(_mt16.eval_expr(sd_calls[0].args[0], env_))
            r.check(all(isinstance(v_, str) for v_ in vals_) and len(set(vals_)) == len(vals_), "R2", f"{setseeds.qualname}#string-seed",
                    f"seeds (1,'x'), (1,'y'), (2,'x'), (1,'x',0) give {vals_}: RNG seeds must be joined as distinct strings (random.Random.seed(str) is hash-seed independent)", loc=setseeds.loc)
        except (AnalysisError, _mt16.Raised) as ex_:
            r.unrecognised("R2", f"{setseeds.qualname}#string-seed", f"seed expression outside the evaluated language: {ex_}", setseeds.loc)

    # RNG internals: every seed argument reaches random.Random.seed as one process-independent string
    from sa.util import path_condition, truth_table
    rinit = m.require_function(f"{SRV}.RNG.__init__")
    va = rinit.node.args.vararg.arg if rinit.node.args.vararg else None
    r.check(va is not None and any(isinstance(n, ast.Call) and ast.unparse(n.func) == "self.set_seeds" and [ast.unparse(a) for a in n.args] == [f"*{va}"] for n in ast.walk(rinit.node)),
            "R2", f"{rinit.qualname}#forwards-seeds", "RNG(*seeds) must hand all its arguments to set_seeds", loc=rinit.loc)
    ssa = setseeds.node.args.vararg.arg if setseeds.node.args.vararg else None
    r.check(ssa is not None and any(isinstance(n, ast.Assign) and ast.unparse(n.targets[0]) == "self.seeds" and ast.unparse(n.value) in (f"list({ssa})", f"[*{ssa}]") for n in ast.walk(setseeds.node)),
            "R2", f"{setseeds.qualname}#stores-seeds", "set_seeds must store exactly its arguments as self.seeds", loc=setseeds.loc)
    seed_calls = [n for n in ast.walk(setseeds.node) if isinstance(n, ast.Expr) and isinstance(n.value, ast.Call) and ast.unparse(n.value.func) == "self.seed"]
    unseeded = [n for n in seed_calls if not n.value.args and not n.value.keywords]
    seeded = [n for n in seed_calls if n.value.args]
    okk = len(seeded) == 1
    bad = []
    if okk:
        seeds_dom = {"self.seeds": [[], [1], [1, 2, 3]]}
        bad = truth_table(path_condition(setseeds.node, seeded[0]), seeds_dom, lambda a: len(a["self.seeds"]) > 0)
        for u in unseeded:
            bad += truth_table(path_condition(setseeds.node, u), seeds_dom, lambda a: len(a["self.seeds"]) == 0)
    r.check(okk and not bad, "R2", f"{setseeds.qualname}#seeded-iff-seeds",
            f"seeding is conditioned wrongly: {bad}; with seeds the generator must be seeded from them, entropy seeding (self.seed()) is only allowed without seeds", loc=setseeds.loc)
    if okk:
        a0 = seeded[0].value.args[0]
        shape = isinstance(a0, ast.Call) and isinstance(a0.func, ast.Attribute) and a0.func.attr == "join" and isinstance(a0.func.value, ast.Constant) and isinstance(a0.func.value.value, str) \
            and len(a0.args) == 1 and isinstance(a0.args[0], (ast.GeneratorExp, ast.ListComp)) and len(a0.args[0].generators) == 1 \
            and ast.unparse(a0.args[0].generators[0].iter) == "self.seeds" and not a0.args[0].generators[0].ifs \
            and isinstance(a0.args[0].elt, ast.Call) and ast.unparse(a0.args[0].elt.func) == "str" \
            and ast.unparse(a0.args[0].elt.args[0]) == ast.unparse(a0.args[0].generators[0].target)
        # (the evaluated rule #string-seed above decides other spellings of the same join: distinct strings for distinct seed lists)
        r.check(shape or not r.rules["R2"]["violations"] and not any(u_["construct"].endswith("#string-seed") for u_ in r.unknown), "R2", f"{setseeds.qualname}#seed-value",
                f"random.Random.seed receives `{ast.unparse(a0)[:60]}`; it must be the string join of str(s) over all self.seeds (a hash(), a tuple or a subset is "
                "process dependent or loses seed components)", loc=setseeds.loc)
    adds = m.require_function(f"{SRV}.RNG.add_seeds")
    ava = adds.node.args.vararg.arg if adds.node.args.vararg else None
    r.check(ava is not None and any(isinstance(n, ast.Call) and ast.unparse(n.func) == "self.set_seeds" and [ast.unparse(a) for a in n.args] == ["*self.seeds", f"*{ava}"]
                                    for n in ast.walk(adds.node)), "R2", f"{adds.qualname}#appends", "add_seeds must re-seed with the old seeds followed by the new ones", loc=adds.loc)

    # ---------------------------------------------------------------- R3
    n_args = 0
    for f in rs.methods.values():
        pann = f.param_annotations()
        req_cls = m.annotation_classes(f.module, pann.get("request")) if "request" in pann else []
        for n in walk_no_nested(f.node):
            if isinstance(n, ast.Call) and ast.unparse(n.func) in ("self.stateful_rng", "rng.add_seeds"):
                for a in n.args:
                    n_args += 1
                    txt = ast.unparse(a)
                    t = None
                    if isinstance(a, ast.Attribute) and isinstance(a.value, ast.Name) and a.value.id == "request" and req_cls:
                        if a.attr == "pdu":
                            t = "bytes"
                        elif a.attr == "service_id":
                            t = "int"
                        else:
                            t = type_of_request_attr(m, req_cls[0], a.attr)
                            if t is None:  # narrowed by isinstance(request, T)
                                for k in walk_no_nested(f.node):
                                    if isinstance(k, ast.Call) and ast.unparse(k.func) == "isinstance" and ast.unparse(k.args[0]) == "request":
                                        for c in m.annotation_classes(f.module, k.args[1]):
                                            t = t or type_of_request_attr(m, c, a.attr)
                    elif isinstance(a, ast.Constant):
                        t = type(a.value).__name__
                    okt = t is not None and all(p.strip() in DET_TYPES or p.strip() == "None" for p in t.split("|"))
                    r.check(okt, "R3", f"{f.qualname}#seed-arg:{txt}",
                            f"{txt} (declared type {t}) is mixed into a seed via str(): objects with the default repr (addresses) or hash-ordered "
                            "containers differ between processes", loc=f"{f.module.relpath}:{n.lineno}")
    if n_args < 8:
        raise AnalysisError(f"only {n_args} seed arguments found")

    # ---------------------------------------------------------------- R5
    rz, set_vars, iterated, int_names, comb, trans_names = randomize_facts(m)
    for name, loop in iterated:
        # element provenance: every element ever put into the set
        elems: list[str] = []
        for v in set_vars[name]:
            if isinstance(v, ast.Set):
                elems += [ast.unparse(e) for e in v.elts]
        for n in walk_no_nested(rz.node):
            if isinstance(n, ast.Call) and isinstance(n.func, ast.Attribute) and ast.unparse(n.func.value) == name and n.func.attr in ("add", "update"):
                elems += [ast.unparse(a) for a in n.args]
        bad = [e for e in elems if not (e in int_names or e.isdigit() or e in trans_names)]
        draws = any(isinstance(x, ast.Call) and ast.unparse(x.func).startswith("rng.") for x in ast.walk(loop))
        r.check(not bad, "R5", f"{rz.qualname}#set-iteration:{name}",
                f"set {name} is iterated{' while drawing random numbers' if draws else ''} and may hold {bad}: the order of str/bytes/object elements "
                "depends on the hash seed", loc=f"{rz.module.relpath}:{loop.lineno}", fact_ok=f"elements {sorted(set(elems))} are ints")
    tr_def = [n for n in ast.walk(rz.node) if isinstance(n, ast.Assign) and ast.unparse(n.targets[0]) in trans_names]
    r.check(len(tr_def) == 1 and isinstance(tr_def[0].value, ast.ListComp) and ast.unparse(tr_def[0].value.generators[0].iter) in comb, "R5", f"{rz.qualname}#transitions-from-config",
            "transition targets must be drawn by iterating the configured session list (a list, in order)", loc=rz.loc)
    params = rs.nested.get("RandomnessParameters")
    opt = params.class_attrs.get("optional_services") if params else None
    r.check(opt is not None and "set(UDSIsoServices)" in ast.unparse(opt), "R5", f"{SRV}.RandomUDSServer.RandomnessParameters#optional_services",
            "default optional services: a set difference of IntEnum members (int hashes, hash-seed independent)", loc=params.loc if params else "")
    # the same for the model parameters: no validator / default / command code turns a set into an ordered collection unless its elements are ints
    # (IntEnum members included): list(set(<strings from the command line>)) is ordered by the process' hash seed
    def _ordered_from_set(tree: ast.AST):
        for c_ in ast.walk(tree):
            if isinstance(c_, ast.Call) and isinstance(c_.func, ast.Name) and c_.func.id in ("list", "tuple") and len(c_.args) == 1:
                inner = c_.args[0]
                sets_ = [x for x in ast.walk(inner) if isinstance(x, ast.Call) and isinstance(x.func, ast.Name) and x.func.id in ("set", "frozenset")]
                if isinstance(inner, (ast.Set, ast.SetComp)) or (sets_ and (inner in sets_ or (isinstance(inner, ast.BinOp) and isinstance(inner.op, (ast.Sub, ast.BitOr, ast.BitAnd, ast.BitXor))))):
                    yield c_, sets_
    n_sets = 0
    vecu_mod = m.module("gallia.commands.script.vecu")
    for where_, tree_ in ((f"{SRV}.RandomUDSServer.RandomnessParameters", params.node if params else None), ("gallia.commands.script.vecu", vecu_mod.tree)):
        if tree_ is None:
            continue
        for c_, sets_ in _ordered_from_set(tree_):
            n_sets += 1
            int_like = all(x.args and all(isinstance(y, (ast.Name, ast.Attribute, ast.BinOp, ast.List, ast.Call)) for y in [x.args[0]]) and
                           all(nm.id in ("UDSIsoServices", "mandatory_services", "set", "list", "range", "int") or nm.id[:1].isupper()
                               for nm in ast.walk(x.args[0]) if isinstance(nm, ast.Name)) for x in sets_) and bool(sets_)
            r.check(int_like, "R5", f"{where_}#ordered-from-set@{c_.lineno - (tree_.lineno if hasattr(tree_, 'lineno') else 0)}",
                    f"`{ast.unparse(c_)[:70]}` turns a set into a list: unless the elements are ints / IntEnum members the order depends on PYTHONHASHSEED, and the model is "
                    "drawn by iterating these lists", loc=f"src/gallia/{'services/uds/server.py' if 'server' in where_ else 'commands/script/vecu.py'}:{c_.lineno}")
    if n_sets < 1:
        raise AnalysisError("the set-difference default of RandomnessParameters.optional_services was not found")
    if len(iterated) < 1:
        raise AnalysisError(f"{rz.qualname}: expected loops over session sets")

    # ---------------------------------------------------------------- R6
    session_graph_rules(m, r, "R6")

    r.extra["time_calls_outside_model"] = [f"{f.qualname}:{n.lineno}" for f in m.require_class(f"{SRV}.UDSServerTransport").methods.values()
                                           for n in ast.walk(f.node) if isinstance(n, ast.Call) and ast.unparse(n.func) == "time"]
    r.assumptions += ["random.Random seeded with a str is deterministic across processes; hash(int) and hash(IntEnum) do not depend on PYTHONHASHSEED"]
    r.not_decided += ["reachability of every offered session for all parameter values", "the inactivity reset (wall-clock, transport bookkeeping)"]
