"""C06 DoIP: frames are demultiplexed correctly under any segmentation and interleaving (static clauses)."""
from __future__ import annotations

import ast
import struct

from sa import transport_rules as tr
from sa.callgraph import CallGraph
from sa.cfg import CFG
from sa.locks import LockModel
from sa.model import canon_text, AnalysisError, ClassInfo, Model, walk_no_nested
from sa.report import Report

TITLE = "DoIP: frames are demultiplexed correctly under any segmentation and interleaving"
DOIP = "gallia.transports.doip"


def run(m: Model, r: Report, tier: str) -> None:
    r.rule("R1", "pack/unpack of every DoIP dataclass agree (format, arity, field order, network byte order); "
                 "announced payload lengths equal the packed sizes", floor=20)
    r.rule("R2", "_read_frame consumes exactly 8 + PayloadLength bytes with readexactly on every path before returning", floor=4)
    r.rule("R3", "the reader task never blocks on a lock that a consumer holds while waiting for the read queue", floor=2)
    r.rule("R4", "configured source address, activation type and protocol version reach the routing activation request unaltered", floor=6)
    r.rule("R5", "routing activation is accepted iff the response code is Success", floor=1)
    r.rule("R6", "acknowledgement and diagnostic-message filters skip a frame iff any address differs; the ack compares the echoed prefix", floor=3)
    r.rule("R7", "frames skipped while waiting are re-queued on every normal exit and before a NACK is raised", floor=3)
    r.rule("R8", "only the TargetUnreachable NACK is swallowed by DoIPTransport.write", floor=1)
    r.rule("R12", "payload types, activation types, response / ack / NACK codes and timing parameters equal the ISO 13400-2 tables", floor=15)
    from sa.oracles import iso13400
    tr.protocol_tables(m, r, "R12", DOIP, iso13400.DOIP_TABLES)
    r.rule("R13", "frame decoding is total: wire integers are coerced only into enums with a catch-all member", floor=4)
    tr.wire_enum_coercion_total(m, r, "R13", DOIP, ("unpack", "_read_frame", "_read_worker"), strict=("GenericHeader.unpack", "._read_frame", "._read_worker"))
    r.rule("R14", "payload decoders accept every length ISO 13400-2 allows for their type (optional OEM-specific / maximum-data-size fields)", floor=2)
    tr.optional_payload_fields(m, r, "R14", DOIP, iso13400.DOIP_PAYLOAD_LENGTHS)
    r.rule("R9", "the acknowledgement wait is bounded; on timeout the connection is closed and BrokenPipeError raised", floor=3)
    r.rule("R10", "all consumers of the read queue are mutually excluded by the connection mutex (a reader cannot steal a writer's ack)", floor=1)
    r.rule("R11", "alive check requests are answered by the reader task itself with the configured source address and never queued", floor=2)

    mod = m.module(DOIP)
    conn = m.require_class(f"{DOIP}.DoIPConnection")
    transport = m.require_class(f"{DOIP}.DoIPTransport")
    cg = CallGraph(m)
    lm = LockModel(m, cg)

    # ---------------------------------------------------------------- R1
    n_dc = 0
    for c in mod.classes.values():
        if "pack" in c.methods or "unpack" in c.methods:
            if any(tr.struct_calls(f, "pack") or tr.struct_calls(f, "unpack") for f in (c.methods.get("pack"), c.methods.get("unpack")) if f):
                n_dc += 1
                r.note("dataclasses", c.qualname)
                tr.codec_agreement(m, r, "R1", c)
    if n_dc < 10:
        raise AnalysisError(f"only {n_dc} DoIP dataclasses with struct codecs found")
    gh = m.require_class(f"{DOIP}.GenericHeader")
    pk = tr.struct_calls(gh.methods["pack"], "pack")[0]
    r.check(len(pk.args) == 5 and ast.unparse(pk.args[1]) == "self.ProtocolVersion" and
            ast.unparse(pk.args[2]).replace(" ", "") in ("self.ProtocolVersion^255", "self.ProtocolVersion^0xFF", "255^self.ProtocolVersion"),
            "R1", f"{gh.qualname}.pack#inverse-version", f"header packs {[ast.unparse(a) for a in pk.args[1:]]}", loc=gh.loc)
    up = gh.methods["unpack"]
    # roles of the unpacked header fields by their position in the struct format
    roles = {}
    for n in walk_no_nested(up.node):
        if isinstance(n, ast.Assign) and isinstance(n.targets[0], ast.Tuple) and isinstance(n.value, ast.Call) and ast.unparse(n.value.func) == "struct.unpack":
            roles = {e.id: f"F{i}" for i, e in enumerate(n.targets[0].elts) if isinstance(e, ast.Name)}
    chk = [n for n in ast.walk(up.node) if isinstance(n, ast.If) and "F1" in m.mtext(up, n.test, roles) and any(isinstance(s, ast.Raise) for s in n.body)]
    # decided by evaluation over byte pairs: the header is refused exactly when the second byte is not the bitwise complement of the first
    inv_names = {v: k for k, v in roles.items()}
    if len(chk) != 1 or "F0" not in inv_names or "F1" not in inv_names:
        r.unrecognised("R1", f"{gh.qualname}.unpack#inverse-version", "the test on the inverse protocol version was not found", up.loc)
    else:
        from sa import miniterp as _mtv
        badv = []
        try:
            for a_ in (0x00, 0x02, 0x03, 0xFD, 0xFF, 0x80):
                for b_ in (a_ ^ 0xFF, a_, 0x00, 0xFF, (a_ ^ 0xFF) ^ 0x01):
                    refused = bool(_mtv.eval_expr(chk[0].test, {inv_names["F0"]: a_, inv_names["F1"]: b_}))
                    if refused != (b_ != a_ ^ 0xFF):
                        badv.append(f"version {a_:#04x}, inverse {b_:#04x}: {'refused' if refused else 'accepted'}")
            r.check(not badv, "R1", f"{gh.qualname}.unpack#inverse-version", f"the inverse protocol version check decides {badv[:3]}", loc=up.loc)
        except AnalysisError as ex_:
            r.unrecognised("R1", f"{gh.qualname}.unpack#inverse-version", str(ex_), up.loc)
    # announced payload lengths
    sizes = {}
    for cname in ("RoutingActivationRequest", "AliveCheckResponse", "DiagnosticMessage"):
        c = m.require_class(f"{DOIP}.{cname}")
        sizes[cname] = struct.calcsize(tr.fmt_of(m, c.methods["pack"], tr.struct_calls(c.methods["pack"], "pack")[0]))
    for fname, cname, extra in (("write_routing_activation_request", "RoutingActivationRequest", ""), ("write_alive_check_response", "AliveCheckResponse", ""),
                                ("write_diag_request", "DiagnosticMessage", "len(data)")):
        f = m.require_function(f"{DOIP}.DoIPConnection.{fname}")
        pl = [kw.value for n in ast.walk(f.node) if isinstance(n, ast.Call) and ast.unparse(n.func) == "GenericHeader" for kw in n.keywords if kw.arg == "PayloadLength"]
        if len(pl) != 1:
            raise AnalysisError(f"{f.qualname}: PayloadLength not found")
        if extra:
            okl = ast.unparse(pl[0]).replace(" ", "") in (f"{extra}+{sizes[cname]}", f"{sizes[cname]}+{extra}")
        else:
            okl = m.try_fold(f.module, pl[0]) == sizes[cname]
        r.check(okl, "R1", f"{f.qualname}#payload-length", f"announces PayloadLength={ast.unparse(pl[0])}, the packed payload has {sizes[cname]} (+ user data) bytes", loc=f.loc)

    # ---------------------------------------------------------------- R2
    rf = m.require_function(f"{DOIP}.DoIPConnection._read_frame")
    g = tr.consumption(m, r, "R2", rf, struct.calcsize("!BBHL"))
    payload_reads = {n.id for n in g.nodes.values() if n.ast is not None and n.kind == "stmt" and "readexactly(_L.PayloadLength)" in m.mtext(rf, n.ast)}
    rets = {n.id for n in g.nodes.values() if n.kind == "return"}
    ok, path = g.must_pass(g.entry, payload_reads, rets)
    r.check(bool(payload_reads) and ok, "R2", f"{rf.qualname}#payload-consumed",
            "a return is reachable before the announced payload was consumed: " + " -> ".join(repr(g.nodes[p]) for p in path[-4:]), loc=rf.loc)
    other_readers = [f.qualname for f in conn.methods.values() if f is not rf and any(
        isinstance(n, ast.Call) and isinstance(n.func, ast.Attribute) and ast.unparse(n.func.value) == "self.reader" and n.func.attr.startswith("read")
        for n in ast.walk(f.node))]
    r.check(not other_readers, "R2", f"{conn.qualname}#single-reader", f"other functions read from the stream: {other_readers}", loc=conn.loc)

    # ---------------------------------------------------------------- R3
    tr.wait_for_cycle(m, r, "R3", cg, lm, conn, "_read_worker", "_read_queue")

    # ---------------------------------------------------------------- R4
    def forwarding(fq: str, callee_suffix: str, wanted: dict[str, str]) -> None:
        f = m.require_function(fq)
        calls = [n for n in ast.walk(f.node) if isinstance(n, ast.Call) and ast.unparse(n.func).endswith(callee_suffix)]
        if not calls:
            raise AnalysisError(f"{fq}: call to {callee_suffix} not found")
        for c in calls:
            passed = {ast.unparse(a) for a in c.args} | {ast.unparse(k.value) for k in c.keywords}
            bound = tr.bind_call(m, f, c)
            for label, expr in wanted.items():
                if bound is not None and label in bound:
                    r.check(m.eqm(f, bound[label], expr), "R4", f"{fq}#{label}",
                            f"parameter {label} of {callee_suffix} receives `{ast.unparse(bound[label])}`, not `{expr}`", loc=f"{f.module.relpath}:{c.lineno}")
                    continue
                if bound is not None and tr.callee_param_names(m, f, c) and label in tr.callee_param_names(m, f, c):
                    r.check(False, "R4", f"{fq}#{label}",
                            f"parameter {label} of {callee_suffix} is not passed: `{expr}` ends up in {[k for k, v in bound.items() if ast.unparse(v) == expr] or 'no'} "
                            "parameter and the callee's default is used instead of the configured value", loc=f"{f.module.relpath}:{c.lineno}")
                    continue
                passed_m = {m.mtext(f, a) for a in c.args} | {m.mtext(f, k.value) for k in c.keywords}
                r.check(m.mpat(f, expr) in passed_m, "R4", f"{fq}#{label}",
                        f"{label} is not passed on unaltered to {callee_suffix} (arguments: {sorted(passed)}): a coercion (e.g. an Enum with "
                        "_missing_) changes values the user configured", loc=f"{f.module.relpath}:{c.lineno}")
    forwarding(f"{DOIP}.DoIPTransport.connect", "cls._connect", {"src_addr": "config.src_addr", "activation_type": "config.activation_type",
                                                                 "protocol_version": "config.protocol_version"})
    forwarding(f"{DOIP}.DoIPTransport._connect", "DoIPConnection.connect", {"src_addr": "src_addr", "protocol_version": "protocol_version"})
    forwarding(f"{DOIP}.DoIPTransport._connect", "write_routing_activation_request", {"activation_type": "activation_type"})
    forwarding(f"{DOIP}.DoIPConnection.write_routing_activation_request", "RoutingActivationRequest", {"src_addr": "self.src_addr", "activation_type": "activation_type"})
    forwarding(f"{DOIP}.DoIPConnection.write_routing_activation_request", "GenericHeader", {"protocol_version": "self.protocol_version"})
    init = m.require_function(f"{DOIP}.DoIPConnection.__init__")
    for a in ("src_addr", "target_addr", "protocol_version"):
        r.check(any(isinstance(n, ast.Assign) and ast.unparse(n.targets[0]) == f"self.{a}" and ast.unparse(n.value) == a for n in ast.walk(init.node)),
                "R4", f"{init.qualname}#{a}", f"self.{a} is not stored unaltered", loc=init.loc)
    cfg = m.require_class(f"{DOIP}.DoIPConfig")
    for fname in ("src_addr", "target_addr", "activation_type", "protocol_version"):
        ann_ = cfg.class_annots.get(fname)
        lossy = [c_.name for c_ in (m.annotation_classes(cfg.module, ann_, cfg) if ann_ is not None else []) if m.enum_members(c_) is not None
                 and any("_missing_" in k_.methods for k_ in m.mro(c_))]
        r.check(ann_ is not None and not lossy, "R4", f"{cfg.qualname}.{fname}#lossless-type",
                f"the field is typed {ast.unparse(ann_) if ann_ is not None else None}; pydantic coerces the URI value through {lossy}, whose _missing_ hook maps unknown values to a "
                "catch-all member: the configured value does not reach the wire", loc=cfg.loc)
    r.check({"src_addr", "target_addr", "activation_type", "protocol_version"} <= set(cfg.class_annots), "R4", f"{cfg.qualname}#fields",
            f"DoIPConfig fields: {sorted(cfg.class_annots)}", loc=cfg.loc)

    # ---------------------------------------------------------------- R5
    ra = m.require_function(f"{DOIP}.DoIPConnection._read_routing_activation_response")
    # the DoIPRoutingActivationDeniedError is raised exactly when the response code is not Success (path condition in normal form; any branch order)
    from sa.util import path_condition as _pcra, norm_conds as _ncra, subst_locals as _slra
    ra_node = _slra(ra.node, ra.node)
    denies = [n for n in ast.walk(ra_node) if isinstance(n, ast.Raise) and n.exc is not None and "DoIPRoutingActivationDeniedError" in ast.unparse(n.exc)]
    ok_ra = None
    if len(denies) == 1:
        lits_ra = _ncra(_pcra(ra_node, denies[0]))
        code_lits = [(t_, v_) for t_, v_ in lits_ra if "RoutingActivationResponseCodes.Success" in t_ and "RoutingActivationResponseCode" in t_.replace("RoutingActivationResponseCodes.Success", "")]
        if code_lits:
            ok_ra = all("==" in t_ and v_ is False for t_, v_ in code_lits)
    elif not denies:
        ok_ra = False
    r.check3(ok_ra,
            "R5", ra.qualname, "the connection must be refused for every response code other than Success", loc=ra.loc)

    # ---------------------------------------------------------------- R6 / R7
    ack = m.require_function(f"{DOIP}.DoIPConnection._read_ack")
    diag = m.require_function(f"{DOIP}.DoIPConnection.read_diag_request_raw")
    atoms = {"payload.SourceAddress != self.target_addr", "payload.TargetAddress != self.src_addr"}
    tr.address_filter(r, "R6", ack, atoms, m)
    tr.address_filter(r, "R6", diag, atoms, m)
    # the separate diagnostic-message queue hands out frames without the address filter: every return of the reader that is not
    # preceded by the filter is only acceptable while nothing in gallia switches that mode on
    gd = CFG(diag.node)
    filt_nodes = {n.id for n in gd.nodes.values() if n.kind == "cond" and n.ast is not None and "SourceAddress" in ast.unparse(n.ast) and "TargetAddress" in ast.unparse(n.ast)}
    ret_nodes = {n.id for n in gd.nodes.values() if n.kind == "return"}
    okf, pth = gd.must_pass(gd.entry, filt_nodes, ret_nodes)
    unfiltered_flag = None
    if not okf:
        flags = [ast.unparse(gd.nodes[x].ast) for x in pth if gd.nodes[x].kind == "cond" and isinstance(gd.nodes[x].ast, ast.Attribute)]
        unfiltered_flag = flags[0].replace("self.", "") if flags else "?"
    enabled = []
    if unfiltered_flag and unfiltered_flag != "?":
        # call sites on the transport's own construction path (the discovery command probes many target addresses through its own
        # connection and reads them unfiltered on purpose; it is not the transport `read()` of the property)
        tcls = m.require_class(f"{DOIP}.DoIPTransport")
        for f in [f_ for c_ in m.subclasses(tcls) for f_ in c_.methods.values()] + list(m.require_class(f"{DOIP}.DoIPConnection").methods.values()):
            for n in walk_no_nested(f.node):
                if isinstance(n, ast.Call) and ast.unparse(n.func) in ("DoIPConnection.connect", "DoIPConnection", "cls"):
                    if ast.unparse(n.func) == "cls" and (f.cls is None or f.cls.name != "DoIPConnection"):
                        continue
                    b = tr.bind_call(m, f, n)
                    v = b.get(unfiltered_flag) if b else next((k.value for k in n.keywords if k.arg == unfiltered_flag), None)
                    if v is not None and not (isinstance(v, ast.Constant) and v.value is False) and not (isinstance(v, ast.Name) and v.id == unfiltered_flag):
                        enabled.append(f"{f.qualname}:{n.lineno} passes {unfiltered_flag}={ast.unparse(v)}")
        dflt = m.require_function(f"{DOIP}.DoIPConnection.connect").param_defaults().get(unfiltered_flag)
        if dflt is None or not (isinstance(dflt, ast.Constant) and dflt.value is False):
            enabled.append(f"DoIPConnection.connect defaults {unfiltered_flag} to {ast.unparse(dflt) if dflt is not None else '<required>'}")
    r.check(okf or (unfiltered_flag not in (None, "?") and not enabled), "R6", f"{diag.qualname}#every-delivered-frame-filtered",
            f"a diagnostic message can be returned without the address filter (mode {unfiltered_flag}) and that mode is in use: {enabled}; frames of other "
            "(source, target) pairs are then delivered as responses", loc=diag.loc)
    # the test that compares the acknowledgement's echo with the request just sent (the parameter of _read_ack); decided by the evaluated table below
    from sa.util import subst_locals
    ppar0 = ack.params()[1] if len(ack.params()) > 1 else "prev_data"
    pref_ifs = [n for n in walk_no_nested(ack.node) if isinstance(n, ast.If) and any(isinstance(x, ast.Name) and x.id == ppar0 for x in ast.walk(n.test))]
    pref_tests = [subst_locals(ack.node, n.test, {ppar0}) for n in pref_ifs]
    if len(pref_ifs) != 1:
        r.unrecognised("R6", f"{ack.qualname}#echo-prefix", f"{len(pref_ifs)} tests read the request bytes ({ppar0})", ack.loc)
    else:
        r.ok("R6", f"{ack.qualname}#echo-prefix", "one test compares the echo with the request; its decision table is evaluated below")
    pref = pref_ifs
    # skip filters of the three consumers as truth tables over the frame kind / the address pair / the echoed prefix
    from sa import miniterp

    class _P:                                  # abstract frame: a kind plus attributes
        def __init__(self, kind: str, **kw):
            self.kind = kind
            self.__dict__.update(kw)

    def _filters(fn):
        loops_ = [n for n in fn.node.body if isinstance(n, ast.While)]        # the consumer loop is the top-level one
        if len(loops_) != 1:
            raise AnalysisError(f"{fn.qualname}: consumer loop not found")
        return [n for n in loops_[0].body if isinstance(n, ast.If) and n.body and isinstance(n.body[-1], ast.Continue)], loops_[0]

    def _eval(test, fn, payload, extra=None):
        pv = None
        for n in ast.walk(fn.node):
            if isinstance(n, ast.Assign) and isinstance(n.targets[0], ast.Tuple) and "read_frame" in ast.unparse(n.value) and len(n.targets[0].elts) == 2:
                pv = n.targets[0].elts[1].id
        if pv is None:
            raise AnalysisError(f"{fn.qualname}: frame variable not found")
        def oracle(call, env):
            if ast.unparse(call.func) == "isinstance" and len(call.args) == 2 and isinstance(call.args[0], ast.Name) and call.args[0].id == pv:
                names = [ast.unparse(x).split(".")[-1] for x in (call.args[1].elts if isinstance(call.args[1], ast.Tuple) else [call.args[1]])]
                return payload.kind in names
            return NotImplemented
        env = {pv: payload, "self.src_addr": 0x0E00, "self.target_addr": 0x1234}
        for k_, v_ in payload.__dict__.items():
            env[f"{pv}.{k_}"] = v_
        env.update(extra or {})
        return bool(miniterp.eval_expr(test, env, oracle))

    KINDS = ["DiagnosticMessagePositiveAcknowledgement", "DiagnosticMessageNegativeAcknowledgement", "DiagnosticMessage", "RoutingActivationResponse", "AliveCheckResponse"]
    for fn_, accepted in ((ack, KINDS[:2]), (diag, KINDS[2:3]), (ra, KINDS[3:4])):
        fl, _lp = _filters(fn_)
        tf = [x for x in fl if "isinstance(" in ast.unparse(x.test)]
        if len(tf) != 1:
            raise AnalysisError(f"{fn_.qualname}: frame kind filter not found")
        bad = [k for k in KINDS if _eval(tf[0].test, fn_, _P(k)) != (k not in accepted)]
        r.check(not bad, "R6", f"{fn_.qualname}#kind-filter", f"frames of kind {bad} are " + ("skipped although awaited" if any(b in accepted for b in bad) else "taken although foreign"), loc=fn_.loc)
    for fn_ in (ack, diag):
        fl, _lp = _filters(fn_)
        af = [x for x in fl if "SourceAddress" in ast.unparse(x.test) and "TargetAddress" in ast.unparse(x.test)]
        if len(af) != 1:
            continue
        bad = []
        for sa_, ta_ in ((0x1234, 0x0E00), (0x1234, 0x0E01), (0x1235, 0x0E00), (0x0E00, 0x1234), (0x1235, 0x0E01)):
            if _eval(af[0].test, fn_, _P("x", SourceAddress=sa_, TargetAddress=ta_)) != ((sa_, ta_) != (0x1234, 0x0E00)):
                bad.append(f"source={sa_:#x} target={ta_:#x}")
        r.check(not bad, "R6", f"{fn_.qualname}#address-filter-table",
                f"with target 0x1234 and tester 0x0e00 the filter decides wrongly for {bad}: only frames from the target to the tester may pass", loc=fn_.loc)
    if len(pref) == 1:
        ppar = ack.params()[1] if len(ack.params()) > 1 else "prev_data"
        bad = []
        for echo in (b"", b"\x22", b"\x22\xf1", b"\x99", b"\x22\xf1\x90\x00"):
            want_skip = len(echo) > 0 and echo != b"\x22\xf1\x90"[:len(echo)]
            if _eval(pref_tests[0], ack, _P("x", PreviousDiagnosticMessageData=echo), {ppar: b"\x22\xf1\x90"}) != want_skip:
                bad.append(echo.hex() or "<empty>")
        r.check(not bad, "R6", f"{ack.qualname}#echo-prefix-table", f"for the request 22f190 an ack echoing {bad} is classified wrongly (an ack belongs to the request iff its echo is a prefix of it)", loc=ack.loc)
    tr.requeue_order(r, "R7", ack, m.require_function(f"{DOIP}.DoIPConnection._read_worker"), "_read_queue",
                     skips_deliverable=_eval([x for x in _filters(ack)[0] if "isinstance(" in ast.unparse(x.test)][0].test, ack, _P("DiagnosticMessage")))
    tr.requeue_before_exit(r, "R7", ack, "self._read_queue", ("DoIPNegativeAckError",))
    tr.requeue_on_cancellation(r, "R7", ack, "self._read_queue")
    tr.requeue_on_cancellation(r, "R7", diag, "self._read_queue")
    tr.requeue_before_exit(r, "R7", diag, "self._read_queue")
    tr.requeue_before_exit(r, "R7", ra, "self._read_queue", ("DoIPRoutingActivationDeniedError",))

    # ---------------------------------------------------------------- R8
    w = m.require_function(f"{DOIP}.DoIPTransport.write")
    hs = [h for t in ast.walk(w.node) if isinstance(t, ast.Try) for h in t.handlers]
    ok8 = len(hs) == 1 and hs[0].type is not None and ast.unparse(hs[0].type) == "DoIPNegativeAckError" and bool(hs[0].name)
    if ok8:
        # decided over the acknowledgement code: the handler re-raises exactly when the code is not TargetUnreachable (any spelling of the test)
        from sa.cfg import CFG as _CFG8
        from sa import miniterp as _mt8w
        hname = hs[0].name
        outcomes = {}
        for code_ in ("TargetUnreachable", "OutOfMemory"):
            env8 = {hname: "EXC", f"{hname}.nack_code": code_, "DiagnosticMessageNegativeAckCodes.TargetUnreachable": "TargetUnreachable"}
            try:
                _mt8w.exec_body(hs[0].body, env8)
                outcomes[code_] = "swallowed"
            except _mt8w.Raised:
                outcomes[code_] = "raised"
            except _mt8w._Return:
                outcomes[code_] = "swallowed"
            except AnalysisError:
                outcomes[code_] = "?"
        ok8 = None if "?" in outcomes.values() else outcomes == {"TargetUnreachable": "swallowed", "OutOfMemory": "raised"}
    r.check3(ok8, "R8", w.qualname, "write must re-raise every NACK except TargetUnreachable (and swallow nothing else)", loc=w.loc)

    # ---------------------------------------------------------------- R9
    wr = m.require_function(f"{DOIP}.DoIPConnection.write_request_raw")
    tr.ack_timeout_handler(m, r, "R9", wr, "self._read_ack")
    tr.doip_timing_units(m, r, "R9")
    from sa.util import bytes_parts
    wcalls = [n for n in ast.walk(wr.node) if isinstance(n, ast.Call) and ast.unparse(n.func) == "self.writer.write" and len(n.args) == 1]
    dcalls = [n for n in ast.walk(wr.node) if isinstance(n, ast.Await) and ast.unparse(n.value) == "self.writer.drain()"]
    wpar = wr.params()
    parts_ = bytes_parts(wr.node, wcalls[0].args[0]) if len(wcalls) == 1 else None
    if len(wcalls) != 1 or parts_ is None or len(wpar) < 3:
        r.unrecognised("R9", f"{wr.qualname}#sends-frame", f"{len(wcalls)} writer.write call(s) / buffer not resolvable", wr.loc)
    else:
        want_ = [f"{wpar[1]}.pack()", f"{wpar[2]}.pack()"]
        pos_ok = bool(dcalls) and (wcalls[0].lineno, wcalls[0].col_offset) < min((d.lineno, d.col_offset) for d in dcalls)
        r.check(parts_ == want_ and pos_ok, "R9", f"{wr.qualname}#sends-frame",
                f"the frame written is {parts_} (expected {want_}) and must be drained before waiting for the acknowledgement", loc=wr.loc)
    for q, callee in ((f"{DOIP}.DoIPConnection.write_diag_request", "self.write_request_raw(hdr, payload)"),
                      (f"{DOIP}.DoIPConnection.write_routing_activation_request", "self.write_request_raw(hdr, payload)"),
                      (f"{DOIP}.DoIPTransport.write", "asyncio.wait_for(self._conn.write_diag_request(data), timeout)"),
                      (f"{DOIP}.DoIPTransport._connect", "conn.write_routing_activation_request(activation_type)")):
        fx = m.require_function(q)
        r.check(any(isinstance(s_, ast.Expr) and isinstance(s_.value, ast.Await) and m.eqm(fx, s_.value.value, callee) for s_ in ast.walk(fx.node)), "R9", f"{q}#delegates",
                f"must await `{callee}`", loc=fx.loc)
    from sa import dispatch as _dp6
    wr_arms = _dp6.arms(wr.node, wpar[2] if len(wpar) > 2 else "payload")
    if wr_arms is None:
        raise AnalysisError(f"{wr.qualname}: dispatch on the payload class (match / isinstance) not found")
    arm_ra = _dp6.arm_for(wr_arms, "RoutingActivationRequest()")
    r.check(arm_ra is not None and any("self._read_routing_activation_response()" in ast.unparse(s_) for s_ in arm_ra.body), "R5",
            f"{wr.qualname}#activation-waits-for-response", "a routing activation request must wait for the routing activation response", loc=wr.loc)
    arms = [p_ for a_ in wr_arms for p_ in a_.patterns]
    r.check("DiagnosticMessage()" in arms, "R9", f"{wr.qualname}#ack-arm", f"match arms {arms}: a diagnostic message must wait for its acknowledgement", loc=wr.loc)

    # ---------------------------------------------------------------- R10
    mutex = lm.key_for(conn, "_mutex", lm.locks)
    q = lm.key_for(conn, "_read_queue", lm.queues)
    if mutex is None or q is None:
        raise AnalysisError("DoIPConnection._mutex / _read_queue not found")
    entry = {f.qualname for f in conn.methods.values() if not f.name.startswith("_") and not f.name.endswith("_unsafe")}
    for cs in cg.task_roots:
        for t in cs.targets:
            entry.add(t.qualname)
    must = lm.must_hold(mutex, entry)
    for f in conn.methods.values():
        for k, n in lm.queue_ops(f, "get"):
            if k != q:
                continue
            okm = mutex in lm.held_syntactic(f, n) or must.get(f.qualname, False)
            unlocked = [cs.caller.qualname for cs in cg.callers.get(f.qualname, [])
                        if mutex not in lm.held_syntactic(cs.caller, cs.node) and not must.get(cs.caller.qualname, False)]
            r.check(okm, "R10", f"{f.qualname}#get-under-mutex",
                    f"_read_queue.get() is reachable without the connection mutex (via {unlocked}): a pending read can take the "
                    "acknowledgement a concurrent write is waiting for, and the write fails although the gateway acknowledged", loc=f"{f.module.relpath}:{n.lineno}")

    # ---------------------------------------------------------------- R11
    rw = m.require_function(f"{DOIP}.DoIPConnection._read_worker")
    # an alive check request is answered in the reader task and goes into no queue: from the statement that answers it every path to a queue put passes
    # the head of the reader loop first (the next frame)
    grw = CFG(rw.node)
    ans = [n.id for n in grw.nodes.values() if n.kind == "stmt" and n.ast is not None and "self.write_alive_check_response()" in ast.unparse(n.ast)]
    puts_ = {n.id for n in grw.nodes.values() if n.kind == "stmt" and n.ast is not None and ".put(" in ast.unparse(n.ast) or (n.ast is not None and n.kind == "stmt" and ".put_nowait(" in ast.unparse(n.ast))}
    heads_ = {n.id for n in grw.nodes.values() if n.kind == "loop"}
    from sa.util import path_condition as _pca, norm_conds as _nca
    if len(ans) != 1 or not heads_:
        r.check(False, "R11", f"{rw.qualname}#alive-branch", f"{len(ans)} statement(s) answer alive check requests in the reader task; alive check requests must be answered there and not queued", loc=rw.loc)
    else:
        ok11 = grw.must_pass(ans[0], heads_, puts_)[0] if puts_ else True
        lits_ = _nca(_pca(rw.node, grw.nodes[ans[0]].ast))
        ok11 = ok11 and any("AliveCheckRequest" in t and v for t, v in lits_)
        r.check(ok11, "R11", f"{rw.qualname}#alive-branch", "alive check requests must be answered in the reader task and not queued", loc=rw.loc)
    tr.reader_loop_total(r, "R11", rw, ("self._read_queue.put(", "self._diagnostic_message_queue.put(", "self.write_alive_check_response("))
    tr.queues_unbounded(m, r, "R11", conn, rw)
    tr.match_subject_total(m, r, "R11", m.require_function(f"{DOIP}.DoIPConnection._read_frame"))
    ac = m.require_function(f"{DOIP}.DoIPConnection.write_alive_check_response")
    r.check(any(isinstance(n, ast.Call) and ast.unparse(n.func) == "AliveCheckResponse" and
                any(ast.unparse(k.value) == "self.src_addr" for k in n.keywords) for n in ast.walk(ac.node)), "R11",
            f"{ac.qualname}#source-address", "the alive check response must carry the configured source address", loc=ac.loc)

    # the reply really goes out: header (AliveCheckResponse type) + payload are written in one buffer and drained, on every path
    ga = CFG(ac.node)
    hv = {n.targets[0].id for n in ast.walk(ac.node) if isinstance(n, ast.Assign) and isinstance(n.targets[0], ast.Name) and isinstance(n.value, ast.Call) and ast.unparse(n.value.func) == "GenericHeader"}
    pv = {n.targets[0].id for n in ast.walk(ac.node) if isinstance(n, ast.Assign) and isinstance(n.targets[0], ast.Name) and isinstance(n.value, ast.Call) and ast.unparse(n.value.func) == "AliveCheckResponse"}
    from sa.util import bytes_parts as _bp
    want_ac = [[f"{h_}.pack()", f"{p_}.pack()"] for h_ in hv for p_ in pv]
    wnodes = {n.id for n in ga.nodes.values() if n.kind == "stmt" and n.ast is not None and any(
        isinstance(x, ast.Call) and ast.unparse(x.func) == "self.writer.write" and len(x.args) == 1 and _bp(ac.node, x.args[0]) in want_ac for x in ast.walk(n.ast))}
    dnodes = {n.id for n in ga.nodes.values() if n.kind == "stmt" and n.ast is not None and "self.writer.drain()" in ast.unparse(n.ast)}
    okw_, _ = ga.must_pass(ga.entry, wnodes, {ga.exit_return}) if wnodes else (False, [])
    okd_, _ = ga.must_pass(ga.entry, dnodes, {ga.exit_return}) if dnodes else (False, [])
    r.check(okw_ and okd_, "R11", f"{ac.qualname}#written-and-drained", "the alive check response (header + payload) must be written and drained on every path", loc=ac.loc)
    hk = [k for n in ast.walk(ac.node) if isinstance(n, ast.Call) and ast.unparse(n.func) == "GenericHeader" for k in n.keywords]
    r.check(any(k.arg == "PayloadType" and ast.unparse(k.value) == "PayloadTypes.AliveCheckResponse" for k in hk), "R11", f"{ac.qualname}#payload-type",
            "the reply must be announced as AliveCheckResponse", loc=ac.loc)

    r.assumptions += ["asyncio.StreamReader.readexactly returns exactly n bytes or raises", "StreamWriter.write of one buffer is not interleaved with other writes"]
    r.not_decided += ["behaviour under all segmentations/interleavings (delegated to readexactly and the queue)", "timing values"]
