"""C18 Settings resolve CLI > env > file > default; a stored config re-creates the run (static clauses)."""
from __future__ import annotations

import ast

from sa.model import AnalysisError, ClassInfo, FuncInfo, Model, walk_no_nested
from sa.report import Report

TITLE = "Settings resolve CLI > env > file > default; a stored config re-creates the run"
CLI = "gallia.cli.gallia"
CFG = "gallia.command.config"
CONF = "gallia.config"
PARSERS = "gallia.pydantic_argparse.parsers"
PYD = "gallia.pydantic_argparse.utils.pydantic"
PARSER = "gallia.pydantic_argparse.argparse.parser"


def merge_order(fn: FuncInfo, target_text: str, m: Model) -> list[str] | None:
    """Order in which source maps are merged into the value stored at `target_text` (later entries win)."""
    env: dict[str, list[str]] = {}
    def val(e: ast.expr) -> list[str] | None:
        if isinstance(e, ast.Name):
            return list(env.get(e.id, [e.id]))
        if isinstance(e, ast.BinOp) and isinstance(e.op, ast.BitOr):
            a, b = val(e.left), val(e.right)
            return None if a is None or b is None else a + b
        if isinstance(e, ast.Dict) and all(k is None for k in e.keys):
            out: list[str] = []
            for v in e.values:
                x = val(v)
                if x is None:
                    return None
                out += x
            return out
        if isinstance(e, ast.Call) and ast.unparse(e.func) == "dict" and len(e.args) == 1:
            return val(e.args[0])
        if isinstance(e, ast.Call):
            return [ast.unparse(e)]
        return None
    result = None
    for st in fn.node.body:
        if isinstance(st, ast.Assign) and isinstance(st.targets[0], ast.Name):
            v = val(st.value)
            if v is not None:
                env[st.targets[0].id] = v
        elif isinstance(st, ast.Expr) and isinstance(st.value, ast.Call) and isinstance(st.value.func, ast.Attribute) and st.value.func.attr == "update" \
                and isinstance(st.value.func.value, ast.Name) and len(st.value.args) == 1:
            tgt = st.value.func.value.id
            v = val(st.value.args[0])
            if v is None:
                return None
            env[tgt] = env.get(tgt, [tgt]) + v
        elif isinstance(st, ast.Assign) and m.eqm(fn, st.targets[0], target_text):
            result = val(st.value)
    return result


def run(m: Model, r: Report, tier: str) -> None:
    r.rule("R1", "environment values override file values when the extra defaults of a command are built", floor=1)
    r.rule("R2", "all sibling field parsers apply required / default / const / dest; an extra default becomes the argparse default and lifts 'required'", floor=20)
    r.rule("R3", "file and environment lookups use the same field filter", floor=1)
    r.rule("R4", "key agreement: registry / template key format = file lookup key format; env name = GALLIA_<NAME>", floor=3)
    r.rule("R5", "stored configs re-create the run: non-JSON-native field types have serialisers; the dump is unfiltered", floor=5)
    r.rule("R6", "invalid values from file / env are reported with their source", floor=1)
    r.rule("R7", "a present but falsy file / env value (false, 0, '') counts as set", floor=3)
    r.rule("R8", "the per-option metadata (config section, positional, short name) that the env / file lookup keys on survives pydantic's model construction", floor=1)

    # ---------------------------------------------------------------- R1
    cp = m.require_function(f"{CLI}._create_parser_from_command")
    order = merge_order(cp, "extra_defaults[model_type]", m)
    names = {}
    for st in cp.node.body:
        if isinstance(st, ast.Assign) and isinstance(st.targets[0], ast.Name) and isinstance(st.value, ast.Call):
            t = ast.unparse(st.value.func)
            if t.endswith("attributes_from_config"):
                names[st.targets[0].id] = "file"
            elif t.endswith("attributes_from_env"):
                names[st.targets[0].id] = "env"
    if order is None or set(names.values()) != {"file", "env"}:
        raise AnalysisError(f"{cp.qualname}: cannot determine how file and environment attributes are merged ({order}, {names})")
    kinds = []
    for o in order:
        k = names.get(o)
        if k is None and "attributes_from_config" in o:
            k = "file"
        if k is None and "attributes_from_env" in o:
            k = "env"
        if k:
            kinds.append(k)
    r.check(kinds and kinds[-1] == "env" and "file" in kinds and kinds.index("file") < len(kinds) - 1 - kinds[::-1].index("env"), "R1", f"{cp.qualname}#merge-order",
            f"sources are merged in the order {kinds} (later wins): the GALLIA_<NAME> environment variable must override gallia.toml", loc=cp.loc)

    # ---------------------------------------------------------------- R2
    n_p = 0
    for name, mod in sorted(m.modules.items()):
        if not name.startswith(PARSERS + ".") or "parse_field" not in mod.functions:
            continue
        f = mod.functions["parse_field"]
        short = name.rsplit(".", 1)[1]
        if short in ("command",):
            continue
        n_p += 1
        src = ast.unparse(f.node)
        for helper in ("arg_required", "arg_default", "arg_const", "arg_dest"):
            r.check(f"args.update(field.{helper}())" in src, "R2", f"{f.qualname}#{helper}",
                    f"the {short} parser does not apply field.{helper}(): options of this kind ignore env/file defaults or stay required", loc=f.loc)
        adds = [n for n in ast.walk(f.node) if isinstance(n, ast.Call) and ast.unparse(n.func) == "parser.add_argument"]
        r.check(len(adds) == 1 and any(k.arg is None and ast.unparse(k.value) == "args" for k in adds[0].keywords), "R2", f"{f.qualname}#forwards-args",
                "the collected args must be forwarded to add_argument(**args)", loc=f.loc)
    if n_p < 5:
        raise AnalysisError(f"only {n_p} field parsers found")
    pf = m.require_class(f"{PYD}.PydanticField")
    ad = ast.unparse(pf.methods["arg_default"].node)
    ar = ast.unparse(pf.methods["arg_required"].node)
    r.check("{'default': self.extra_default[1]}" in ad and "self.extra_default is None" in ad, "R2", f"{pf.qualname}.arg_default#uses-extra-default",
            "the argparse default must be the value part of the extra default", loc=pf.loc)
    r.check("self.info.is_required() and self.extra_default is None" in ar, "R2", f"{pf.qualname}.arg_required#lifted-by-default",
            "an option with an env/file default must not stay required", loc=pf.loc)
    # both helpers as truth tables over (extra default present?, ArgFieldInfo?, positional?, required?)
    import itertools
    from sa import miniterp
    bad_d, bad_r = [], []
    for xd, isarg, pos, req in itertools.product([None, ("environment variable (GALLIA_X)", 5)], [True, False], [True, False], [True, False]):
        env = {"self.extra_default": xd, "self.info.positional": pos, "self.name": "x"}
        def oracle(call, env_, isarg=isarg, req=req):
            t = ast.unparse(call.func)
            if t == "isinstance" and ast.unparse(call.args[0]) == "self.info":
                return isarg
            if t == "self.info.is_required":
                return req
            return NotImplemented
        row = f"extra_default={'set' if xd else 'None'}, ArgFieldInfo={isarg}, positional={pos}, required={req}"
        ret, renv = miniterp.run_function(pf.methods["arg_default"].node, env, oracle)
        got = miniterp.eval_expr(ret.value, renv, oracle) if ret is not None and ret.value is not None else None
        want = {} if xd is None or (isarg and pos) else {"default": 5}
        if got != want:
            bad_d.append(f"{row} -> {got}")
        ret, renv = miniterp.run_function(pf.methods["arg_required"].node, env, oracle)
        got = miniterp.eval_expr(ret.value, renv, oracle) if ret is not None and ret.value is not None else None
        want = {} if (isarg and pos) else {"required": bool(req and xd is None)}
        if got != want:
            bad_r.append(f"{row} -> {got}")
    r.check(not bad_d, "R2", f"{pf.qualname}.arg_default#table", f"{bad_d[:3]}: an option (not a positional) with an env/file value must get exactly that value as argparse default", loc=pf.loc)
    r.check(not bad_r, "R2", f"{pf.qualname}.arg_required#table", f"{bad_r[:3]}: an option is required iff the field is required and no env/file value exists", loc=pf.loc)
    am = m.require_function(f"{PARSER}.ArgumentParser._add_model")
    r.check("field.extra_default = self.extra_defaults[model][field.name]" in ast.unparse(am.node), "R2", f"{am.qualname}#attaches-extra-default",
            "extra defaults must be attached to the field before it is parsed", loc=am.loc)

    # ---------------------------------------------------------------- R3 / R4 / R7
    gb = m.require_class(f"{CFG}.GalliaBaseModel")
    fc, fe = gb.methods["attributes_from_config"], gb.methods["attributes_from_env"]
    def field_loop(f: FuncInfo, what: str) -> tuple[ast.For, dict[str, str]]:
        """The loop over the model's fields and the roles of its two loop variables (attribute name, field info)."""
        for n in walk_no_nested(f.node):
            if isinstance(n, ast.For) and isinstance(n.target, ast.Tuple) and len(n.target.elts) == 2 and all(isinstance(e, ast.Name) for e in n.target.elts) \
                    and ast.unparse(n.iter) == what:
                return n, {n.target.elts[0].id: "NAME", n.target.elts[1].id: "INFO"}
        raise AnalysisError(f"{f.qualname}: loop `for name, info in {what}` not found")

    isc = gb.methods["__init_subclass__"]
    lc, rc = field_loop(fc, "cls.model_fields.items()")
    le, re_ = field_loop(fe, "cls.model_fields.items()")
    li, ri = field_loop(isc, "vars(cls).items()")

    def filt(f, loop, roles):
        return [m.mtext(f, n.test, roles) for n in loop.body if isinstance(n, ast.If) and "isinstance(INFO" in m.mtext(f, n.test, roles)]
    r.check(filt(fc, lc, rc) == filt(fe, le, re_) == ["isinstance(INFO, ConfigArgFieldInfo)"], "R3", f"{gb.qualname}#same-filter",
            f"file filter {filt(fc, lc, rc)} vs env filter {filt(fe, le, re_)}", loc=gb.loc)

    def key_defs(f, loop, roles) -> tuple[list[str], dict[str, str]]:
        """Assignments of a plain local from an (f-)string built from the loop variables: the lookup / registry key."""
        out, r2 = [], dict(roles)
        for n in ast.walk(loop):
            if isinstance(n, ast.Assign) and isinstance(n.targets[0], ast.Name) and any(isinstance(x, ast.JoinedStr) for x in ast.walk(n.value)) \
                    and "NAME" in m.mtext(f, n.value, roles):
                out.append(m.mtext(f, n.value, roles))
                r2[n.targets[0].id] = "KEY"
        return out, r2
    reg_key, ri = key_defs(isc, li, ri)
    look_key, rc = key_defs(fc, lc, rc)
    r.check(len(reg_key) == 1 and len(look_key) == 1 and reg_key[0] == look_key[0], "R4", f"{gb.qualname}#key-format",
            f"registry key `{reg_key}` vs lookup key `{look_key}`: the template would list options under keys the loader does not read", loc=gb.loc)
    env_key, re_ = key_defs(fe, le, re_)
    r.check(env_key == ["f'GALLIA_{NAME.upper()}'"], "R4", f"{fe.qualname}#env-name", f"environment variable name is {env_key}", loc=fe.loc)
    # every option with a config section ends up in the registry the template is printed from: on every path (including the handler
    # that re-creates the write-protected registry) a store of the key completes before the next field is looked at
    from sa.cfg import CFG as _CFG
    gi = _CFG(isc.node)
    key_nodes = [n.id for n in gi.nodes.values() if n.kind == "stmt" and isinstance(n.ast, ast.Assign) and isinstance(n.ast.targets[0], ast.Name) and n.ast.targets[0].id in
                 {k for k, v in ri.items() if v == "KEY"}]
    store_nodes = {n.id for n in gi.nodes.values() if n.kind == "stmt" and isinstance(n.ast, ast.Assign) and isinstance(n.ast.targets[0], ast.Subscript)
                   and "__config_registry" in ast.unparse(n.ast.targets[0].value) and m.mtext(isc, n.ast.targets[0].slice, ri) == "KEY"}
    heads = {n.id for n in gi.nodes.values() if n.kind == "loop" and n.ast is li} | {gi.exit_return}
    if not key_nodes or not store_nodes:
        raise AnalysisError(f"{isc.qualname}: registry key computation / store not found")
    okreg, preg = True, []
    for kn_ in key_nodes:
        ok1_, p1_ = gi.must_pass(kn_, store_nodes, heads, completed=True)
        if not ok1_:
            okreg, preg = False, p1_
    r.check(okreg, "R4", f"{isc.qualname}#always-registered",
            "an option can leave the registration block without having been stored in the registry (the template then does not list a key the file lookup reads): "
            + " -> ".join(repr(gi.nodes[p_]) for p_ in preg[-4:]), loc=isc.loc)
    tp = m.require_function(f"{CLI}.template")
    # the grouping loop of template(), evaluated per registry key: [section] is everything before the last dot, the attribute the rest
    from sa import miniterp as _mtt
    tloops = [n for n in tp.node.body if isinstance(n, ast.For) and "registry()" in ast.unparse(n.iter) and isinstance(n.target, ast.Tuple) and len(n.target.elts) == 2]
    gvars = [n.targets[0].id if isinstance(n, ast.Assign) else n.target.id for n in tp.node.body
             if isinstance(n, (ast.Assign, ast.AnnAssign)) and isinstance(n.value, ast.Dict) and not n.value.keys and isinstance(n.targets[0] if isinstance(n, ast.Assign) else n.target, ast.Name)]
    if len(tloops) != 1 or len(gvars) != 1:
        r.unrecognised("R4", f"{tp.qualname}#groups", "the loop over GalliaBaseModel.registry().items() / the group map was not found", tp.loc)
    else:
        kv_, vv_ = (e_.id for e_ in tloops[0].target.elts)
        badg, unkg = [], None
        try:
            for key_, want_ in (("uds.ecu_reset", {"uds": {"ecu_reset": "V"}}), ("gallia.scanner.x", {"gallia.scanner": {"x": "V"}}), ("plain", {"": {"plain": "V"}})):
                env_ = {gvars[0]: {}, kv_: key_, vv_: "V"}
                _mtt.exec_body(tloops[0].body, env_)
                if env_[gvars[0]] != want_:
                    badg.append(f"{key_!r} -> {env_[gvars[0]]!r}")
            # two keys of one section end up in the same table
            env_ = {gvars[0]: {}, vv_: "V"}
            for key_ in ("uds.a", "uds.b"):
                env_[kv_] = key_
                _mtt.exec_body(tloops[0].body, env_)
            if env_[gvars[0]] != {"uds": {"a": "V", "b": "V"}}:
                badg.append(f"'uds.a', 'uds.b' -> {env_[gvars[0]]!r}")
        except (AnalysisError, _mtt.Raised) as ex_:
            unkg = str(ex_)
        r.check3(None if unkg else not badg, "R4", f"{tp.qualname}#groups", f"{badg[:3]}: the template must print every registry key as [section] / attribute", loc=tp.loc,
                 unknown_msg=f"grouping loop outside the evaluated language: {unkg}")
    gv = m.require_function(f"{CONF}.Config.get_value")
    # the final answer, decided over the looked-up value in {None, False, 0, '', 'x'}: the default exactly for None
    from sa.util import path_condition as _pcg, truth_table as _ttg
    dpar = gv.params()[2] if len(gv.params()) > 2 else "default"
    loops_g = [n for n in walk_no_nested(gv.node) if isinstance(n, (ast.For, ast.While))]
    final_rets = [n for n in walk_no_nested(gv.node) if isinstance(n, ast.Return) and n.value is not None and not any(n is x for l_ in loops_g for x in ast.walk(l_))]
    vals_ = sorted({x.id for n in final_rets for x in ast.walk(n.value) if isinstance(x, ast.Name) and x.id != dpar})
    if len(vals_) != 1 or not final_rets:
        r.unrecognised("R7", f"{gv.qualname}#falsy-values", f"final return(s) of get_value read {vals_}", gv.loc)
    else:
        badf = []
        for n in final_rets:
            txt_ = ast.unparse(n.value)
            if txt_ not in (dpar, vals_[0]):
                badf.append(f"returns `{txt_}`")
                continue
            badf += _ttg(_pcg(gv.node, n), {vals_[0]: [None, False, 0, "", "x"]}, (lambda a: a[vals_[0]] is None) if txt_ == dpar else (lambda a: a[vals_[0]] is not None))
        r.check(not badf, "R7", f"{gv.qualname}#falsy-values",
                f"get_value answers wrongly on {badf}: values such as false, 0 or '' in gallia.toml must not be treated as absent", loc=gv.loc)
    # descending into the nested tables: the default is returned early exactly when the path left the tables (current level is None)
    from sa.util import path_condition as _pc18, truth_table as _tt18
    gv_loops = [n for n in walk_no_nested(gv.node) if isinstance(n, ast.For)]
    early = [n for l_ in gv_loops for n in ast.walk(l_) if isinstance(n, ast.Return) and n.value is not None and ast.unparse(n.value) == "default"]
    if len(gv_loops) != 1 or len(early) != 1:
        raise AnalysisError(f"{gv.qualname}: descent loop / early default return not found")
    conds_e = [(t, p_) for t, p_ in _pc18(gv.node, early[0])]
    atoms_e = sorted({x.id for t, _ in conds_e for x in ast.walk(t) if isinstance(x, ast.Name)})
    atoms_e = [a_ for a_ in atoms_e if a_ not in ("isinstance", "dict", "len", "type")]
    looked0 = {n.targets[0].id for n in ast.walk(gv_loops[0]) if isinstance(n, ast.Assign) and isinstance(n.targets[0], ast.Name) and isinstance(n.value, ast.Call)
               and isinstance(n.value.func, ast.Attribute) and n.value.func.attr == "get"}
    bad_e = None
    if len(atoms_e) == 1:
        try:
            if atoms_e[0] in looked0:
                # the test is made on the entry just looked up: the default is returned exactly when that entry is no table
                bad_e = _tt18(conds_e, {atoms_e[0]: [None, 0, "x", {"k": 1}]}, lambda a: not isinstance(a[atoms_e[0]], dict))
            else:
                bad_e = _tt18(conds_e, {atoms_e[0]: [None, {"k": 1}]}, lambda a: a[atoms_e[0]] is None)
        except AnalysisError:
            bad_e = None
    r.check3(None if bad_e is None else not bad_e, "R7", f"{gv.qualname}#descent", f"the default is returned early on {bad_e}: it must be returned exactly when the current table is missing (None)", loc=gv.loc)
    # the table variable (the one the early return tests) after a step: the looked-up value if that is a dict, else None
    from sa.util import choice_table as _ct18
    looked = sorted({n.targets[0].id for n in ast.walk(gv_loops[0]) if isinstance(n, ast.Assign) and isinstance(n.targets[0], ast.Name) and isinstance(n.value, ast.Call)
                     and isinstance(n.value.func, ast.Attribute) and n.value.func.attr == "get"})
    if len(atoms_e) == 1 and len(looked) == 1 and atoms_e[0] == looked[0]:
        # the looked-up entry itself is tested and becomes the next table (`if not isinstance(entry, dict): return default; table = entry`): decided by #descent
        r.ok("R7", f"{gv.qualname}#descent-step", "the entry is tested before it becomes the next table")
    elif len(atoms_e) != 1 or len(looked) != 1:
        r.unrecognised("R7", f"{gv.qualname}#descent-step", f"table variable {atoms_e} / looked-up value {looked}", gv.loc)
    else:
        tv_, lv_ = atoms_e[0], looked[0]
        body_fn = ast.FunctionDef(name="_step", args=ast.arguments(posonlyargs=[], args=[], kwonlyargs=[], kw_defaults=[], defaults=[]),
                                  body=[s_ for s_ in gv_loops[0].body if not (isinstance(s_, ast.If) and any(x is early[0] for x in ast.walk(s_)))], decorator_list=[], lineno=0, col_offset=0)
        tstep = _ct18(body_fn, tv_, {lv_: [None, 0, "x", {"k": 1}]})
        bads = {repr(k_[0]): v_ for k_, v_ in tstep.items() if v_ != (lv_ if str(k_[0]).startswith("{") else "None")}
        r.check(not bads, "R7", f"{gv.qualname}#descent-step", f"after looking up a part the next table is {bads} (looked-up value -> source): it must be the looked-up value "
                "if that is a dict, else None", loc=gv.loc)
    r.check("(_L := config.get_value(KEY)) is not None" in m.mtext(fc, None, rc), "R7", f"{fc.qualname}#present-test", "file values must be tested with `is not None`", loc=fc.loc)
    r.check("(_L := os.getenv(KEY)) is not None" in m.mtext(fe, None, re_), "R7", f"{fe.qualname}#present-test", "env values must be tested with `is not None`", loc=fe.loc)

    # ---------------------------------------------------------------- R5
    n_idem = 0
    for c in m.subclasses(gb, strict=True):
        for fname, ann in c.class_annots.items():
            if "Idempotent[" not in ast.unparse(ann):
                continue
            n_idem += 1
            has = False
            for k in m.mro(c):
                for f in k.methods.values():
                    for d in f.node.decorator_list:
                        if isinstance(d, ast.Call) and ast.unparse(d.func) == "field_serializer" and any(isinstance(a, ast.Constant) and a.value == fname for a in d.args):
                            has = True
            r.check(has, "R5", f"{c.qualname}.{fname}#serializer",
                    f"{fname}: {ast.unparse(ann)} has no field_serializer: model_dump_json() cannot store it and the run cannot be re-created", loc=c.loc)
    if n_idem < 3:
        raise AnalysisError(f"only {n_idem} Idempotent fields found")
    cmod = m.module(CFG)
    hb = cmod.assigns.get("HexBytes")
    r.check(hb is not None and "BeforeValidator" in ast.unparse(hb) and "PlainSerializer" in ast.unparse(hb) and "binascii.unhexlify" in ast.unparse(hb)
            and "binascii.hexlify" in ast.unparse(hb), "R5", f"{CFG}.HexBytes#round-trip", "HexBytes needs the unhexlify validator and the hexlify serialiser", loc=cmod.relpath)
    init = m.require_function("gallia.command.base.BaseCommand.__init__")
    cfg_exprs = [ast.unparse(kw.value) for n in ast.walk(init.node) if isinstance(n, ast.Call) and ast.unparse(n.func) == "RunMeta" for kw in n.keywords if kw.arg == "config"]
    r.check(cfg_exprs == ["json.loads(config.model_dump_json())"], "R5", f"{init.qualname}#unfiltered-dump",
            f"META.json config is {cfg_exprs}: options left at a per-process computed default (e.g. a random seed) must be stored too", loc=init.loc)
    dumps_ = []
    for fq in ("gallia.command.base.BaseCommand.__init__", "gallia.db.handler.DBHandler.insert_run_meta"):
        f_ = m.require_function(fq)
        cs_ = [n for n in ast.walk(f_.node) if isinstance(n, ast.Call) and isinstance(n.func, ast.Attribute) and n.func.attr in ("model_dump_json", "model_dump")]
        dumps_.append((fq, cs_))
        r.check(len(cs_) == 1 and not cs_[0].args and not cs_[0].keywords, "R5", f"{fq}#full-dump",
                f"the stored configuration is dumped with {[ast.unparse(c) for c in cs_]}: both copies (META.json and run_meta.config in the database, which `script rerun --id` reads) "
                "must contain every option; exclude_* drops options left at a default that is computed per process", loc=f_.loc)
    rer = m.require_function("gallia.commands.script.rerun.Rerunner.main")
    # HexBytes serialises itself (hexlify): a model-wide bytes representation on top of it encodes twice, and the stored text still unhexlifies - to other bytes
    n_cfgdict = 0
    for mod_ in m.modules.values():
        if not mod_.name.startswith("gallia."):
            continue
        for n in ast.walk(mod_.tree):
            if isinstance(n, ast.Call) and ast.unparse(n.func) in ("ConfigDict", "pydantic.ConfigDict"):
                n_cfgdict += 1
                bad_keys = [k.arg for k in n.keywords if k.arg in ("ser_json_bytes", "val_json_bytes")]
                r.check(not bad_keys, "R5", f"{mod_.name}#model-config@{n.lineno}", f"ConfigDict sets {bad_keys}: bytes options (HexBytes) already carry their own hexlify serialiser / "
                        "unhexlify validator, so the stored value is encoded twice ('aabb' -> '61616262') and a rerun silently uses other bytes", loc=f"{mod_.relpath}:{n.lineno}")
    if n_cfgdict < 1:
        raise AnalysisError("no ConfigDict(...) found in gallia (BaseCommandConfig.model_config)")
    from sa.uds_rules import ranges_validator_accepts_stored_form, dddi_sources_accept_stored_form
    ranges_validator_accepts_stored_form(m, r, "R5")
    dddi_sources_accept_stored_form(m, r, "R5")
    r.check("gallia_class.CONFIG_TYPE(**config)" in ast.unparse(rer.node), "R5", f"{rer.qualname}#reinstantiate", "the rerunner must re-instantiate CONFIG_TYPE from the stored mapping", loc=rer.loc)

    # ---------------------------------------------------------------- R6
    ve = [f for f in m.require_class(f"{PARSER}.ArgumentParser").methods.values() if "extra_defaults[_L][_L][0]" in m.mtext(f)]
    r.check(len(ve) == 1 and "default of {_L} from" in m.mtext(ve[0]), "R6", f"{PARSER}.ArgumentParser#names-source",
            "validation errors of env/file defaults must name their source", loc=ve[0].loc if ve else "")
    if len(ve) == 1:
        src_ifs = [n for n in ast.walk(ve[0].node) if isinstance(n, ast.If) and "extra_defaults" in ast.unparse(n.test)
                   and any("extra_defaults" in ast.unparse(x) and "[0]" in ast.unparse(x) for b_ in n.body for x in ast.walk(b_) if isinstance(x, ast.Subscript))]
        okv = False
        if len(src_ifs) == 1:
            conj = src_ifs[0].test.values if isinstance(src_ifs[0].test, ast.BoolOp) and isinstance(src_ifs[0].test.op, ast.And) else [src_ifs[0].test]
            for c in conj:
                if isinstance(c, ast.Compare) and len(c.ops) == 1 and isinstance(c.ops[0], ast.Eq):
                    sides = {m.mtext(ve[0], c.left), m.mtext(ve[0], c.comparators[0])}
                    if any(x.endswith("[1]") and "extra_defaults" in x for x in sides) and any(x.endswith("['input']") for x in sides):
                        okv = True
        r.check(okv, "R6", f"{ve[0].qualname}#blames-only-the-failing-source",
                "the env/file source is named although the failing input is not compared with the env/file default: an invalid command-line value is then "
                "reported as coming from the environment variable / config file whenever the option also has a (valid) value there", loc=ve[0].loc)
        # the complete decision table of that test: the env / file source is blamed exactly when an extra default exists for this model and option and equals the failing input
        if len(src_ifs) == 1:
            from sa import miniterp as _mt18
            t_ = src_ifs[0].test
            ed = next((ast.unparse(x) for x in ast.walk(t_) if isinstance(x, ast.Attribute) and x.attr == "extra_defaults"), None)
            mvar = avar = evar = None
            for x in ast.walk(t_):
                if isinstance(x, ast.Subscript) and isinstance(x.slice, ast.Name):
                    if ast.unparse(x.value) == ed:
                        mvar = x.slice.id
                    elif isinstance(x.value, ast.Subscript) and ast.unparse(x.value.value) == ed:
                        avar = x.slice.id
                if isinstance(x, ast.Subscript) and isinstance(x.slice, ast.Constant) and x.slice.value == "input" and isinstance(x.value, ast.Name):
                    evar = x.value.id
            if None in (ed, mvar, avar, evar):
                raise AnalysisError(f"{ve[0].qualname}: cannot identify the operands of `{ast.unparse(t_)[:80]}`")
            rows = []
            for edv, want in ((None, False), ({}, False), ({"M": {}}, False), ({"M": {"opt": ("file", "v")}}, True), ({"M": {"opt": ("file", "other")}}, False),
                              ({"N": {"opt": ("file", "v")}}, False), ({"M": {"other": ("file", "v")}}, False)):
                try:
                    got = bool(_mt18.eval_expr(t_, {ed: edv, mvar: "M", avar: "opt", evar: {"input": "v"}}))
                except _mt18.Raised:
                    got = "raises"
                if got != want:
                    rows.append(f"extra_defaults={edv!r} -> {got}")
            r.check(not rows, "R6", f"{ve[0].qualname}#source-decision", f"for the failing input 'v' of option 'opt' of model 'M' the env/file source is blamed on {rows[:3]}: it must be "
                    "blamed exactly when an extra default for this model and option exists and is the failing input", loc=ve[0].loc)
    r.check("f'{source} ({INFO.config_section}:{NAME})'" in m.mtext(fc, None, rc) and "f'environment variable ({KEY})'" in m.mtext(fe, None, re_), "R6",
            f"{gb.qualname}#source-labels", "each extra default must carry a label of its source", loc=gb.loc)

    # ---------------------------------------------------------------- R8
    cfgm = m.module(CFG)
    aliases = {k for k, v in cfgm.assigns.items() if ast.unparse(v).startswith(("Annotated[", "_TrickType("))}
    if len(aliases) < 5:
        raise AnalysisError(f"{CFG}: Annotated aliases (AutoInt, HexBytes, Idempotent, ...) not found")
    affected = []
    n_fields = 0
    for c in m.subclasses(gb):
        for fname, ann in c.class_annots.items():
            dflt = c.class_attrs.get(fname)
            if not (isinstance(dflt, ast.Call) and ast.unparse(dflt.func) == "Field"):
                continue
            n_fields += 1
            top = ann.value if isinstance(ann, ast.Subscript) else ann
            if ast.unparse(top).split(".")[-1] in aliases:
                affected.append(f"{c.name}.{fname}: {ast.unparse(ann)}")
    if n_fields < 100:
        raise AnalysisError(f"only {n_fields} option fields found")
    lookups_by_class = all(m.mtext(f_, None, ro_).count("isinstance(INFO, ConfigArgFieldInfo)") >= 1 for f_, ro_ in ((fc, rc), (fe, re_)))
    r.check(not (affected and lookups_by_class), "R8", f"{gb.qualname}#annotated-alias-fields",
            f"{len(affected)} of {n_fields} options are annotated with a bare Annotated alias and get their metadata from Field(...) (e.g. {affected[:4]}): pydantic merges the alias' "
            "metadata with the default into a new plain FieldInfo, so `isinstance(info, ConfigArgFieldInfo)` is False for them in cls.model_fields and their GALLIA_<NAME> variable "
            "and gallia.toml entry are never looked up (options typed `X | None` keep the subclass)", loc=gb.loc)

    r.assumptions += ["argparse: explicit command-line values override parser defaults; pydantic validation semantics",
                      "pydantic (observed with the installed 2.13.5): a field whose annotation is an Annotated alias and whose default is a FieldInfo subclass instance is stored in "
                      "model_fields as a plain FieldInfo (merge_field_infos)"]
    r.not_decided += ["per-option precedence for all 16 source combinations (pydantic / argparse runtime)"]
