"""C08 Connection loss surfaces as a bounded-time error and the next attempt recovers (static clauses)."""
from __future__ import annotations

import ast

from sa import transport_rules as tr
from sa.callgraph import CallGraph
from sa.cfg import CFG
from sa.locks import LockModel
from sa.model import AnalysisError, ClassInfo, FuncInfo, Model, walk_no_nested
from sa.report import Report

TITLE = "Connection loss surfaces as a bounded-time error and the next attempt recovers"
BASE = "gallia.transports.base"
DOIP = "gallia.transports.doip"
HSFZ = "gallia.transports.hsfz"
CLIENT = "gallia.services.uds.core.client"
ECU = "gallia.services.uds.ecu"


def awaits(fn: FuncInfo) -> list[ast.Await]:
    return [n for n in walk_no_nested(fn.node) if isinstance(n, ast.Await)]


def closed_flag(m: Model, conn_q: str) -> str:
    """The connection's closed flag by role: the private attribute its close() sets to True (renaming it is invisible to the rules)."""
    c = m.require_class(conn_q)
    cl = c.methods.get("close")
    if cl is None:
        raise AnalysisError(f"{conn_q}.close vanished")
    flags = sorted({n.targets[0].attr for n in ast.walk(cl.node) if isinstance(n, ast.Assign) and isinstance(n.targets[0], ast.Attribute) and ast.unparse(n.targets[0].value) == "self"
                    and isinstance(n.value, ast.Constant) and n.value.value is True})
    if len(flags) != 1:
        raise AnalysisError(f"{conn_q}.close: closed flag not found ({flags})")
    return flags[0]



def run(m: Model, r: Report, tier: str) -> None:
    r.rule("R1", "every stream / queue wait reachable from a transport's read or write is bounded by the caller's timeout, "
                 "and a waiter already blocked on the frame queue is woken when the reader task ends", floor=10)
    r.rule("R2", "every exit path of a reader task marks the connection closed", floor=2)
    r.rule("R3", "the closed flag is tested before waiting on the frame queue", floor=2)
    r.rule("R4", "ack timeout => close => BrokenPipeError (DoIP and HSFZ)", floor=4)
    r.rule("R5", "reconnect protocol: close, then connect until the timeout, retrying on any ConnectionError; the client adopts the new transport", floor=6)
    r.rule("R6", "close() is idempotent: a closed flag is set before the first await, or the body only uses idempotent primitives", floor=6)
    r.rule("R8", "a frame cut short by the peer is never delivered: both frame readers take every part of a frame with readexactly (a short read raises "
           "IncompleteReadError instead of returning a truncated payload)", floor=4)
    import struct as _struct
    tr.consumption(m, r, "R8", m.require_function(f"{DOIP}.DoIPConnection._read_frame"), _struct.calcsize("!BBHL"))
    tr.consumption(m, r, "R8", m.require_function(f"{HSFZ}.HSFZConnection._read_frame"), _struct.calcsize("!IH"))
    r.rule("R7", "the client turns connection loss into MissingResponse with cause, reconnects if retries remain, and maps an empty read to a connection error", floor=4)

    cg = CallGraph(m)
    lm = LockModel(m, cg)
    base = m.require_class(f"{BASE}.BaseTransport")

    # ---------------------------------------------------------------- R1
    io_impls: list[FuncInfo] = []
    for q in (f"{BASE}.LinesTransportMixin", "gallia.transports.tcp.TCPTransport", "gallia.transports.unix.UnixTransport",
              f"{DOIP}.DoIPTransport", f"{HSFZ}.HSFZTransport"):
        c = m.require_class(q)
        for name in ("read", "write"):
            f = c.methods.get(name)
            if f is None:
                raise AnalysisError(f"{q}.{name} vanished")
            io_impls.append(f)
    for f in io_impls:
        bad = []
        for a in awaits(f):
            v = a.value
            if isinstance(v, ast.Call) and ast.unparse(v.func) == "asyncio.wait_for":
                t = v.args[1] if len(v.args) >= 2 else next((k.value for k in v.keywords if k.arg == "timeout"), None)
                if t is None or ast.unparse(t) != "timeout":
                    bad.append(f"line {a.lineno}: wait_for timeout is {ast.unparse(t) if t is not None else None}, not the caller's timeout")
            else:
                bad.append(f"line {a.lineno}: `{ast.unparse(a)[:60]}` is awaited without the caller's timeout")
        r.check(not bad, "R1", f"{f.qualname}#bounded", "; ".join(bad) + ": a silent or vanished peer blocks the caller beyond its timeout", loc=f.loc)
    # queue waiters vs reader-task exit
    for cq, worker_name, flag in ((f"{DOIP}.DoIPConnection", "_read_worker", closed_flag(m, f"{DOIP}.DoIPConnection")), (f"{HSFZ}.HSFZConnection", "_read_worker", closed_flag(m, f"{HSFZ}.HSFZConnection"))):
        conn = m.require_class(cq)
        worker = conn.methods[worker_name]
        q = lm.key_for(conn, "_read_queue", lm.queues)
        # does the reader task (or close(), which it calls) wake a waiter: put a sentinel into the queue or cancel waiters?
        reach = cg.reachable([worker])
        wakes = False
        fin_calls_close = False
        for t in ast.walk(worker.node):
            if isinstance(t, ast.Try):
                for s in t.finalbody:
                    if "self.close()" in ast.unparse(s):
                        fin_calls_close = True
                    if "_read_queue.put" in ast.unparse(s) or "put_nowait" in ast.unparse(s):
                        wakes = True
                for h in t.handlers:
                    if h.type is not None and "IncompleteReadError" in ast.unparse(h.type) and any("_read_queue.put" in ast.unparse(s) for s in h.body):
                        wakes = True
        close = conn.methods.get("close")
        if close is not None and fin_calls_close and any("_read_queue.put" in ast.unparse(n) or "shutdown" in ast.unparse(n) for n in ast.walk(close.node)):
            wakes = True
            # close() runs inside the reader task it cancels (called from the task's finally): the first await in close() raises CancelledError there, so
            # only what happens before the first await is certain to happen - the wake-up markers must be put before it
            gcl = CFG(close.node)
            mark_n = {n.id for n in gcl.nodes.values() if n.kind == "stmt" and n.ast is not None and "_read_queue.put" in ast.unparse(n.ast)}
            await_n = {n.id for n in gcl.nodes.values() if n.ast is not None and n.kind in ("stmt", "cond", "return") and any(isinstance(x, ast.Await) for x in ast.walk(n.ast))}
            early, _pe = gcl.must_pass(gcl.entry, mark_n, await_n) if mark_n and await_n else (bool(mark_n), [])
            r.check(early, "R1", f"{close.qualname}#markers-before-first-await", "the wake-up markers are put after an await of close(): when close() is called from the reader task's "
                    "finally it cancels that very task, the await raises CancelledError and the markers are never put - a read pending at EOF waits forever", loc=close.loc)
        for f in conn.methods.values():
            for k, n in lm.queue_ops(f, "get"):
                if k != q:
                    continue
                r.check(wakes, "R1", f"{f.qualname}#woken-on-eof",
                        f"a caller blocked in {ast.unparse(n)} (no caller timeout) is never woken when {worker.qualname} ends on EOF/reset: "
                        "nothing is put into the queue and the waiter is not cancelled", loc=f"{f.module.relpath}:{n.lineno}")
        # the wake-up marker close() puts into a queue is recognised by every waiter: the awaited value is tested against None and that branch raises
        marker_queues = {ast.unparse(n.func.value) for n in ast.walk(close.node) if isinstance(n, ast.Call) and isinstance(n.func, ast.Attribute)
                         and n.func.attr == "put_nowait" and n.args and isinstance(n.args[0], ast.Constant) and n.args[0].value is None} if close is not None else set()
        for f in conn.methods.values():
            for n in walk_no_nested(f.node):
                if not (isinstance(n, ast.Assign) and isinstance(n.value, ast.Await) and isinstance(n.value.value, ast.Call) and isinstance(n.value.value.func, ast.Attribute)
                        and n.value.value.func.attr == "get" and ast.unparse(n.value.value.func.value) in marker_queues and isinstance(n.targets[0], ast.Name)):
                    continue
                v_ = n.targets[0].id
                gfn = CFG(f.node)
                start = [x.id for x in gfn.nodes.values() if x.kind == "stmt" and x.ast is n]
                tests_ = [x for x in gfn.nodes.values() if x.kind == "cond" and x.ast is not None and ast.unparse(x.ast) in (f"{v_} is None", f"{v_} is not None")]

                def value_edge(node, b, k, _v=v_, _g=gfn):
                    # remove the branches taken for a real frame: what stays reachable is what happens for the marker
                    if node.kind != "cond" or node.ast is None or k != "n":
                        return False
                    normal = [x for x, kk in _g.succ[node.id] if kk == "n"]
                    if len(normal) != 2:
                        return False
                    txt = ast.unparse(node.ast)
                    return (txt == f"{_v} is None" and b == normal[1]) or (txt == f"{_v} is not None" and b == normal[0])
                okm_ = bool(start) and bool(tests_) and gfn.must_pass(start[0], set(), {gfn.exit_return}, skip_edge=value_edge)[0]
                r.check(okm_, "R1", f"{f.qualname}#marker-raises", f"the value awaited from {ast.unparse(n.value.value.func.value)} can be the wake-up marker None put by close(): "
                        "it must be tested and must end in an exception, never be returned as a frame", loc=f"{f.module.relpath}:{n.lineno}")
                # ... and the exception is one the UDS client understands as a lost connection (it reconnects and retries on ConnectionError only)
                if start:
                    seen_, todo_ = {start[0]}, [start[0]]
                    while todo_:
                        cur_ = todo_.pop()
                        for b_, k_ in gfn.succ.get(cur_, []):
                            if k_ != "n" or b_ in seen_ or value_edge(gfn.nodes[cur_], b_, k_):
                                continue
                            seen_.add(b_)
                            todo_.append(b_)
                    raised = [x.ast for i_ in seen_ for x in [gfn.nodes[i_]] if x.kind == "raise" and isinstance(x.ast, ast.Raise) and x.ast.exc is not None]
                    names_ = [ast.unparse(x.exc.func if isinstance(x.exc, ast.Call) else x.exc) for x in raised]
                    fam = {"ConnectionError", "BrokenPipeError", "ConnectionResetError", "ConnectionAbortedError", "ConnectionRefusedError"}
                    r.check(bool(names_) and all(nm in fam for nm in names_), "R1", f"{f.qualname}#marker-error-kind",
                            f"a waiter woken by close() ends with {names_}: it must be a ConnectionError (the UDS client turns only that into reconnect + MissingResponse; "
                            "any other error is passed through to the caller of the request)", loc=f"{f.module.relpath}:{n.lineno}")
        # R2
        g = CFG(worker.node)
        marks = {n.id for n in g.nodes.values() if n.ast is not None and n.kind == "stmt" and
                 ("self.close()" in ast.unparse(n.ast) or f"self.{flag} = True" in ast.unparse(n.ast))}
        # exceptions raised by the cleanup statements of the finally block itself are not considered
        ok, path = g.must_pass(g.entry, marks, {g.exit_return, g.exit_raise},
                               skip_edge=lambda n, b, k: k == "exc" and "finally" in n.copy and n.kind == "stmt")
        r.check(bool(marks) and ok, "R2", f"{worker.qualname}#marks-closed",
                "the reader task can end (EOF, reset, unexpected exception) without closing the connection or setting the closed flag: "
                "later reads wait on a queue nobody feeds" + ((": " + " -> ".join(repr(g.nodes[p]) for p in path[-3:])) if path else ""), loc=worker.loc)
    # R3
    for fq, flag in ((f"{DOIP}.DoIPConnection.read_frame_unsafe", closed_flag(m, f"{DOIP}.DoIPConnection")), (f"{HSFZ}.HSFZConnection.read_frame", closed_flag(m, f"{HSFZ}.HSFZConnection"))):
        f = m.require_function(fq)
        # with the flag set, neither the wait on the queue nor a normal return is reachable (paths through the CFG with the flag-clear branches removed)
        gets = [n for n in ast.walk(f.node) if isinstance(n, ast.Call) and ast.unparse(n.func).endswith("_read_queue.get")]
        if len(gets) != 1:
            raise AnalysisError(f"{fq}: expected one wait on the frame queue, found {len(gets)}")
        gf = CFG(f.node)
        get_nodes = {n.id for n in gf.nodes.values() if n.ast is not None and n.kind in ("stmt", "return") and any(x is gets[0] for x in ast.walk(n.ast))}
        tests = [n for n in gf.nodes.values() if n.kind == "cond" and n.ast is not None and ast.unparse(n.ast) in (f"self.{flag}", f"not self.{flag}")]
        if not get_nodes:
            raise AnalysisError(f"{fq}: the wait on the frame queue is not a statement of the function")

        def clear_edge(node, b, k, _flag=flag, _g=gf):
            if node.kind != "cond" or node.ast is None or k != "n":
                return False
            normal = [x for x, kk in _g.succ[node.id] if kk == "n"]
            if len(normal) != 2:
                return False
            txt = ast.unparse(node.ast)
            if txt == f"self.{_flag}":
                return b == normal[1]
            if txt == f"not self.{_flag}":
                return b == normal[0]
            return False
        no_wait, _p1 = gf.must_pass(gf.entry, set(), get_nodes, skip_edge=clear_edge)
        no_return, _p2 = gf.must_pass(gf.entry, set(), {gf.exit_return}, skip_edge=clear_edge)
        r.check(bool(tests) and no_wait and no_return, "R3", f"{fq}#closed-check",
                f"on a closed connection (self.{flag} set) the function must raise without waiting on the queue (flag tested: {bool(tests)}, wait unreachable: {no_wait}, "
                f"no normal return: {no_return})", loc=f.loc)

    # ---------------------------------------------------------------- R4
    tr.ack_timeout_handler(m, r, "R4", m.require_function(f"{DOIP}.DoIPConnection.write_request_raw"), "self._read_ack")
    tr.ack_timeout_handler(m, r, "R4", m.require_function(f"{HSFZ}.HSFZConnection.write_diag_request_raw"), "self._read_ack")

    tr.hsfz_ack_timeout_units(m, r, "R4")
    if tr.doip_timing_units(m, r, "R4") < 2:
        raise AnalysisError("DoIP waits derived from TimingAndCommunicationParameters not found")

    # ---------------------------------------------------------------- R5
    rc = m.require_function(f"{BASE}.BaseTransport.reconnect")
    txt = ast.unparse(rc.node)
    close_ln = [n.lineno for n in ast.walk(rc.node) if isinstance(n, ast.Call) and ast.unparse(n.func) == "self.close"]
    conn_ln = [n.lineno for n in ast.walk(rc.node) if isinstance(n, ast.Call) and ast.unparse(n.func) == "self.connect"]
    r.check(bool(close_ln) and bool(conn_ln) and max(close_ln) < min(conn_ln), "R5", f"{rc.qualname}#close-then-connect",
            "reconnect must close the old connection before connecting", loc=rc.loc)
    loops = [n for n in walk_no_nested(rc.node) if isinstance(n, ast.While)]
    hs = [h for l in loops for t in ast.walk(l) if isinstance(t, ast.Try) for h in t.handlers]
    htypes = [ast.unparse(h.type) if h.type is not None else "<bare>" for h in hs]
    r.check(len(loops) == 1 and htypes == ["ConnectionError"], "R5", f"{rc.qualname}#retry-on-connection-error",
            f"the connect loop retries on {htypes}; every ConnectionError (refused, reset, broken pipe from a half-started gateway) "
            "must lead to another attempt until the timeout", loc=rc.loc)
    from sa.util import path_condition, truth_table
    # (named conditions such as `give_up = timeout is None` are resolved first)
    from sa.util import subst_locals as _slr
    rc_res = _slr(rc.node, rc.node, conditions=True)
    hs_res = [h for l in [n for n in ast.walk(rc_res) if isinstance(n, ast.While)] for t in ast.walk(l) if isinstance(t, ast.Try) for h in t.handlers]
    rr = [x for h_ in hs_res for x in ast.walk(h_) if isinstance(x, ast.Raise)]
    tpar = rc.params()[1] if len(rc.params()) > 1 else "timeout"
    badr = []
    for x in rr:
        badr += truth_table(path_condition(rc_res, x), {tpar: [None, 0.5, 10.0]}, lambda a: a[tpar] is None)
    r.check(len(rr) == 1 and not badr, "R5", f"{rc.qualname}#gives-up-iff-no-timeout",
            f"a failed connection attempt ends the reconnect on {badr or 'no / several paths'}: it must be re-raised exactly when no timeout was given "
            "(one attempt), and retried until the timeout otherwise", loc=rc.loc)
    r.check("async with asyncio.timeout(timeout)" in txt, "R5", f"{rc.qualname}#timeout-scope", "the connect loop must run under asyncio.timeout(timeout)", loc=rc.loc)
    rets = [ast.unparse(n.value) for n in walk_no_nested(rc.node) if isinstance(n, ast.Return) and n.value is not None]
    r.check(rets == ["await self.connect(self.target)"], "R5", f"{rc.qualname}#returns-new-transport", f"reconnect returns {rets}", loc=rc.loc)
    mtx = lm.key_for(base, "mutex", lm.locks)
    r.check(mtx is not None and all(mtx in lm.held_syntactic(rc, n) for n in ast.walk(rc.node) if isinstance(n, ast.Call) and ast.unparse(n.func) in ("self.close", "self.connect")),
            "R5", f"{rc.qualname}#under-transport-mutex", "close/connect of reconnect must run under the transport mutex", loc=rc.loc)
    # end-of-stream returns at once from every stream read: a read() that loops around a stream read spins at EOF without yielding,
    # so neither the caller's timeout nor the end-of-stream result is ever delivered
    n_rd = 0
    for cq in ("gallia.transports.base.LinesTransportMixin", "gallia.transports.tcp.TCPTransport", "gallia.transports.unix.UnixTransport"):
        rd_ = m.require_class(cq).methods.get("read")
        if rd_ is None:
            continue
        n_rd += 1
        lp_ = [n.lineno for n in walk_no_nested(rd_.node) if isinstance(n, (ast.While, ast.For, ast.AsyncFor))
               and any(isinstance(x, ast.Await) for x in ast.walk(n))]
        r.check(not lp_, "R1", f"{rd_.qualname}#no-read-loop", f"loop around an awaited stream read at line(s) {lp_}: at end-of-stream the read returns immediately and the "
                "loop starves the event loop (no timeout, no connection error, no reconnect)", loc=rd_.loc)
    if n_rd < 3:
        raise AnalysisError("stream transport read() functions not found")
    tr.line_needs_delimiter(m, r, "R1")
    # closing after the loss of the connection is harmless: StreamWriter.wait_closed() re-raises the connection error (e.g. a reset) that
    # ended the stream, so every close() awaits it under a handler for connection errors (DoIPConnection.close is the model)
    n_wc = 0
    for c_ in m.classes.values():
        if not c_.module.name.startswith("gallia.transports."):
            continue
        cl_ = c_.methods.get("close")
        if cl_ is None:
            continue
        for n in ast.walk(cl_.node):
            if isinstance(n, ast.Await) and isinstance(n.value, ast.Call) and isinstance(n.value.func, ast.Attribute) and n.value.func.attr == "wait_closed":
                n_wc += 1
                guarded = any(isinstance(t_, ast.Try) and any(n is x for b_ in t_.body for x in ast.walk(b_)) and
                              any(h.type is None or any(k in ast.unparse(h.type) for k in ("ConnectionError", "OSError", "Exception")) for h in t_.handlers)
                              for t_ in ast.walk(cl_.node))
                r.check(guarded, "R6", f"{cl_.qualname}#close-after-loss",
                        "wait_closed() is awaited without a handler for connection errors: after the peer reset the connection, close() raises ConnectionResetError "
                        "(closing after loss is not harmless; teardown code sees an exception)", loc=f"{cl_.module.relpath}:{n.lineno}")
    if n_wc < 3:
        raise AnalysisError(f"only {n_wc} wait_closed() sites in transport close() functions")
    from sa.uds_rules import reconnect_unsafe_rule
    reconnect_unsafe_rule(m, r, "R5")
    # waiting for the ECU survives the time in which the peer does not accept connections yet: a reconnect attempt made from an exception handler of the
    # wait loop is itself protected against ConnectionError (otherwise the first refused attempt ends wait_for_ecu with a raw ConnectionRefusedError)
    wl = m.require_function("gallia.services.uds.ecu.ECU._wait_for_ecu_endless_loop")
    n_rc = 0
    for h in [h_ for t_ in ast.walk(wl.node) if isinstance(t_, ast.Try) for h_ in t_.handlers]:
        for c_ in ast.walk(h):
            if isinstance(c_, ast.Call) and ast.unparse(c_.func) in ("self.reconnect", "self.reconnect_unsafe"):
                n_rc += 1
                inner = [t2 for t2 in ast.walk(h) if isinstance(t2, ast.Try) and any(c_ is x for b_ in t2.body for x in ast.walk(b_)) and
                         any(h2.type is None or any(k in ast.unparse(h2.type) for k in ("ConnectionError", "OSError", "Exception")) for h2 in t2.handlers)]
                r.check(bool(inner), "R5", f"{wl.qualname}#reconnect-in-handler-guarded", "the reconnect attempt in the exception handler of the wait loop is not protected: while the peer "
                        "still refuses connections it raises ConnectionRefusedError out of the loop, and wait_for_ecu gives up immediately instead of waiting for its timeout", loc=wl.loc)
    if n_rc < 1:
        raise AnalysisError(f"{wl.qualname}: reconnect call in the wait loop not found")
    ru = m.require_function(f"{CLIENT}.UDSClient.reconnect_unsafe")
    r.check(any(isinstance(n, ast.Assign) and ast.unparse(n.targets[0]) == "self.transport" and
                ast.unparse(n.value).startswith("await self.transport.reconnect(") for n in ast.walk(ru.node)), "R5",
            f"{ru.qualname}#adopts-new-transport", "the client must replace self.transport by the transport reconnect() returns (else it keeps the dead one)", loc=ru.loc)
    dr = m.require_function(f"{DOIP}.DoIPTransport.reconnect")
    r.check("super().reconnect(" in ast.unparse(dr.node), "R5", f"{dr.qualname}#delegates", "DoIP reconnect must delegate to BaseTransport.reconnect", loc=dr.loc)

    # ---------------------------------------------------------------- R6
    closes: list[FuncInfo] = []
    for c in m.classes.values():
        if c.module.name.startswith("gallia.transports.") and c.module.name.split(".")[-1] in ("tcp", "unix", "doip", "hsfz"):
            f = c.methods.get("close")
            if f is not None and f.is_async:
                closes.append(f)
    if len(closes) < 6:
        raise AnalysisError(f"only {len(closes)} close() implementations found")
    for f in closes:
        body = [s for s in f.node.body if not (isinstance(s, ast.Expr) and isinstance(s.value, ast.Constant))]
        guard = [s for s in body if isinstance(s, ast.If) and isinstance(s.test, ast.Attribute) and ast.unparse(s.test).startswith("self.")
                 and any(isinstance(x, ast.Return) for x in s.body)]
        aw = awaits(f)
        first_await = min((a.lineno for a in aw), default=10 ** 9)
        if guard:
            flag = ast.unparse(guard[0].test)
            sets = [n.lineno for n in ast.walk(f.node) if isinstance(n, ast.Assign) and ast.unparse(n.targets[0]) == flag and ast.unparse(n.value) == "True"]
            if not sets:
                r.advisory("R6", f"{f.qualname}#flag-never-set", f"{flag} is tested but never set in close(): the guard is dead, the body runs again on a second close "
                           "(harmless here: writer.close()/wait_closed() are idempotent)", f.loc)
                r.ok("R6", f"{f.qualname}#idempotent", "guard dead; body made of idempotent primitives")
                continue
            r.check(min(sets) < first_await, "R6", f"{f.qualname}#flag-before-await",
                    f"{flag} is set at line {min(sets)}, after the first await (line {first_await}): a close() that is cancelled or raises there "
                    "(e.g. the reader task closing itself) leaves the connection marked open; later reads block and a second close() runs the body again", loc=f.loc)
        else:
            calls = [ast.unparse(a.value) for a in aw]
            ok = all(c in ("self._conn.close()", "self.writer.wait_closed()") or c.endswith(".close()") for c in calls)
            r.check(ok, "R6", f"{f.qualname}#idempotent", f"close() has no closed flag and awaits {calls}", loc=f.loc)

    # close really closes (stream owners close the writer and wait; connection objects cancel their reader task first)
    for f in closes:
        from sa.util import subst_locals as _slc
        src_ = [ast.unparse(n) for n in ast.walk(_slc(f.node, f.node)) if isinstance(n, (ast.Expr,))]      # (a local alias of self.writer is resolved)
        if any("self.writer" in t for t in src_) or f.cls.name in ("TCPTransport", "UnixTransport", "DoIPConnection", "HSFZConnection"):
            r.check("self.writer.close()" in src_ and any(t == "await self.writer.wait_closed()" for t in src_), "R6", f"{f.qualname}#closes-stream",
                    "close() must close the writer and await wait_closed()", loc=f.loc)
        if f.cls.name in ("DoIPConnection", "HSFZConnection"):
            r.check("self._read_task.cancel()" in src_, "R6", f"{f.qualname}#cancels-reader", "close() must cancel the reader task", loc=f.loc)
        if f.cls.name in ("DoIPTransport", "HSFZTransport"):
            r.check("await self._conn.close()" in src_, "R6", f"{f.qualname}#closes-connection", "the transport must close its connection", loc=f.loc)

    # ---------------------------------------------------------------- R7
    req = m.require_function(f"{CLIENT}.UDSClient.request_unsafe")
    hs_all = [n for n in walk_no_nested(req.node) if isinstance(n, ast.ExceptHandler) and n.type is not None and ast.unparse(n.type) == "ConnectionError"]
    # (handlers nested inside another handler protect the reconnect attempt itself, they are not the handlers of the exchange)
    hs = [h_ for h_ in hs_all if not any(h_ is x for o_ in hs_all if o_ is not h_ for x in ast.walk(o_))]
    okc = len(hs) >= 1 and all(any(".__cause__" in ast.unparse(s) for s in h_.body) and "MissingResponse(request" in ast.unparse(h_) and
                               "await self.reconnect_unsafe()" in ast.unparse(h_) for h_ in hs)
    r.check(okc, "R7", f"{req.qualname}#connection-error-handler", "ConnectionError must become MissingResponse (with __cause__) and trigger reconnect_unsafe", loc=req.loc)
    # a reconnect attempt that is refused (the peer is not back yet) must not end the request while retries remain: it is protected inside the handler
    for h_ in hs:
        for c_ in [c_ for c_ in ast.walk(h_) if isinstance(c_, ast.Call) and ast.unparse(c_.func) == "self.reconnect_unsafe"]:
            prot = any(isinstance(t2, ast.Try) and any(c_ is x for b_ in t2.body for x in ast.walk(b_)) and
                       any(h2.type is None or any(k in ast.unparse(h2.type) for k in ("ConnectionError", "OSError", "Exception")) for h2 in t2.handlers) for t2 in ast.walk(h_))
            r.check(prot, "R7", f"{req.qualname}#reconnect-failure-handled@{h_.lineno - req.node.lineno}", "a refused reconnect attempt leaves request_unsafe as a raw ConnectionRefusedError "
                    "although retries remain; the peer that accepts connections a moment later is never contacted again", loc=req.loc)
    # every wait for a reply - the first exchange of an attempt and each poll after a responsePending - is covered by such a handler
    waits_ = [n for n in walk_no_nested(req.node) if isinstance(n, ast.Await) and any(k in ast.unparse(n) for k in ("self.transport.request_unsafe(", "self._read(", "self.transport.read("))]
    uncovered = [ast.unparse(w_)[:50] for w_ in waits_ if not any(isinstance(t_, ast.Try) and any(w_ is x for b_ in t_.body for x in ast.walk(b_)) and any(h_ in t_.handlers for h_ in hs)
                                                                  for t_ in ast.walk(req.node))]
    r.check(len(waits_) >= 2 and not uncovered, "R7", f"{req.qualname}#every-wait-covered", f"{uncovered} can raise a ConnectionError that no handler turns into MissingResponse / reconnect: "
            "a connection lost in that phase escapes the client as a raw error", loc=req.loc)
    tries = [t for t in ast.walk(req.node) if isinstance(t, ast.Try) and any(h in t.handlers for h in hs)]
    guard_in_try = False
    for t in tries:
        for i, s in enumerate(t.body):
            if isinstance(s, ast.Assign) and isinstance(s.value, ast.Await) and "self.transport.request_unsafe(" in ast.unparse(s.value):
                nxt = t.body[i + 1] if i + 1 < len(t.body) else None
                if isinstance(nxt, ast.If) and any(isinstance(x, ast.Raise) and "BrokenPipeError" in ast.unparse(x) for x in nxt.body) and isinstance(s.targets[0], ast.Name):
                    # the guard, evaluated over the bytes just read: taken exactly for the empty read (`== b""`, `not raw`, `len(raw) == 0` ...)
                    from sa import miniterp as _mt8
                    try:
                        if [bool(_mt8.eval_expr(nxt.test, {s.targets[0].id: v_})) for v_ in (b"", b"\x00", b"\x7f\x22\x31")] == [True, False, False]:
                            guard_in_try = True
                    except AnalysisError:
                        pass
    r.check(guard_in_try, "R7", f"{req.qualname}#empty-read-is-connection-loss",
            "an empty read (end-of-stream of the line transports) must raise BrokenPipeError inside the try whose ConnectionError handler retries "
            "and reconnects; otherwise the raw error escapes and the request is not repeated on the new connection", loc=req.loc)
    wl = m.require_function(f"{ECU}.ECU._wait_for_ecu_endless_loop")
    t = ast.unparse(wl.node)
    # the client reports a lost connection as MissingResponse (a UDSException) whose __cause__ is the ConnectionError: the wait loop catches UDSException and
    # reconnects when the cause is a ConnectionError (catching ConnectionError directly as well is harmless but not needed: request_unsafe converts them all)
    wh = [h_ for t_ in ast.walk(wl.node) if isinstance(t_, ast.Try) for h_ in t_.handlers if h_.type is not None and "UDSException" in ast.unparse(h_.type)]
    ok_wl = len(wh) == 1 and wh[0].name is not None
    if ok_wl:
        # the handler, evaluated over (the exception is / is not a ConnectionError) x (its cause is / is not one): reconnect() is awaited exactly when either holds
        from sa import miniterp as _mtw
        hn_ = wh[0].name
        rows_w = {}
        try:
            for self_conn in (False, True):
                for cause_conn in (False, True):
                    called = []

                    def orc(call, env_, self_conn=self_conn, cause_conn=cause_conn):
                        f_ = ast.unparse(call.func)
                        if f_ == "isinstance" and len(call.args) == 2 and "ConnectionError" in ast.unparse(call.args[1]):
                            a0 = ast.unparse(call.args[0])
                            # (the client sets __cause__ explicitly; nothing else of the exception - e.g. __context__ - carries the connection error)
                            if a0 == f"{hn_}.__cause__":
                                return cause_conn
                            if a0 == hn_:
                                return self_conn
                            # a loop variable ranging over (e, e.__cause__): decided by the value it holds
                            try:
                                v0 = _mtw.eval_expr(call.args[0], env_, orc)
                            except AnalysisError:
                                return False
                            return cause_conn if v0 == "CAUSE" else (self_conn if v0 == "EXC" else False)
                        if f_ == "self.reconnect":
                            called.append(1)
                            return None
                        return None
                    try:
                        _mtw.exec_body(wh[0].body, {hn_: "EXC", f"{hn_}.__cause__": "CAUSE"}, orc)
                    except (_mtw.Raised, _mtw._Return, _mtw._Jump):
                        pass
                    rows_w[(self_conn, cause_conn)] = bool(called)
            ok_wl = all(v_ == (k_[0] or k_[1]) for k_, v_ in rows_w.items()) or all(v_ == k_[1] for k_, v_ in rows_w.items())
        except AnalysisError:
            ok_wl = None
    r.check3(ok_wl, "R7", f"{wl.qualname}#reconnects", "waiting for the ECU must reconnect after a connection error (reported by the client as MissingResponse with the ConnectionError as cause)", loc=wl.loc)
    lines_read = m.require_function(f"{BASE}.LinesTransportMixin.read")
    r.check(m.has(lines_read, "binascii.unhexlify(d)") and ".strip()" in ast.unparse(lines_read.node), "R7",
            f"{lines_read.qualname}#eof-is-empty", "end-of-stream of a line transport must decode to b'' (the client's explicit end-of-stream result)", loc=lines_read.loc)

    r.assumptions += ["asyncio.wait_for / asyncio.timeout bound the awaited operation", "writer.close()/wait_closed() are idempotent"]
    r.not_decided += ["actual timing", "kernel behaviour on reset"]
