"""C15 Every run leaves a consistent exit code, META.json, log file and database record (static clauses)."""
from __future__ import annotations

import ast

from sa.cfg import CFG
from sa.model import AnalysisError, ClassInfo, FuncInfo, Model, walk_no_nested
from sa.report import Report

TITLE = "Every run leaves a consistent exit code, META.json, log file and database record"
BASE = "gallia.command.base"
HANDLER = "gallia.db.handler"


def find_try_with_run(fn: FuncInfo) -> ast.Try:
    for n in ast.walk(fn.node):
        if isinstance(n, ast.Try):
            for b in n.body:
                if any(isinstance(c, ast.Call) and ast.unparse(c.func) == "self.run" for c in ast.walk(b)):
                    return n
    raise AnalysisError(f"{fn.qualname}: try block around self.run() not found")


def first_index(stmts: list[ast.stmt], pred) -> int | None:
    for i, s in enumerate(stmts):
        if any(pred(x) for x in ast.walk(s)):
            return i
    return None


def run(m: Model, r: Report, tier: str) -> None:
    r.rule("R1", "exception -> exit code table of entry_point equals the documented mapping (run()'s value, n, 74, 70, 130)", floor=7)
    r.rule("R2", "exit code / end time / DB completion / META.json / log close are in the finally of the try around run(), in that order", floor=6)
    r.rule("R3", "hooks cannot abort or alter the run: no possibly-unbound name, no raising format spec, result not used as exit code", floor=4)
    r.rule("R4", "the DB handler is disconnected only by its owner (_db_finish_run_meta), after completing the run meta", floor=3)
    r.rule("R5", "every normal return after acquiring the lock passes the release", floor=1)
    r.rule("R6", "AsyncScript.run: teardown runs on every exit of main, and only after setup completed", floor=2)
    r.rule("R8", "the post-hook sees this run's exit code and META: the run-specific variables are set after (and never overridden by) the inherited environment", floor=2)
    r.rule("R9", "guards of the bookkeeping steps, evaluated over their complete truth tables: hook script selection, hook environment, DB completion, "
                 "META.json and log registration happen exactly under their documented conditions; arguments are bound to the right parameters", floor=10)
    r.rule("R7", "META.json / run_meta writer keys cover what the rerunner reads; config is the full JSON dump of the model", floor=3)

    ep = m.require_function(f"{BASE}.BaseCommand.entry_point")
    exitcodes = m.module("gallia.exitcodes")

    def code(name: str) -> int:
        v = m.lookup_in_module(exitcodes, name)
        if not (isinstance(v, tuple) and v[0] == "const"):
            raise AnalysisError(f"exitcodes.{name} vanished")
        return m.fold(v[1], v[2])

    want = {"OK": 0, "SOFTWARE": 70, "IOERR": 74}
    for k, v in want.items():
        r.check(code(k) == v, "R1", f"gallia.exitcodes.{k}", f"exitcodes.{k} is {code(k)}, documented value {v}", loc="src/gallia/exitcodes.py")

    tr = find_try_with_run(ep)
    # normal path
    # the local that carries the exit code: the name entry_point returns after the guarded region
    ecs = {n.value.id for n in walk_no_nested(ep.node) if isinstance(n, ast.Return) and isinstance(n.value, ast.Name)}
    if len(ecs) != 1:
        raise AnalysisError(f"{ep.qualname}: cannot identify the exit code variable (returned names: {sorted(ecs)})")
    EC = ecs.pop()
    norm = [s for s in tr.body if isinstance(s, ast.Assign) and ast.unparse(s.targets[0]) == EC]
    r.check(len(norm) == 1 and ast.unparse(norm[0].value) == "await self.run()", "R1", f"{ep.qualname}#normal",
            "the normal path does not take run()'s return value as exit code", loc=ep.loc)
    def type_names(h: ast.ExceptHandler) -> list[str]:
        if h.type is None:
            return ["<bare>"]
        elts = h.type.elts if isinstance(h.type, ast.Tuple) else [h.type]
        return [ast.unparse(e).split(".")[-1] for e in elts]
    handlers = {}
    for h in tr.handlers:
        names_ = type_names(h)
        # the handler is filed under its leading documented kind; additional types of the same handler are kept in handler_types
        handlers[next((n_ for n_ in names_ if n_ in ("KeyboardInterrupt", "SystemExit", "Exception")), names_[0])] = h
    handler_types = {k: type_names(h) for k, h in handlers.items()}
    order = list(handlers)
    r.check(order[-1:] == ["Exception"] and set(order) == {"KeyboardInterrupt", "SystemExit", "Exception"}, "R1",
            f"{ep.qualname}#handlers", f"handlers are {order}; expected KeyboardInterrupt, SystemExit and a final Exception handler", loc=ep.loc)
    # how Ctrl-C arrives: the command line starts entry_point() with asyncio.run(), whose SIGINT handler cancels the main task - inside entry_point the
    # interrupt is an asyncio.CancelledError (a BaseException), the KeyboardInterrupt is only raised by asyncio.run() after the task has ended
    cli = m.module("gallia.cli.gallia")
    via_asyncio_run = any(isinstance(c_, ast.Call) and ast.unparse(c_.func) == "asyncio.run" and "entry_point()" in ast.unparse(c_) for c_ in ast.walk(cli.tree))
    intr = handler_types.get("KeyboardInterrupt", [])
    r.check(not via_asyncio_run or any(t_ in ("CancelledError", "BaseException") for t_ in intr), "R1", f"{ep.qualname}#interrupt-under-asyncio",
            f"the interrupt handler catches {intr}: under asyncio.run() Ctrl-C cancels the task, the CancelledError passes every handler, the finally block records the "
            "initial exit code 0 in META.json and the database, the post-hook does not run, and only then does asyncio.run() raise KeyboardInterrupt", loc=ep.loc)

    def assigned_codes(stmts: list[ast.stmt]) -> list[ast.expr]:
        out = []
        for s in stmts:
            for n in ast.walk(s):
                if isinstance(n, ast.Assign) and ast.unparse(n.targets[0]) == EC:
                    out.append(n.value)
        return out

    def fold_code(e: ast.expr):
        return m.try_fold(ep.module, e, env={}, default=ast.unparse(e))

    if "KeyboardInterrupt" in handlers:
        vals = [ast.unparse(v) for v in assigned_codes(handlers["KeyboardInterrupt"].body)]
        ok = vals in (["128 + signal.SIGINT"], ["130"])
        r.check(ok, "R1", f"{ep.qualname}#KeyboardInterrupt", f"Ctrl-C maps to {vals}, documented 130 (128 + SIGINT)", loc=ep.loc)
    if "SystemExit" in handlers:
        h = handlers["SystemExit"]
        from sa import dispatch as _dp15
        arms15 = _dp15.arms(h, f"{h.name}.code")
        ok = None
        detail = "no dispatch (match / isinstance test) on e.code"
        if arms15 is not None:
            table = {}
            for a_ in arms15:
                table[" | ".join(a_.patterns) if a_.patterns else "_"] = [fold_code(v) for st_ in [ast.Module(body=a_.body, type_ignores=[])] for v in assigned_codes(a_.body)]
            detail = str(table)
            ok = table.get("int()") == [f"{h.name}.code"] and table.get("_") == [70] and len(table) == 2
        r.check3(ok, "R1", f"{ep.qualname}#SystemExit", f"sys.exit mapping is {detail}; documented: int n -> n, anything else -> 70", loc=ep.loc)
    if "Exception" in handlers:
        h = handlers["Exception"]
        fors = [n for n in h.body if isinstance(n, ast.For)]
        ok = False
        detail = "no loop over CATCHED_EXCEPTIONS"
        if len(fors) == 1 and ast.unparse(fors[0].iter) == "self.CATCHED_EXCEPTIONS" and isinstance(fors[0].target, ast.Name):
            t = fors[0].target.id
            ifs = [n for n in fors[0].body if isinstance(n, ast.If)]
            if len(ifs) == 1:
                test = ast.unparse(ifs[0].test)
                hit = [fold_code(v) for v in assigned_codes(ifs[0].body)]
                miss = [fold_code(v) for v in assigned_codes(fors[0].orelse)]
                has_break = any(isinstance(x, ast.Break) for x in ifs[0].body)
                detail = f"test {test} -> {hit}, else -> {miss}, break={has_break}"
                ok = test == f"isinstance({h.name}, {t})" and hit == [74] and miss == [70] and has_break
        else:
            # the same decision without a loop: `if isinstance(e, tuple(self.CATCHED_EXCEPTIONS)) ... else ...`
            tifs = [n for n in h.body if isinstance(n, ast.If) and isinstance(n.test, ast.Call) and ast.unparse(n.test.func) == "isinstance" and len(n.test.args) == 2
                    and ast.unparse(n.test.args[0]) == h.name and "CATCHED_EXCEPTIONS" in ast.unparse(n.test.args[1])]
            if len(tifs) == 1 and not fors:
                cls_arg = ast.unparse(tifs[0].test.args[1]).replace(" ", "")
                hit = [fold_code(v) for v in assigned_codes(tifs[0].body)]
                miss = [fold_code(v) for v in assigned_codes(tifs[0].orelse)]
                detail = f"test {ast.unparse(tifs[0].test)} -> {hit}, else -> {miss}"
                ok = cls_arg in ("tuple(self.CATCHED_EXCEPTIONS)", "(*self.CATCHED_EXCEPTIONS,)") and hit == [74] and miss == [70]
            elif not fors and len([n for n in h.body if isinstance(n, ast.If) and isinstance(n.test, ast.Call) and ast.unparse(n.test.func) == "any"]) == 1:
                # `if any(isinstance(e, t) for t in self.CATCHED_EXCEPTIONS): ... else: ...`
                aif = next(n for n in h.body if isinstance(n, ast.If) and isinstance(n.test, ast.Call) and ast.unparse(n.test.func) == "any")
                g_ = aif.test.args[0] if aif.test.args else None
                shape_ok = isinstance(g_, (ast.GeneratorExp, ast.ListComp)) and len(g_.generators) == 1 and not g_.generators[0].ifs and isinstance(g_.generators[0].target, ast.Name) \
                    and ast.unparse(g_.generators[0].iter) == "self.CATCHED_EXCEPTIONS" and ast.unparse(g_.elt) == f"isinstance({h.name}, {g_.generators[0].target.id})"
                hit = [fold_code(v) for v in assigned_codes(aif.body)]
                miss = [fold_code(v) for v in assigned_codes(aif.orelse)]
                detail = f"test {ast.unparse(aif.test)} -> {hit}, else -> {miss}"
                ok = (hit == [74] and miss == [70]) if shape_ok else None
            elif any(isinstance(n, ast.Compare) and "CATCHED_EXCEPTIONS" in ast.unparse(n) and ("type(" in ast.unparse(n) or "__class__" in ast.unparse(n)) for n in ast.walk(h)):
                ok = False
                detail = "the exception's exact type is looked up in CATCHED_EXCEPTIONS (subclasses such as ConnectionResetError for ConnectionError are not recognised)"
            else:
                ok = None
                detail = "the mapping of expected exceptions was not recognised (neither a loop over CATCHED_EXCEPTIONS nor one isinstance test on them); found " + \
                    "; ".join(ast.unparse(s).split("\n")[0][:80] for s in h.body[:2])
        r.check3(ok, "R1", f"{ep.qualname}#Exception",
                f"expected-exception mapping: {detail}; documented: instance of any CATCHED_EXCEPTIONS class (incl. subclasses) -> 74, else 70", loc=ep.loc)
    bc = m.require_class(f"{BASE}.BaseCommand")
    n_ce = 0
    for c in m.subclasses(bc, strict=True):
        own = c.class_attrs.get("CATCHED_EXCEPTIONS")
        if own is None:
            continue
        n_ce += 1
        inherited: list[str] = []
        for k in m.mro(c)[1:]:
            v = k.class_attrs.get("CATCHED_EXCEPTIONS")
            if v is not None:
                inherited = [ast.unparse(e) for e in v.elts] if isinstance(v, ast.List) else ["?"]
                parent = k
                break
        names = {ast.unparse(e) for e in ast.walk(own) if isinstance(e, (ast.Name, ast.Attribute))}
        extends = any(f"{k.name}.CATCHED_EXCEPTIONS" in ast.unparse(own) for k in m.mro(c)[1:])
        missing = [x for x in inherited if x not in names]
        r.check(extends or not missing, "R1", f"{c.qualname}.CATCHED_EXCEPTIONS#extends",
                f"the override drops {missing} of the inherited expected exceptions: for this command kind they now exit with 70 instead of the documented 74", loc=c.loc)
    if n_ce < 1:
        raise AnalysisError("no CATCHED_EXCEPTIONS definition below BaseCommand")
    rets = [n for n in walk_no_nested(ep.node) if isinstance(n, ast.Return)]
    r.check(any(ast.unparse(x.value) == EC for x in rets if x.value is not None) and
            all(ast.unparse(x.value) in (EC, "exitcodes.OSFILE") for x in rets if x.value is not None),
            "R1", f"{ep.qualname}#return", f"entry_point returns {[ast.unparse(x.value) for x in rets if x.value]}", loc=ep.loc)

    # ---------------------------------------------------------------- R2
    fb = tr.finalbody
    markers = [
        ("exit_code", lambda x: isinstance(x, ast.Assign) and ast.unparse(x.targets[0]) == "self.run_meta.exit_code" and ast.unparse(x.value) == EC),
        ("end_time", lambda x: isinstance(x, ast.Assign) and ast.unparse(x.targets[0]) == "self.run_meta.end_time"),
        ("db_finish", lambda x: isinstance(x, ast.Call) and ast.unparse(x.func) == "self._db_finish_run_meta"),
        ("meta_json", lambda x: isinstance(x, ast.Call) and isinstance(x.func, ast.Attribute) and x.func.attr == "write_text" and "FileNames.META" in ast.unparse(x) and "self.run_meta.json()" in ast.unparse(x)),
        ("log_close", lambda x: isinstance(x, ast.Call) and ast.unparse(x.func) == "remove_zst_log_handler"),
    ]
    idx = {}
    for name, pred in markers:
        i = first_index(fb, pred)
        idx[name] = i
        r.check(i is not None, "R2", f"{ep.qualname}#finally:{name}",
                f"{name} bookkeeping is not in the finally block of the try around run(): it is skipped when run() raises", loc=ep.loc)
    seq = [idx[n] for n, _ in markers if idx[n] is not None]
    r.check(seq == sorted(seq) and idx.get("exit_code") is not None and idx.get("db_finish") is not None and idx["exit_code"] < idx["db_finish"]
            and (idx.get("end_time") is None or idx["end_time"] < idx["db_finish"]), "R2", f"{ep.qualname}#finally:order",
            f"bookkeeping order in finally is {idx}; the DB completion and META.json read run_meta.exit_code/end_time, which must be set first", loc=ep.loc)
    jf = m.require_function("gallia.log._JSONFormatter.format")
    jd = [n for n in ast.walk(jf.node) if isinstance(n, ast.Call) and ast.unparse(n.func) == "json.dumps"]
    r.check(len(jd) == 1 and not jd[0].keywords, "R2", f"{jf.qualname}#ascii-json",
            f"log records are serialised with json.dumps({', '.join(k.arg or '**' for d in jd for k in d.keywords)}): with ensure_ascii=False a message containing a lone surrogate cannot be "
            "encoded by the file handler, its writer thread dies and the rest of the run is missing from log.json.zst", loc=jf.loc)
    rz = m.require_function("gallia.log.remove_zst_log_handler")
    gz = CFG(rz.node)
    hpar = rz.params()[1] if len(rz.params()) > 1 else "handler"
    closes = {n.id for n in gz.nodes.values() if n.kind == "stmt" and n.ast is not None and f"{hpar}.close()" in ast.unparse(n.ast)}
    okz, pz = gz.must_pass(gz.entry, closes, {gz.exit_return}) if closes else (False, [])
    r.check(okz, "R2", f"{rz.qualname}#always-closes",
            "remove_zst_log_handler can return without closing the handler: the queue listener keeps running and the zstd frame of log.json.zst is never "
            "ended (unreadable / truncated log): " + " -> ".join(repr(gz.nodes[p_]) for p_ in pz[-3:]), loc=rz.loc)
    from sa.uds_rules import ranges_validator_accepts_stored_form, dddi_sources_accept_stored_form
    ranges_validator_accepts_stored_form(m, r, "R7")
    dddi_sources_accept_stored_form(m, r, "R7")
    # what the exception handlers of entry_point log is `{e!r}`: the repr of UDS exceptions formats requests / responses through the core helpers, which must be total
    from sa.uds_rules import guarded_enum_coercions
    if guarded_enum_coercions(m, r, "R3", ("gallia.services.uds.core",)) < 1:
        raise AnalysisError("no guarded enum coercion found in gallia.services.uds.core (service_repr)")
    from checks.c17 import zstd_close_rules, log_queues_unbounded
    zstd_close_rules(m, r, "R2")
    log_queues_unbounded(m, r, "R2")
    # the DB completion takes the exit code from run_meta
    fin = m.require_function(f"{BASE}.BaseCommand._db_finish_run_meta")
    # (a local alias of the handler - `db_handler = self.db_handler` - is resolved, so that the conditions read the attribute the property names)
    from sa.util import subst_locals as _slf
    import copy as _cpf
    fin = _cpf.copy(fin)
    fin.node = ast.fix_missing_locations(_slf(fin.node, fin.node))
    calls = [n for n in ast.walk(fin.node) if isinstance(n, ast.Call) and isinstance(n.func, ast.Attribute) and n.func.attr == "complete_run_meta"]
    r.check(len(calls) == 1 and any(ast.unparse(a) == "self.run_meta.exit_code" for a in calls[0].args), "R2",
            f"{fin.qualname}#exit-code-source", "complete_run_meta is not given self.run_meta.exit_code", loc=fin.loc)

    # ---------------------------------------------------------------- R3
    rh = m.require_function(f"{BASE}.BaseCommand.run_hook")
    g = CFG(m.raw_function(rh))   # the raw tree: logging statements use names too
    unbound = sorted({(n.lineno, name) for n, name in g.possibly_unbound_uses(rh.params())})
    r.check(not unbound, "R3", f"{rh.qualname}#definite-assignment",
            f"names possibly unbound when used: {unbound} (a failing hook raises UnboundLocalError out of entry_point)", loc=rh.loc)
    # handler of CalledProcessError exists
    r.check(any(isinstance(n, ast.ExceptHandler) and n.type is not None and "CalledProcessError" in ast.unparse(n.type) for n in ast.walk(rh.node)),
            "R3", f"{rh.qualname}#handler", "run_hook no longer handles CalledProcessError", loc=rh.loc)
    sp = [n for n in ast.walk(rh.node) if isinstance(n, ast.Call) and ast.unparse(n.func) in ("run", "subprocess.run")]
    if len(sp) != 1:
        raise AnalysisError(f"{rh.qualname}: subprocess call not found")
    kw = {k.arg: k.value for k in sp[0].keywords}
    via_shell = isinstance(kw.get("shell"), ast.Constant) and kw["shell"].value is True
    checked = isinstance(kw.get("check"), ast.Constant) and kw["check"].value is True
    sp_try = [t for t in ast.walk(rh.node) if isinstance(t, ast.Try) and any(sp[0] is x for b_ in t.body for x in ast.walk(b_))]
    htypes = [ast.unparse(h.type) if h.type is not None else "<bare>" for t in sp_try for h in t.handlers]
    catches_os = any(any(x in t for x in ("OSError", "Exception", "<bare>", "BaseException")) for t in htypes)
    r.check((via_shell and checked and any("CalledProcessError" in t for t in htypes)) or catches_os, "R3", f"{rh.qualname}#hook-cannot-raise",
            f"the hook is started with shell={ast.unparse(kw['shell']) if 'shell' in kw else 'False'} and only {htypes} is handled: without a shell a missing / non-executable "
            "script raises FileNotFoundError / PermissionError out of run_hook (pre-hook: the run never starts and nothing is recorded; post-hook: entry_point raises)", loc=rh.loc)
    # the hook's output is decoded (text=True): bytes that are no valid text in the locale's encoding must not raise out of run_hook
    decodes = "text" in kw and ast.unparse(kw["text"]) == "True" or "universal_newlines" in kw or "encoding" in kw
    tolerant = "errors" in kw and isinstance(kw["errors"], ast.Constant) and kw["errors"].value in ("replace", "backslashreplace", "ignore", "surrogateescape", "namereplace", "xmlcharrefreplace")
    catches_dec = any(any(k in t for k in ("UnicodeDecodeError", "UnicodeError", "ValueError", "Exception")) for t in htypes)
    r.check(not decodes or tolerant or catches_dec, "R3", f"{rh.qualname}#hook-output-decoding",
            "the hook's stdout / stderr are decoded strictly (text=True without errors=...): a hook that prints bytes which are no valid text (a message in another encoding) "
            "raises UnicodeDecodeError out of run_hook - the pre-hook then aborts the run before it starts, the post-hook makes entry_point raise", loc=rh.loc)
    hook_calls = [n for n in walk_no_nested(ep.node) if isinstance(n, ast.Call) and ast.unparse(n.func) == "self.run_hook"]
    as_stmt = [s for s in ast.walk(ep.node) if isinstance(s, ast.Expr) and s.value in hook_calls]
    r.check(len(hook_calls) == 2 and len(as_stmt) == 2, "R3", f"{ep.qualname}#hook-result-unused",
            f"{len(hook_calls)} run_hook calls, {len(as_stmt)} as plain statements: a hook must not influence the exit code", loc=ep.loc)
    bad_specs = []
    n_fstrings = 0
    for mod in m.modules.values():
        for n in ast.walk(mod.raw_tree):
            if isinstance(n, ast.FormattedValue) and n.format_spec is not None:
                n_fstrings += 1
                spec = n.format_spec
                if isinstance(spec, ast.JoinedStr) and spec.values and isinstance(spec.values[0], ast.Constant) \
                        and str(spec.values[0].value).startswith("!"):
                    bad_specs.append(f"{mod.relpath}:{n.lineno} {ast.unparse(n)}")
    r.check(not bad_specs, "R3", "gallia#format-specs",
            f"format spec starting with '!' (a conversion written as a spec; raises at run time, here inside error handlers): {bad_specs}",
            loc=bad_specs[0].split(" ")[0] if bad_specs else "")

    # ---------------------------------------------------------------- R8
    gh = CFG(rh.node)
    env_arg = [k.value for n in ast.walk(rh.node) if isinstance(n, ast.Call) and ast.unparse(n.func) in ("run", "subprocess.run") for k in n.keywords if k.arg == "env"]
    if len(env_arg) == 1 and isinstance(env_arg[0], ast.BinOp) and isinstance(env_arg[0].op, ast.BitOr):
        # env=<a> | <b>: the right operand wins; the run-specific mapping must not be the losing side of a merge with the inherited environment
        left_, right_ = env_arg[0].left, env_arg[0].right
        inherited_right = "environ" in ast.unparse(right_)
        r.check(not inherited_right, "R8", f"{rh.qualname}#merge-at-call", f"the hook is started with env=`{ast.unparse(env_arg[0])}`: in `a | b` the right side wins, so GALLIA_META / "
                "GALLIA_EXIT_CODE inherited from the process environment (gallia started from another run's post-hook) replace this run's values", loc=rh.loc)
        env_arg = [left_ if isinstance(left_, ast.Name) else right_]
    if len(env_arg) != 1 or not isinstance(env_arg[0], ast.Name):
        raise AnalysisError(f"{rh.qualname}: run(..., env=<name>) not found")
    EV = env_arg[0].id
    # the same for the statement that builds the mapping: GALLIA_ARTIFACTS_DIR / GALLIA_HOOK / GALLIA_INVOCATION describe this run and must win over values
    # inherited from the process environment (gallia started from inside another run's hook)
    for a_ in walk_no_nested(rh.node):
        if isinstance(a_, ast.Assign) and ast.unparse(a_.targets[0]) == EV and isinstance(a_.value, ast.BinOp) and isinstance(a_.value.op, ast.BitOr):
            inh_right = "environ" in ast.unparse(a_.value.right) and "GALLIA_" in ast.unparse(a_.value.left)
            r.check(not inh_right, "R8", f"{rh.qualname}#merge-order", f"`{ast.unparse(a_.value)[-40:]}`: in `a | b` the right side wins, so GALLIA_ARTIFACTS_DIR / GALLIA_HOOK / "
                    "GALLIA_INVOCATION inherited from an outer gallia run (this run started from its hook) replace this run's values", loc=rh.loc)
    run_nodes = {n.id for n in gh.nodes.values() if n.kind == "stmt" and n.ast is not None and any(isinstance(x, ast.Call) and ast.unparse(x.func) in ("run", "subprocess.run") for x in ast.walk(n.ast))}
    for key, src in (("GALLIA_EXIT_CODE", "str(exit_code)"), ("GALLIA_META", "self.run_meta.json()")):
        sets = [n for n in gh.nodes.values() if n.kind == "stmt" and isinstance(n.ast, ast.Assign) and isinstance(n.ast.targets[0], ast.Subscript)
                and ast.unparse(n.ast.targets[0].value) == EV and isinstance(n.ast.targets[0].slice, ast.Constant) and n.ast.targets[0].slice.value == key]
        r.check(len(sets) == 1 and ast.unparse(sets[0].ast.value) == src, "R8", f"{rh.qualname}#{key}:value",
                f"{key} is set {len(sets)} time(s)" + (f" to `{ast.unparse(sets[0].ast.value)}`" if sets else "") + f"; documented: {src}", loc=rh.loc)
        for sn in sets:
            after = set()
            for b, k in gh.succ[sn.id]:
                if k == "n":
                    after |= gh.reachable_from(b, edge_kinds=("n",)) | {b}
            overriders = []
            for nid in after:
                n = gh.nodes[nid]
                if n.ast is None or n.kind != "stmt" or not any(rn in gh.reachable_from(nid, edge_kinds=("n",)) | {nid} for rn in run_nodes) or nid in run_nodes:
                    continue
                a = n.ast
                writes_env = (isinstance(a, ast.Assign) and ast.unparse(a.targets[0]) == EV) or (isinstance(a, ast.AugAssign) and ast.unparse(a.target) == EV) or \
                    (isinstance(a, ast.Expr) and isinstance(a.value, ast.Call) and isinstance(a.value.func, ast.Attribute) and ast.unparse(a.value.func.value) == EV
                     and a.value.func.attr in ("update", "clear", "pop", "setdefault"))
                if writes_env and ("os.environ" in ast.unparse(a) or "environ" in ast.unparse(a) or not isinstance(a, ast.Expr)):
                    overriders.append(f"line {a.lineno}: {ast.unparse(a)[:50]}")
            r.check(not overriders, "R8", f"{rh.qualname}#{key}:not-overridden",
                    f"after {key} is set the hook environment is rebuilt / merged again ({overriders}): a value inherited from the process environment "
                    "(e.g. gallia started from another run's post-hook) replaces this run's value", loc=rh.loc)

    # ---------------------------------------------------------------- R9
    from sa.util import path_condition, truth_table
    from sa import miniterp
    from sa import transport_rules as _tr
    vpar = rh.params()[1] if len(rh.params()) > 1 else "variant"
    epar = rh.params()[2] if len(rh.params()) > 2 else "exit_code"
    # (a) script selection
    from sa.util import choice_table
    selv = sorted({n.targets[0].id for n in walk_no_nested(rh.node) if isinstance(n, ast.Assign) and isinstance(n.targets[0], ast.Name)
                   and ast.unparse(n.value) in ("self.config.pre_hook", "self.config.post_hook")})
    if len(selv) != 1:
        raise AnalysisError(f"{rh.qualname}: hook script selection not found")
    SV_ = selv[0]
    tsel = choice_table(rh.node, SV_, {vpar: ["PRE", "POST"], "HookVariant.PRE": ["PRE"], "HookVariant.POST": ["POST"]})
    bad = [f"{k_[0]} hook runs {v_}" for k_, v_ in tsel.items() if v_ != f"self.config.{k_[0].lower()}_hook"]
    r.check(not bad, "R9", f"{rh.qualname}#script-selection", f"{bad}", loc=rh.loc)
    # (b) nothing to run iff no script
    early = [n for n in rh.node.body if isinstance(n, ast.If) and any(isinstance(x, ast.Return) for x in n.body) and SV_ in ast.unparse(n.test)]
    if len(early) != 1:
        raise AnalysisError(f"{rh.qualname}: early return for an unset hook not found")
    bad = truth_table([(early[0].test, True)], {SV_: [None, "", "./hook.sh"]}, lambda a: a[SV_] in (None, ""))
    r.check(not bad, "R9", f"{rh.qualname}#runs-iff-script", f"the hook is skipped on: {bad}; it must run exactly when a non-empty script is configured", loc=rh.loc)
    # (c) hook environment
    both_atoms = {vpar: ["PRE", "POST"], epar: [None, 0, 3]}
    for key, atoms, expect, doc in (("GALLIA_META", both_atoms, lambda a: a[vpar] == "POST", "only for the post-hook"),
                                    ("GALLIA_EXIT_CODE", both_atoms, lambda a: a[epar] is not None, "whenever an exit code is given (0 included)")):
        sets = [n for n in ast.walk(rh.node) if isinstance(n, ast.Assign) and isinstance(n.targets[0], ast.Subscript) and isinstance(n.targets[0].slice, ast.Constant)
                and n.targets[0].slice.value == key]
        if len(sets) != 1:
            continue
        conds = path_condition(rh.node, sets[0])
        at = dict(atoms)
        at.update({"HookVariant.PRE": ["PRE"], "HookVariant.POST": ["POST"]})
        bad = truth_table(conds, at, expect)
        r.check(not bad, "R9", f"{rh.qualname}#{key}:condition", f"{key} is set on {bad}; documented: {doc}", loc=rh.loc)
    # (d) the two hook calls of entry_point
    hook_bind = []
    for c in hook_calls:
        b = _tr.bind_call(m, ep, c)
        if b is None:
            raise AnalysisError(f"{ep.qualname}: cannot bind run_hook arguments")
        conds = path_condition(ep.node, next(s_ for s_ in ast.walk(ep.node) if isinstance(s_, ast.Expr) and s_.value is c))
        hook_bind.append((ast.unparse(b.get(vpar)) if b.get(vpar) is not None else None, ast.unparse(b[epar]) if epar in b else None, [(ast.unparse(t), p_) for t, p_ in conds]))
    r.check(sorted(hook_bind, key=str) == sorted([("HookVariant.PRE", None, [("self.config.hooks", True)]), ("HookVariant.POST", EC, [("self.config.hooks", True)])], key=str),
            "R9", f"{ep.qualname}#hook-calls", f"hook invocations are {hook_bind}; expected the pre-hook without and the post-hook with this run's exit code, both iff config.hooks", loc=ep.loc)
    # (e) DB completion
    cb = _tr.bind_call(m, fin, calls[0]) if len(calls) == 1 else None
    r.check(cb is not None and ast.unparse(cb.get("exit_code", ast.Constant(value=None))) == "self.run_meta.exit_code", "R9", f"{fin.qualname}#complete_run_meta:exit_code",
            f"complete_run_meta(exit_code=...) receives `{ast.unparse(cb['exit_code']) if cb and 'exit_code' in cb else None}`", loc=fin.loc)
    if len(calls) == 1:
        conds = path_condition(fin.node, next(s_ for s_ in ast.walk(fin.node) if isinstance(s_, ast.Expr) and any(x is calls[0] for x in ast.walk(s_))))
        bad = truth_table(conds, {"self.db_handler": [None, "H"], "self.db_handler.connection": [None, "C"], "self.db_handler.meta": [None, 7]},
                          lambda a: a["self.db_handler"] is not None and a["self.db_handler.connection"] is not None and a["self.db_handler.meta"] is not None)
        r.check(not bad, "R9", f"{fin.qualname}#completion-condition", f"the run meta is completed on {bad[:3]}; it must be completed exactly when a connected handler with an inserted run meta exists", loc=fin.loc)
    dcalls = [s_ for s_ in ast.walk(fin.node) if isinstance(s_, ast.Expr) and any(isinstance(x, ast.Call) and isinstance(x.func, ast.Attribute) and x.func.attr == "disconnect" for x in ast.walk(s_))]
    if len(dcalls) == 1:
        bad = truth_table(path_condition(fin.node, dcalls[0]), {"self.db_handler": [None, "H"], "self.db_handler.connection": [None, "C"], "self.db_handler.meta": [None, 7]},
                          lambda a: a["self.db_handler"] is not None and a["self.db_handler.connection"] is not None)
        r.check(not bad, "R9", f"{fin.qualname}#disconnect-condition", f"the handler is disconnected on {bad[:3]}", loc=fin.loc)
    # (f) META.json and log file registration iff an artifacts dir exists
    meta_w = [s_ for s_ in ast.walk(tr) if isinstance(s_, ast.Expr) and "write_text" in ast.unparse(s_) and "FileNames.META" in ast.unparse(s_)]
    if len(meta_w) == 1:
        bad = truth_table(path_condition(ep.node, meta_w[0]), {"self.artifacts_dir": [None, "DIR"]}, lambda a: a["self.artifacts_dir"] is not None)
        r.check(not bad, "R9", f"{ep.qualname}#meta-json-condition", f"META.json is written on {bad}", loc=ep.loc)
    reg = [s_ for s_ in walk_no_nested(ep.node) if isinstance(s_, ast.Expr) and "self.log_file_handlers.append(add_zst_log_handler(" in ast.unparse(s_)]
    r.check(len(reg) == 1 and "FileNames.LOGFILE" in ast.unparse(reg[0]), "R9", f"{ep.qualname}#log-registered",
            "the zstd log handler of the run (FileNames.LOGFILE in the artifacts dir) is not registered in self.log_file_handlers: no log file / never closed", loc=ep.loc)
    if len(reg) == 1:
        bad = truth_table(path_condition(ep.node, reg[0]), {"self.artifacts_dir": [None, "DIR"]}, lambda a: a["self.artifacts_dir"] is not None)
        r.check(not bad, "R9", f"{ep.qualname}#log-condition", f"the log handler is registered on {bad}", loc=ep.loc)
    # (g) the run meta row is inserted before the guarded region
    # (g) the database is opened and the run meta row inserted unconditionally, before run(), and - like the pre-hook - inside the guarded region: the property's
    # lifecycle points include 'pre-hook' and 'db open', a failure there (database of another schema version, not a database at all) must be mapped to an exit code and
    # followed by META.json, log close, post-hook and lock release like any other failure
    ins_calls = [c_ for c_ in ast.walk(ep.node) if isinstance(c_, ast.Call) and ast.unparse(c_.func) == "self._db_insert_run_meta"]
    run_calls_ = [c_ for c_ in ast.walk(tr) if isinstance(c_, ast.Call) and ast.unparse(c_.func) == "self.run"]
    in_try_body = lambda c_: any(c_ is x for st_ in tr.body for x in ast.walk(st_))  # noqa: E731
    direct = lambda c_: any(isinstance(st_, ast.Expr) and any(c_ is x for x in ast.walk(st_)) for st_ in tr.body)  # noqa: E731
    r.check(len(ins_calls) == 1 and len(run_calls_) == 1 and in_try_body(ins_calls[0]) and direct(ins_calls[0]) and ins_calls[0].lineno < run_calls_[0].lineno, "R9",
            f"{ep.qualname}#run-meta-inserted", "the run meta row must be inserted unconditionally, before run(), inside the try whose finally does the bookkeeping: a failure "
            "while opening the database otherwise escapes entry_point (no exit code mapping, no META.json, log handler left open, lock held)", loc=ep.loc)
    pre_calls = [c_ for c_ in hook_calls if any("PRE" in ast.unparse(a_) for a_ in c_.args)]
    r.check(len(pre_calls) == 1 and in_try_body(pre_calls[0]) and len(run_calls_) == 1 and pre_calls[0].lineno < run_calls_[0].lineno, "R9", f"{ep.qualname}#pre-hook-guarded",
            "the pre-hook must run before run() inside the guarded region (an exception out of it is a failure of this run like any other)", loc=ep.loc)
    # (h) the lock is taken iff a lock file is configured
    # the lock methods by role (private names may be corrected / renamed): the method of the command's lock mix-in that takes LOCK_EX, the one that gives LOCK_UN
    def _flock_method(flag: str) -> str:
        cands = sorted({f_.name for c_ in m.classes.values() if c_.module.name == ep.module.name for f_ in c_.methods.values()
                        if any(isinstance(x, ast.Attribute) and x.attr == flag for x in ast.walk(f_.node))})
        if len(cands) != 1:
            raise AnalysisError(f"lock method using {flag} not found ({cands})")
        return cands[0]
    ACQ, REL = _flock_method("LOCK_EX"), _flock_method("LOCK_UN")
    acq_st = [s_ for s_ in ast.walk(ep.node) if isinstance(s_, ast.Expr) and f"self.{ACQ}()" in ast.unparse(s_)]
    if len(acq_st) == 1:
        bad = truth_table(path_condition(ep.node, acq_st[0]), {"self.config.lock_file": [None, "/tmp/l"]}, lambda a: a["self.config.lock_file"] is not None)
        r.check(not bad, "R9", f"{ep.qualname}#lock-condition", f"the lock is acquired on {bad}", loc=ep.loc)

    # ---------------------------------------------------------------- R4
    owners = {f"{BASE}.BaseCommand._db_finish_run_meta"}
    n_sites = 0
    for fn in m.functions():
        for n in walk_no_nested(fn.node):
            if isinstance(n, ast.Call) and isinstance(n.func, ast.Attribute) and n.func.attr == "disconnect" \
                    and "db_handler" in ast.unparse(n.func.value):
                n_sites += 1
                r.check(fn.qualname in owners, "R4", f"{fn.qualname}#disconnect",
                        "disconnects the DB handler that entry_point opened: _db_finish_run_meta then skips complete_run_meta and "
                        "run_meta.end_time / exit_code stay NULL", loc=f"{fn.module.relpath}:{n.lineno}")
    if n_sites < 1:
        raise AnalysisError("no db_handler.disconnect() call site found (expected in _db_finish_run_meta)")
    comp = [n.lineno for n in ast.walk(fin.node) if isinstance(n, ast.Call) and isinstance(n.func, ast.Attribute) and n.func.attr == "complete_run_meta"]
    disc = [n.lineno for n in ast.walk(fin.node) if isinstance(n, ast.Call) and isinstance(n.func, ast.Attribute) and n.func.attr == "disconnect"]
    r.check(bool(comp) and bool(disc) and max(comp) < min(disc), "R4", f"{fin.qualname}#complete-before-disconnect",
            f"complete_run_meta at lines {comp}, disconnect at {disc}", loc=fin.loc)
    # the connection is opened in entry_point before the guarded region
    ins = m.require_function(f"{BASE}.BaseCommand._db_insert_run_meta")
    r.check(any(isinstance(n, ast.Call) and ast.unparse(n.func) == "self.db_handler.connect" for n in ast.walk(ins.node)),
            "R4", f"{ins.qualname}#connect", "the handler is not connected by _db_insert_run_meta", loc=ins.loc)

    # ---------------------------------------------------------------- R5
    g = CFG(ep.node)
    acq = [n for n in g.nodes.values() if n.kind == "stmt" and n.ast is not None and f"self.{ACQ}()" in ast.unparse(n.ast)]
    rel = {n.id for n in g.nodes.values() if n.ast is not None and n.kind == "stmt" and f"self.{REL}()" in ast.unparse(n.ast)}
    if not acq or not rel:
        raise AnalysisError("entry_point: flock acquire/release not found")
    for a in acq:
        for b, k in g.succ[a.id]:
            if k != "n":
                continue
            # paths on which the lock is held: normal successor of the acquire; the release is guarded by `_lock_file_fd is not None`
            guards = {n.id for n in g.nodes.values() if n.kind == "cond" and n.ast is not None and "self._lock_file_fd is not None" in ast.unparse(n.ast)}
            ok, path = g.must_pass(b, rel | guards, {g.exit_return})
            r.check(ok, "R5", f"{ep.qualname}#flock", "a normal return is reachable after acquiring the lock without releasing it: "
                    + " -> ".join(repr(g.nodes[p]) for p in path[-4:]), loc=ep.loc)
    # the guard must lead to the release
    for gid in [n.id for n in g.nodes.values() if n.kind == "cond" and n.ast is not None and "self._lock_file_fd is not None" in ast.unparse(n.ast)]:
        r.check(any(b in rel for b, _ in g.succ[gid]), "R5", f"{ep.qualname}#flock-guard", "lock guard does not lead to _release_flock", loc=ep.loc)

    # ---------------------------------------------------------------- R6
    arun = m.require_function(f"{BASE}.AsyncScript.run")
    g = CFG(arun.node)

    def nodes_calling(name: str) -> set[int]:
        return {n.id for n in g.nodes.values() if n.ast is not None and n.kind in ("stmt", "return") and f"self.{name}()" in ast.unparse(n.ast)}
    setup, main, teardown = nodes_calling("setup"), nodes_calling("main"), nodes_calling("teardown")
    if not (setup and main and teardown):
        raise AnalysisError(f"{arun.qualname}: setup/main/teardown calls not found")
    for mn in main:
        ok, path = g.must_pass(mn, teardown, {g.exit_return, g.exit_raise})
        r.check(ok, "R6", f"{arun.qualname}#teardown-after-main",
                "an exit of main() bypasses teardown(): " + " -> ".join(repr(g.nodes[p]) for p in path[-4:]), loc=arun.loc)
    for s in setup:
        exc_succ = [b for b, k in g.succ[s] if k == "exc"]
        reach = set()
        for b in exc_succ:
            reach |= g.reachable_from(b)
        r.check(not (reach & teardown), "R6", f"{arun.qualname}#no-teardown-after-failed-setup",
                "teardown() runs after setup() raised: teardown then fails on resources that were never created and masks the "
                "real error (exit code 70 instead of 74 / n)", loc=arun.loc)
        ok, _ = g.must_pass(g.entry, {s}, main)
        r.check(ok, "R6", f"{arun.qualname}#setup-before-main", "main() is reachable without setup()", loc=arun.loc)
    rets = [ast.unparse(n.value) for n in walk_no_nested(arun.node) if isinstance(n, ast.Return) and n.value is not None]
    r.check(rets == ["exitcodes.OK"], "R6", f"{arun.qualname}#returns-ok", f"run returns {rets}", loc=arun.loc)
    ret_nodes = {n.id for n in g.nodes.values() if n.kind == "return"} | {g.exit_return}
    for phase, nodes_ in (("setup", setup), ("main", main), ("teardown", teardown)):
        for nid in nodes_:
            leak = set()
            for b, k in g.succ[nid]:
                if k == "exc":
                    leak |= g.reachable_from(b) & ret_nodes
            r.check(not leak, "R6", f"{arun.qualname}#{phase}-failure-propagates",
                    f"an exception raised by {phase}() can end in a normal return of run() (exitcodes.OK): the run then exits 0 and META.json / run_meta record 0 "
                    "instead of 70 / 74", loc=arun.loc)
    # Scanner.teardown overrides must chain to super().teardown() (transport close, dumpcap stop)
    AsyncScript = m.require_class(f"{BASE}.AsyncScript")
    for c in m.subclasses(m.require_class(f"{BASE}.Scanner"), strict=True):
        td = c.methods.get("teardown")
        if td is None:
            continue
        chained = any(isinstance(n, ast.Call) and ast.unparse(n.func) == "super().teardown" for n in ast.walk(td.node))
        r.check(chained, "R6", f"{td.qualname}#chains", "teardown override does not call super().teardown(): transport / dumpcap stay open", loc=td.loc)

    # ---------------------------------------------------------------- R7
    rm = m.require_class(f"{BASE}.RunMeta")
    fields = set(rm.class_annots)
    rer = m.require_function("gallia.commands.script.rerun.Rerunner.file")
    read = {n.slice.value for n in ast.walk(rer.node) if isinstance(n, ast.Subscript) and isinstance(n.slice, ast.Constant)
            and ast.unparse(n.value) == "content"}
    r.check(bool(read) and read <= fields, "R7", f"{rer.qualname}#keys",
            f"rerunner reads META.json keys {sorted(read)} but RunMeta writes {sorted(fields)}", loc=rer.loc)
    r.check({"command", "start_time", "end_time", "exit_code", "config"} <= fields, "R7", f"{rm.qualname}#fields",
            f"RunMeta fields are {sorted(fields)}", loc=rm.loc)
    init = m.require_function(f"{BASE}.BaseCommand.__init__")
    cfg_exprs = [kw.value for n in ast.walk(init.node) if isinstance(n, ast.Call) and ast.unparse(n.func) == "RunMeta" for kw in n.keywords if kw.arg == "config"]
    r.check(len(cfg_exprs) == 1 and ast.unparse(cfg_exprs[0]) == "json.loads(config.model_dump_json())", "R7", f"{init.qualname}#config-dump",
            f"run_meta.config is {ast.unparse(cfg_exprs[0]) if cfg_exprs else None}; a filtered dump (exclude_*) cannot re-create runs whose "
            "defaults are computed per process", loc=init.loc)
    dbq = m.require_function(f"{HANDLER}.DBHandler.insert_run_meta")
    r.check("config.model_dump_json()" in ast.unparse(dbq.node), "R7", f"{dbq.qualname}#config-dump",
            "the database copy of the config is not the full model_dump_json()", loc=dbq.loc)

    # a database that cannot be used (not a database, other schema version) is a failure of 'db open': connect() gives the connection back before it raises -
    # a half-open connection keeps its worker thread, and with it the process, alive after entry_point has returned its exit code
    dbc = m.require_function(f"{HANDLER}.DBHandler.connect")
    opens = [n for n in walk_no_nested(dbc.node) if isinstance(n, ast.Assign) and ast.unparse(n.targets[0]) == "self.connection" and "connect(" in ast.unparse(n.value)]
    inits = [n for n in walk_no_nested(dbc.node) if isinstance(n, ast.Expr) and isinstance(n.value, ast.Await) and
             any(k in ast.unparse(n) for k in ("self.connection.execute", "self.connection.executescript", "self.check_version"))]
    if len(opens) != 1 or len(inits) < 3:
        raise AnalysisError(f"{dbc.qualname}: connection creation / initialisation statements not found")
    guarded_init = [t_ for t_ in ast.walk(dbc.node) if isinstance(t_, ast.Try) and all(any(i_ is x for b_ in t_.body for x in ast.walk(b_)) for i_ in inits) and
                    any((h_.type is None or any(k in ast.unparse(h_.type) for k in ("BaseException", "Exception"))) and
                        any("self.connection.close()" in ast.unparse(s_) for s_ in h_.body) and isinstance(h_.body[-1], ast.Raise) for h_ in t_.handlers)]
    r.check(bool(guarded_init), "R4", f"{dbc.qualname}#closes-on-failed-open", "when the initialisation of a freshly opened connection fails (PRAGMAs, schema, version check) connect() "
            "raises with the connection still open: nobody can close it any more (disconnect() asserts a started queue), its thread keeps the process from terminating", loc=dbc.loc)
    # advisory: statements between lock acquisition and the guarded try that touch the file system
    body = ep.node.body
    ti = next(i for i, s in enumerate(body) if s is tr)
    risky = [s for s in body[:ti] if any(isinstance(x, ast.Call) and ast.unparse(x.func) in ("self.prepare_artifacts_dir", "add_zst_log_handler") for x in ast.walk(s))]
    for s in risky:
        r.advisory("R2", f"{ep.qualname}#pre-try:{ast.unparse(s).splitlines()[0][:40]}",
                   "can raise (file system) after the lock was taken but outside the try whose finally does the bookkeeping "
                   "(not one of the property's lifecycle points)", f"{ep.module.relpath}:{s.lineno}")
    r.assumptions += ["asyncio/pydantic/zstandard behave as documented", "subprocess.run(check=True) raises only CalledProcessError for a failing hook"]
    r.not_decided += ["file contents and zstd stream integrity", "exceptions raised before the guarded region (DB open, pre-hook)"]
