"""C12 A database-backed virtual ECU replays the recorded ECU's answers (static clauses)."""
from __future__ import annotations

import ast
import itertools
import re

from sa import sqlcheck
from sa.cfg import CFG
from sa.model import AnalysisError, ClassInfo, FuncInfo, Model, walk_no_nested
from sa.report import Report
from sa.util import effective_max_length

TITLE = "A database-backed virtual ECU replays the recorded ECU's answers"
SRV = "gallia.services.uds.server"
ECU = "gallia.services.uds.ecu"
HANDLER = "gallia.db.handler"


def state_rules(fn: FuncInfo) -> dict[str, tuple[str, list[str]]]:
    """response class -> (full guard text, normalised effect statements) of an update_state implementation."""
    out: dict[str, tuple[str, list[str]]] = {}
    for st in fn.node.body:
        if not isinstance(st, ast.If):
            continue
        classes = [ast.unparse(n.args[1]).split(".")[-1] for n in ast.walk(st.test) if isinstance(n, ast.Call) and ast.unparse(n.func) == "isinstance"
                   and ast.unparse(n.args[0]) == "response"]
        if len(classes) != 1:
            out[f"<{ast.unparse(st.test)}>"] = (ast.unparse(st.test), [ast.unparse(s) for s in st.body])
            continue
        guard = ast.unparse(st.test).replace("service.", "")
        out[classes[0]] = (guard, [ast.unparse(s) for s in st.body])
    return out


class StrEval:
    """Evaluates the straight-line query builder for concrete choices of self.ecu / self.properties / state values."""

    def __init__(self, fn: FuncInfo, env: dict):
        self.fn = fn
        self.env = dict(env)
        self.executed: list[tuple[str, list]] = []

    def ev(self, e: ast.expr):
        if isinstance(e, ast.Constant):
            return e.value
        if isinstance(e, ast.Name):
            return self.env[e.id]
        if isinstance(e, ast.Attribute):
            key = ast.unparse(e)
            if key in self.env:
                return self.env[key]
            raise KeyError(key)
        if isinstance(e, ast.JoinedStr):
            return "".join(str(self.ev(v.value)) if isinstance(v, ast.FormattedValue) else v.value for v in e.values)
        if isinstance(e, ast.BinOp) and isinstance(e.op, ast.Add):
            return self.ev(e.left) + self.ev(e.right)
        if isinstance(e, ast.List):
            return [self.ev(x) for x in e.elts]
        if isinstance(e, ast.Compare) and len(e.ops) == 1:
            a, b = self.ev(e.left), self.ev(e.comparators[0])
            op = e.ops[0]
            return {ast.Is: a is b, ast.IsNot: a is not b, ast.Eq: a == b, ast.NotEq: a != b}[type(op)]
        if isinstance(e, ast.BoolOp):
            vals = [self.ev(v) for v in e.values]
            return all(vals) if isinstance(e.op, ast.And) else any(vals)
        if isinstance(e, ast.IfExp):
            return self.ev(e.body) if self.ev(e.test) else self.ev(e.orelse)
        if isinstance(e, ast.Call):
            f = ast.unparse(e.func)
            if f == "isinstance":
                return isinstance(self.ev(e.args[0]), (int, float))
            if f == "json.dumps":
                return "<json>"
            if f.endswith(".items"):
                return list(self.ev(e.func.value).items())
            if f == "bytes_repr":
                return "<hex>"
            raise KeyError(f)
        raise KeyError(ast.unparse(e))

    def run(self, stmts: list[ast.stmt]) -> None:
        for st in stmts:
            if isinstance(st, ast.Assert) or (isinstance(st, ast.Expr) and isinstance(st.value, ast.Constant)):
                continue
            if isinstance(st, (ast.Assign, ast.AnnAssign)):
                tgt = st.targets[0] if isinstance(st, ast.Assign) else st.target
                val = st.value
                if isinstance(val, ast.Await):
                    call = val.value
                    if ast.unparse(call.func).endswith("connection.execute"):
                        self.executed.append((self.ev(call.args[0]), self.ev(call.args[1])))
                        self.env[ast.unparse(tgt)] = "<cursor>"
                        continue
                    if ast.unparse(call.func).endswith("fetchone"):
                        self.env[ast.unparse(tgt)] = None  # pretend "no row" so that the wrap-around query is built too
                        continue
                self.env[ast.unparse(tgt)] = self.ev(val)
            elif isinstance(st, ast.AugAssign):
                k = ast.unparse(st.target)
                self.env[k] = self.env[k] + self.ev(st.value)
            elif isinstance(st, ast.If):
                self.run(st.body if self.ev(st.test) else st.orelse)
            elif isinstance(st, ast.For):
                for item in self.ev(st.iter):
                    if isinstance(st.target, ast.Tuple):
                        for t, v in zip(st.target.elts, item):
                            self.env[ast.unparse(t)] = v
                    else:
                        self.env[ast.unparse(st.target)] = item
                    self.run(st.body)
            elif isinstance(st, ast.Expr) and isinstance(st.value, ast.Call) and ast.unparse(st.value.func).endswith(".append"):
                self.env[ast.unparse(st.value.func.value)].append(self.ev(st.value.args[0]))
            elif isinstance(st, ast.Return):
                return
            elif isinstance(st, ast.Expr):
                continue
            else:
                raise KeyError(f"statement {type(st).__name__}")


def run(m: Model, r: Report, tier: str) -> None:
    r.rule("R1", "client (ECU.update_state) and replaying server (UDSServer.update_state) apply identical state-transition rules per response class", floor=3)
    r.rule("R2", "row-format agreement: request bytes are bound with the writer's representation; state keys equal the logged keys", floor=4)
    r.rule("R3", "every variant of the replay query compiles against DB_SCHEMA, is ordered by id with LIMIT 1, first `id > last` then wrap-around", floor=8)
    r.rule("R4", "the cursor advances past every matched row; a NULL reply resets the state and yields silence; replies are parsed with the client's parser", floor=4)
    r.rule("R5", "address rows are never replaced (runs of the same target stay linked to their ECU)", floor=2)
    r.rule("R6", "the recorded reply bytes depend on the reply object alone (stored whenever the ECU answered, also for illegal replies)", floor=1)
    r.rule("R8", "the replaying server answers from the recording alone: every built-in default behaviour of UDSServer is switched off in DBUDSServer.Behavior "
           "(a default answer or the suppression of a recorded reply would differ from what the recorded ECU did)", floor=9)
    ubeh = m.require_class(f"{SRV}.UDSServer").nested.get("Behavior")
    dbeh = m.require_class(f"{SRV}.DBUDSServer").nested.get("Behavior")
    if ubeh is None or dbeh is None or not ubeh.class_annots:
        raise AnalysisError("UDSServer.Behavior / DBUDSServer.Behavior vanished")
    for sw in ubeh.class_annots:
        d_ = dbeh.class_attrs.get(sw)
        r.check(isinstance(d_, ast.Constant) and d_.value is False, "R8", f"{dbeh.qualname}.{sw}#off",
                f"switch {sw} is {ast.unparse(d_) if d_ is not None else 'inherited (on)'} in the replay server: requests the recorded ECU answered (or ignored) itself are "
                "then answered / suppressed by the built-in rule instead of the recording", loc=dbeh.loc)
    r.rule("R9", "the replay reads the recording as SQLite presents it to every reader: the connection is opened on the database path without URI flags that hide "
           "committed rows (immutable / nolock skip the write-ahead log the recorder leaves behind while another process still has the database open)", floor=1)
    dsetup = m.require_function(f"{SRV}.DBUDSServer.setup")
    conns = [c for c in ast.walk(dsetup.node) if isinstance(c, ast.Call) and ast.unparse(c.func).endswith("aiosqlite.connect")]
    if len(conns) != 1:
        raise AnalysisError(f"{dsetup.qualname}: aiosqlite.connect call not found")
    strs_ = " ".join(x.value for x in ast.walk(dsetup.node) if isinstance(x, ast.Constant) and isinstance(x.value, str))
    flags_ = [f_ for f_ in ("immutable", "nolock") if f_ in strs_]
    r.check(not flags_, "R9", f"{dsetup.qualname}#plain-open", f"the recording is opened with the SQLite URI flag(s) {flags_}: rows that are committed but still in the -wal file "
            "(the recorder, a viewer or a crashed scanner kept the database open) are invisible, and the newest run is replayed as silence", loc=dsetup.loc)
    r.rule("R7", "the vecu command forwards both selectors (ECU name and properties) unaltered to the replay server, which binds both into the query", floor=3)

    cu = m.require_function(f"{ECU}.ECU.update_state")
    su = m.require_function(f"{SRV}.UDSServer.update_state")
    cr, sr = state_rules(cu), state_rules(su)
    for cls in sorted(set(cr) | set(sr)):
        a, b = cr.get(cls), sr.get(cls)
        construct = f"update_state#{cls}"
        if a is None or b is None:
            # one-sided rule (no counterpart to compare it with): identified by the response class and the side it exists on
            construct = f"update_state#{cls}@{'client' if b is None else 'server'}-only"
        r.check(a == b, "R1", construct,
                f"client rule {a} vs server rule {b}: the state the client logs differs from the state the replaying server derives, so later rows "
                "of the recording no longer match (replayed as silence)", loc=cu.loc if a else su.loc)
    dbs = m.require_class(f"{SRV}.DBUDSServer")
    r.check("update_state" not in dbs.methods, "R1", f"{dbs.qualname}#inherits-update_state", "the replay server overrides update_state", loc=dbs.loc)

    # ---------------------------------------------------------------- R2
    rad = m.require_function(f"{SRV}.DBUDSServer.respond_after_default")
    smod = m.module(SRV)
    hmod = m.module(HANDLER)
    binds = [n for n in ast.walk(rad.node) if isinstance(n, ast.Call) and ast.unparse(n.func).endswith("bytes_repr") and n.args and ast.unparse(n.args[0]) == "request.pdu"]
    if len(binds) != 1:
        raise AnalysisError(f"{rad.qualname}: binding of request.pdu not found")
    hins = m.require_function(f"{HANDLER}.DBHandler.insert_scan_result")
    wr = [n for n in ast.walk(hins.node) if isinstance(n, ast.Call) and ast.unparse(n.func).endswith("bytes_repr") and n.args and ast.unparse(n.args[0]) == "request.pdu"]
    if len(wr) != 1:
        raise AnalysisError("writer's bytes_repr(request.pdu) not found")
    a, b = effective_max_length(m, smod, binds[0]), effective_max_length(m, hmod, wr[0])
    r.check(a is None and b is None, "R2", f"{rad.qualname}#request-representation",
            f"the replay query binds the request with max_length={a!r}, the writer stored it with max_length={b!r}", loc=rad.loc)
    st_cls = m.attr_types(dbs).get("state", [])
    ecu_state = m.require_class(f"{ECU}.ECUState")
    r.check([c.qualname for c in st_cls] == [ecu_state.qualname], "R2", f"{dbs.qualname}#state-class",
            f"the replay server's state is {[c.name for c in st_cls]}; extra keys would be required in every logged row", loc=dbs.loc)
    keys_iter = [n for n in ast.walk(rad.node) if isinstance(n, ast.For) and ast.unparse(n.iter) == "self.state.__dict__.items()"]
    ereq = m.require_function(f"{ECU}.ECU._request")
    r.check(len(keys_iter) == 1 and "self.state.__dict__" in ast.unparse(ereq.node), "R2", f"{rad.qualname}#state-keys",
            "the query must constrain exactly the keys of ECUState.__dict__ which the client serialises", loc=rad.loc)
    init = ecu_state.methods["__init__"]
    reset = ecu_state.methods["reset"]
    def assigned(fn):
        return sorted((ast.unparse(n.targets[0] if isinstance(n, ast.Assign) else n.target), ast.unparse(n.value)) for n in ast.walk(fn.node)
                      if isinstance(n, (ast.Assign, ast.AnnAssign)) and n.value is not None)
    r.check(assigned(init) == assigned(reset), "R2", f"{ecu_state.qualname}#reset-equals-initial", f"__init__ sets {assigned(init)}, reset sets {assigned(reset)}", loc=ecu_state.loc)

    # the logged state is the state at the time the request is on the wire: ECU._request waits for the client mutex inside the awaited
    # exchange, so a snapshot taken before it can be stale by the time of transmission (another task changed the session meanwhile)
    from sa import transport_rules as _tr2
    ereq = m.require_function(f"{ECU}.ECU._request")
    icalls = [n for n in ast.walk(ereq.node) if isinstance(n, ast.Call) and isinstance(n.func, ast.Attribute) and n.func.attr == "insert_scan_result"]
    exch = [n for n in ast.walk(ereq.node) if isinstance(n, ast.Call) and ast.unparse(n.func) == "super()._request"]
    if len(icalls) != 1 or len(exch) != 1:
        raise AnalysisError(f"{ereq.qualname}: insert_scan_result / super()._request not found")
    ib = _tr2.bind_call(m, ereq, icalls[0])
    sarg = ib.get("state") if ib else (icalls[0].args[0] if icalls[0].args else None)
    oks = sarg is not None and ast.unparse(sarg) == "self.state.__dict__"
    if sarg is not None and isinstance(sarg, ast.Name):
        defs_ = [n for n in ast.walk(ereq.node) if isinstance(n, ast.Assign) and ast.unparse(n.targets[0]) == sarg.id]
        oks = bool(defs_) and all(d.lineno > exch[0].lineno and "self.state" in ast.unparse(d.value) for d in defs_)
    r.check(oks, "R2", f"{ereq.qualname}#state-at-transmission",
            f"the logged state is `{ast.unparse(sarg) if sarg is not None else None}`" + (" (captured before the exchange waits for the client mutex)" if not oks else "") +
            ": it must be read after the exchange and before update_state, i.e. the state the request was transmitted in", loc=ereq.loc)

    # ---------------------------------------------------------------- R3
    con = sqlcheck.schema_db(m)
    n_var = 0
    for ecu, props, state in itertools.product([None, "E"], [None, {"k": 1, "n": None, "s": "x"}], [{"session": 1, "security_access_level": None}, {"session": 3, "security_access_level": 1}]):
        ev = StrEval(rad, {"self.properties": props, "self.ecu": ecu, "self.state.__dict__": state, "self.last_response": -1, "request.pdu": b"", "self.connection": object()})
        try:
            ev.run(rad.node.body)
        except KeyError as e:
            raise AnalysisError(f"{rad.qualname}: query builder uses an unsupported construct: {e}") from e
        if len(ev.executed) != 2:
            raise AnalysisError(f"{rad.qualname}: expected the forward and the wrap-around query, found {len(ev.executed)}")
        for i, (sql, params) in enumerate(ev.executed):
            n_var += 1
            tag = f"ecu={'set' if ecu else 'None'},properties={'set' if props else 'None'},level={'set' if state['security_access_level'] else 'None'},{'forward' if i == 0 else 'wrap'}"
            err = sqlcheck.compile_sql(con, sql)
            okq = err is None and sql.count("?") == len(params)
            tail = re.sub(r"\s+", " ", sql.strip())
            want_tail = "AND r.id > ? ORDER BY r.id LIMIT 1" if i == 0 else "AND r.id <= ? ORDER BY r.id LIMIT 1"
            r.check(okq and tail.endswith(want_tail) and "r.request_pdu = ?" in sql, "R3", f"{rad.qualname}#query[{tag}]",
                    f"{'does not compile: ' + str(err) if err else ''} placeholders={sql.count('?')} parameters={len(params)} tail=`{tail[-50:]}`", loc=rad.loc)
            # NULL-safe comparison per key: SQL `= NULL` never matches, so keys whose value is None need IS NULL and all others a bound value
            wrong = []
            for col, mapping in (("r.state", state), ("s.properties_pre", props or {})):
                for k_, v_ in mapping.items():
                    frag_null = f"json_extract({col}, '$.{k_}') IS NULL"
                    frag_eq = f"json_extract({col}, '$.{k_}') = ?"
                    if v_ is None and (frag_null not in sql or frag_eq in sql):
                        wrong.append(f"{k_}=None is not compared with IS NULL")
                    if v_ is not None and (frag_eq not in sql or frag_null in sql):
                        wrong.append(f"{k_}={v_!r} is not compared with a bound value")
            r.check(not wrong, "R3", f"{rad.qualname}#null-safe[{tag}]", f"{wrong}: rows recorded in that state / with those properties can never be found", loc=rad.loc)
            sel_cols = [c_.strip() for c_ in re.sub(r"\s+", " ", sql).split(" FROM ")[0].replace("SELECT ", "").split(",")]
            r.check(sel_cols == ["r.id", "r.response_pdu"], "R3", f"{rad.qualname}#select-list[{tag}]",
                    f"the query selects {sel_cols}; the cursor is taken from column 0 (row id) and the reply from column 1 (response_pdu)", loc=rad.loc)
            if ecu:
                r.check("e.name = ?" in sql and "a.ecu = e.id" in sql and "s.address = a.id" in sql and "r.run = s.id" in sql, "R3",
                        f"{rad.qualname}#ecu-selection[{tag}]", "selection by ECU name must join scan_result -> scan_run -> address -> ecu", loc=rad.loc)
            if props:
                r.check("r.run = s.id" in sql and "json_extract(s.properties_pre" in sql, "R3", f"{rad.qualname}#property-selection[{tag}]",
                        "selection by properties must constrain the run's properties_pre", loc=rad.loc)

    # the value bound for `json_extract(...) = ?` has the SQL representation json_extract produces for the stored JSON value: evaluated with
    # sqlite itself (as for the EXPLAIN checks) for one value of every JSON kind, the bound parameter computed from the source expression
    import json as _json
    import sqlite3 as _sq3
    from sa import miniterp as _mt12
    binds_v = []
    for lp in [n for n in ast.walk(rad.node) if isinstance(n, ast.For) and ".items()" in ast.unparse(n.iter) and isinstance(n.target, ast.Tuple) and len(n.target.elts) == 2]:
        vv = n_ = lp.target.elts[1]
        for c_ in ast.walk(lp):
            if isinstance(c_, ast.Call) and isinstance(c_.func, ast.Attribute) and c_.func.attr == "append" and len(c_.args) == 1 and isinstance(vv, ast.Name) \
                    and any(isinstance(x, ast.Name) and x.id == vv.id for x in ast.walk(c_.args[0])):
                binds_v.append((lp, vv.id, c_.args[0]))
    if len(binds_v) < 2:
        raise AnalysisError(f"{rad.qualname}: bound values of the state / property comparisons not found")
    def _o12(call, env):
        t = ast.unparse(call.func)
        if t == "isinstance" and len(call.args) == 2:
            tys = {"int": int, "float": float, "str": str, "bool": bool, "list": list, "dict": dict, "bytes": bytes}
            names = [ast.unparse(x) for x in (call.args[1].elts if isinstance(call.args[1], ast.Tuple) else
                                              ([call.args[1].left, call.args[1].right] if isinstance(call.args[1], ast.BinOp) else [call.args[1]]))]
            flat = []
            for nm in names:
                flat += [x.strip() for x in nm.split("|")]
            return isinstance(_mt12.eval_expr(call.args[0], env, _o12), tuple(tys[x] for x in flat if x in tys))
        if t == "json.dumps":
            kw = {k.arg: _mt12.eval_expr(k.value, env, _o12) for k in call.keywords}
            return _json.dumps(_mt12.eval_expr(call.args[0], env, _o12), **kw)
        return NotImplemented
    mem = _sq3.connect(":memory:")
    for lp, vname, expr in binds_v:
        what = "state" if "state" in ast.unparse(lp.iter) else "properties"
        samples = [5, 1.5, True] if what == "state" else [5, 1.5, True, "1.0.3", "sw ä", [1, 2], {"a": 1}, {"hw": 2, "bootloader": 7}]
        badv = []
        for v in samples:
            stored = _json.dumps({"k": v}, sort_keys=True)
            bound = _mt12.eval_expr(expr, {vname: v}, _o12)
            try:
                hit = mem.execute("SELECT json_extract(?, '$.k') = ?", (stored, bound)).fetchone()[0]
            except _sq3.Error as e:
                hit = f"sqlite error {e}"
            if hit != 1:
                got_ = mem.execute("SELECT json_extract(?, ?)", (stored, "$.k")).fetchone()[0]
                badv.append(f"{v!r} is bound as {bound!r} but json_extract yields {got_!r}")
        r.check(not badv, "R3", f"{rad.qualname}#bound-{what}-values",
                f"{badv[:3]}: the comparison is never true for such values, so a recording selected by them is replayed as silence", loc=f"{rad.module.relpath}:{lp.lineno}")

    # ---------------------------------------------------------------- R4
    g = CFG(rad.node)
    adv = [n for n in g.nodes.values() if n.kind == "stmt" and isinstance(n.ast, ast.Assign) and m.mtext(rad, n.ast) == "self.last_response = _L[0]"]
    nul = [n for n in g.nodes.values() if n.kind == "cond" and n.ast is not None and m.mtext(rad, n.ast) == "_L is not None"
           and any("parse_dynamic(" in ast.unparse(b) for s_ in ast.walk(rad.node) if isinstance(s_, ast.If) and s_.test is n.ast for b in s_.body if not isinstance(b, ast.If))]
    dom = g.dominators()
    r.check(len(adv) == 1 and len(nul) == 1 and adv[0].id in dom[nul[0].id], "R4", f"{rad.qualname}#cursor-advances",
            "the replay cursor must advance for every matched row, also when the recorded reply is NULL; otherwise a repeated request keeps "
            "hitting the same 'silence' row", loc=rad.loc)
    pdu_src = [n for n in walk_no_nested(rad.node) if isinstance(n, (ast.Assign, ast.AnnAssign)) and n.value is not None and isinstance(n.value, ast.Subscript)
               and isinstance(n.value.slice, ast.Constant) and n.value.slice.value == 1 and adv and ast.unparse(n.value.value) == ast.unparse(adv[0].ast.value.value)]
    r.check(len(pdu_src) == 1, "R4", f"{rad.qualname}#reply-column", "the reply bytes must be taken from column 1 of the matched row (column 0 is the row id)", loc=rad.loc)
    src = ast.unparse(rad.node)
    pcalls = [n for n in ast.walk(rad.node) if isinstance(n, ast.Call) and ast.unparse(n.func) == "service.UDSResponse.parse_dynamic"]
    r.check(src.rstrip().endswith("return None"), "R4", f"{rad.qualname}#null-reply", "a row without a recorded reply must yield no response", loc=rad.loc)
    # ... and must leave the state alone: the recording client does not change its state when a request goes unanswered
    # (ECU._request updates the state only `if response is not None`), so the following rows were logged in the unchanged state
    ereq_ = m.require_function(f"{ECU}.ECU._request")
    upd_guard = [n for n in ast.walk(ereq_.node) if isinstance(n, ast.If) and any("self.update_state(" in ast.unparse(b) for b in n.body)]
    client_keeps = len(upd_guard) == 1 and m.mtext(ereq_, upd_guard[0].test) in ("response is not None", "_L is not None")
    # the client derives its state from every reply it logs - also one it then rejects as mismatching / malformed - because the replaying server derives its
    # state from every recorded reply: the guard of update_state depends on the presence of a response alone (complete truth table over response x exception)
    from sa.util import truth_table as _tt12
    if len(upd_guard) == 1:
        gnames = sorted({x.id for x in ast.walk(upd_guard[0].test) if isinstance(x, ast.Name)})
        resp_names = [g_ for g_ in gnames if g_ in {t_.id for a_ in ast.walk(ereq_.node) if isinstance(a_, ast.Assign) for t_ in a_.targets if isinstance(t_, ast.Name)
                                                     and isinstance(a_.value, ast.Await)} or g_ == "response"]
        if len(resp_names) != 1:
            raise AnalysisError(f"{ereq_.qualname}: cannot identify the response variable in `{ast.unparse(upd_guard[0].test)}`")
        rv_ = resp_names[0]
        atoms_ = {g_: ([None, "R"] if g_ == rv_ else [None, "E"]) for g_ in gnames}
        badg = _tt12([(upd_guard[0].test, True)], atoms_, lambda a: a[rv_] is not None)
        r.check(not badg, "R1", f"{ereq_.qualname}#state-from-every-logged-reply", f"update_state is skipped / run on {badg[:3]}: the client must derive its state from every reply it "
                "logs (the replaying server does, and looks the following rows up in that state)", loc=ereq_.loc)
    else:
        r.check(False, "R1", f"{ereq_.qualname}#state-from-every-logged-reply", f"{len(upd_guard)} guarded update_state calls in the request path; expected one, guarded by the "
                "presence of a response", loc=ereq_.loc)
    silent_path_mut = [n for n in walk_no_nested(rad.node) if isinstance(n, ast.Expr) and isinstance(n.value, ast.Call) and ast.unparse(n.value.func).startswith("self.state.")
                       and not any(n is x for pc in pcalls for t_ in ast.walk(rad.node) if isinstance(t_, ast.If) and any(pc is y for y in ast.walk(t_)) and t_.test is not None
                                   and "response_pdu" in ast.unparse(t_.test) for b_ in t_.body for x in ast.walk(b_))]
    r.check(not (client_keeps and silent_path_mut), "R1", f"{rad.qualname}#state-after-unanswered-request",
            f"the client keeps its state when a request goes unanswered, the replaying server executes {[ast.unparse(x) for x in silent_path_mut]} on a row without a reply: "
            "rows recorded after a timeout in a non-default session are then looked up in the default session and replayed as silence", loc=rad.loc)
    pcalls = [n for n in ast.walk(rad.node) if isinstance(n, ast.Call) and ast.unparse(n.func) == "service.UDSResponse.parse_dynamic"]
    r.check(len(pcalls) == 1 and "unhexlify(" in ast.unparse(rad.node), "R4", f"{rad.qualname}#client-parser", "recorded bytes must be parsed with the client's dynamic parser", loc=rad.loc)
    # recorded bytes are whatever the ECU sent, including replies the client logged as malformed: the typed parser raises for those, so
    # the replay needs the same raw fallback the client's parse_pdu has, otherwise the server raises and drops the connection
    if len(pcalls) == 1:
        tries_ = [t for t in ast.walk(rad.node) if isinstance(t, ast.Try) and any(pcalls[0] is x for b_ in t.body for x in ast.walk(b_))]
        hs_ = [h for t in tries_ for h in t.handlers if h.type is None or ast.unparse(h.type) in ("Exception", "ValueError", "(ValueError, AssertionError)", "BaseException")]
        raw_built = any(isinstance(x, ast.Call) and "Raw" in ast.unparse(x.func) and "Response" in ast.unparse(x.func) for h in hs_ for x in ast.walk(h))
        r.check(bool(hs_) and raw_built, "R4", f"{rad.qualname}#malformed-recording",
                "UDSResponse.parse_dynamic raises for a recorded reply that is malformed (too short / too long / unknown NRC, as logged together with a MalformedResponse); "
                "the replaying server then raises instead of answering with the recorded bytes and the connection is dropped: the parse needs a raw-response fallback", loc=rad.loc)
    r.check(any(isinstance(n, ast.Assign) and ast.unparse(n) == "self.last_response = -1" for n in ast.walk(dbs.methods["__init__"].node)), "R4",
            f"{dbs.qualname}#cursor-start", "the cursor must start before the first row", loc=dbs.loc)

    # ---------------------------------------------------------------- R5
    dbh = m.require_class(f"{HANDLER}.DBHandler")
    addr = []
    for fn in dbh.methods.values():
        for sql, ln in sqlcheck.sql_literals(m, fn) + [(m.try_fold(fn.module, n, default=""), n.lineno) for n in ast.walk(fn.node) if isinstance(n, ast.Constant) and isinstance(n.value, str)]:
            if isinstance(sql, str) and re.match(r"\s*INSERT\b.*\bINTO\s+address\b", sql, re.I):
                addr.append((fn, sql, ln))
    uniq = {(f.qualname, s) for f, s, _ in addr}
    if len(uniq) < 2:
        raise AnalysisError("INSERT INTO address statements not found")
    for q, s in sorted(uniq):
        r.check(re.match(r"\s*INSERT\s+OR\s+IGNORE\s+INTO\s+address", s, re.I) is not None, "R5", f"{q}#address-insert",
                f"`{s}`: an existing address row must be kept (REPLACE deletes it: its ecu link is lost and earlier scan_run.address become NULL, "
                "so selection by ECU name no longer finds the recording)", loc=q)

    # row ids are only taken from plain INSERTs: after `INSERT OR IGNORE/REPLACE` that did not insert, lastrowid is the id of whatever row
    # the connection inserted last (another table's), so runs get linked to a foreign address / ECU
    n_lr = 0
    for f in dbh.methods.values():
        assigns_ = sorted([n for n in ast.walk(f.node) if isinstance(n, (ast.Assign, ast.AnnAssign)) and n.value is not None], key=lambda n: n.lineno)
        def latest(name: str, before: int):
            c_ = [n for n in assigns_ if n.lineno <= before and ast.unparse(n.targets[0] if isinstance(n, ast.Assign) else n.target) == name]
            return c_[-1].value if c_ else None
        for n in ast.walk(f.node):
            if not (isinstance(n, ast.Attribute) and n.attr == "lastrowid"):
                continue
            n_lr += 1
            src = n.value
            if isinstance(src, ast.Name):
                src = latest(src.id, n.lineno)
            while isinstance(src, ast.Await):
                src = src.value
            sql = None
            if isinstance(src, ast.Call) and isinstance(src.func, ast.Attribute) and src.func.attr in ("execute", "executemany") and src.args:
                q = src.args[0]
                if isinstance(q, ast.Name):
                    q = latest(q.id, src.lineno)
                sql = m.try_fold(f.module, q) if q is not None else None
            if not isinstance(sql, str):
                raise AnalysisError(f"{f.qualname}: cannot resolve the statement whose lastrowid is used (line {n.lineno})")
            r.check(re.match(r"\s*INSERT\s+INTO\b", sql, re.I) is not None, "R5", f"{f.qualname}#lastrowid@{sql.split()[-1] if 'INTO' not in sql.upper() else re.split(r'INTO', sql, flags=re.I)[1].split('(')[0].strip()}",
                    f"lastrowid of `{sql[:60]}` is used as a row id: when the statement inserts nothing it is the id of the last row inserted into another table", loc=f"{f.module.relpath}:{n.lineno}")
    if n_lr < 3:
        raise AnalysisError(f"only {n_lr} lastrowid uses found in DBHandler")

    # ---------------------------------------------------------------- R6
    from sa import sqlcheck as _sq
    hins6 = m.require_function(f"{HANDLER}.DBHandler.insert_scan_result")
    lits6 = [s_ for s_, _ in _sq.sql_literals(m, hins6) if "scan_result" in s_]
    if len(lits6) != 1:
        raise AnalysisError("scan_result INSERT not found")
    cols6 = _sq.insert_columns(lits6[0])
    tup6 = None
    for n in ast.walk(hins6.node):
        if isinstance(n, ast.Assign) and isinstance(n.value, ast.Tuple) and len(n.value.elts) >= 8 and "self.scan_run" in ast.unparse(n.value):
            tup6 = n.value
    if cols6 is None or tup6 is None or len(cols6) != len(tup6.elts) or "response_pdu" not in cols6:
        raise AnalysisError("scan_result INSERT column list / parameter tuple not found")
    for col in ("response_pdu", "response_data"):
        e = tup6.elts[cols6.index(col)]
        test_names = set()
        if isinstance(e, ast.IfExp):
            test_names = {x.id for x in ast.walk(e.test) if isinstance(x, ast.Name)}
        resp_param = "response"
        r.check(test_names <= {resp_param}, "R6", f"{hins6.qualname}#column:{col}",
                f"column {col} is only written under a condition on {sorted(test_names - {resp_param})}: a reply that arrived but was refused by the client "
                "(mismatch / malformed; no receive time is taken on that path) is stored as NULL, and the virtual ECU replays silence and resets its state", loc=hins6.loc)

    # ---------------------------------------------------------------- R7
    vs = m.require_function("gallia.commands.script.vecu.DbVirtualECU._server")
    from sa import transport_rules as _tr
    vcalls = [n for n in ast.walk(vs.node) if isinstance(n, ast.Call) and ast.unparse(n.func) == "DBUDSServer"]
    if len(vcalls) != 1:
        raise AnalysisError(f"{vs.qualname}: DBUDSServer(...) not found")
    vb = _tr.bind_call(m, vs, vcalls[0])
    if vb is None:
        raise AnalysisError(f"{vs.qualname}: cannot bind the DBUDSServer arguments")
    for par, want in (("db_path", "self.config.path"), ("ecu", "self.config.ecu"), ("properties", "self.config.properties")):
        r.check(par in vb and ast.unparse(vb[par]) == want, "R7", f"{vs.qualname}#{par}",
                f"DBUDSServer.{par} receives `{ast.unparse(vb[par]) if par in vb else '<default>'}`, not `{want}`: the replay is no longer restricted to the "
                "selected recording (rows of other runs / property sets of the same ECU are mixed in)", loc=vs.loc)
    dinit = m.require_function(f"{SRV}.DBUDSServer.__init__")
    for par in ("ecu", "properties"):
        r.check(any(isinstance(n, ast.Assign) and ast.unparse(n.targets[0]) == f"self.{par}" and ast.unparse(n.value) == par for n in ast.walk(dinit.node)),
                "R7", f"{dinit.qualname}#{par}", f"self.{par} is not stored unaltered", loc=dinit.loc)

    r.assumptions += ["SQLite semantics (json_extract, INSERT OR IGNORE)"]
    r.not_decided += ["fidelity over all histories", "the server resets its state on a NULL reply while the client does not (documented mechanism of the property)"]
