"""C19 Line-based transports deliver every message intact, in order, one per read (static clauses)."""
from __future__ import annotations

import ast

from sa.model import AnalysisError, FuncInfo, Model, walk_no_nested
from sa.report import Report

TITLE = "Line-based transports deliver every message intact, in order, one per read"
BASE = "gallia.transports.base"
SRV = "gallia.services.uds.server"


def awaits(fn: FuncInfo) -> list[ast.Await]:
    return [n for n in walk_no_nested(fn.node) if isinstance(n, ast.Await)]


def run(m: Model, r: Report, tier: str) -> None:
    r.rule("R1", "codec symmetry at all four sites: hexlify(x) + b'\\n' on the writer, readline -> strip -> unhexlify on the reader; "
                 "the delimiter is not in the encoder's alphabet", floor=4)
    r.rule("R2", "a read awaits exactly one delimiter-framed primitive, directly under the timeout scope (cancellation consumes nothing)", floor=3)
    r.rule("R3", "every write is followed by drain", floor=2)
    r.rule("R4", "end-of-stream is distinguishable: the server loop ends on an empty line, the client returns b''", floor=2)
    r.rule("R6", "one line per reply: 'no reply' is None at the producer (handle_request) and every server loop writes iff the value is not None", floor=3)
    r.rule("R5", "stream limits do not cut off maximal UDS messages (the hex line of a 4095-byte PDU is 8191 bytes)", floor=2)

    cw = m.require_function(f"{BASE}.LinesTransportMixin.write")
    cr = m.require_function(f"{BASE}.LinesTransportMixin.read")
    hc = m.require_function(f"{SRV}.TCPUDSServerTransport.handle_client")

    # ---------------------------------------------------------------- R1
    # what the client writes for a message, evaluated: the lower-case hex text of the bytes followed by exactly one newline, in one write call
    import binascii as _ba
    from sa import miniterp as _mt19

    def _lenient(record: list, extra=None):
        def orc(call, env_):
            f_ = ast.unparse(call.func)
            if f_.split(".")[-1] in ("hexlify", "unhexlify") and len(call.args) == 1:
                v_ = _mt19.eval_expr(call.args[0], env_, orc)
                try:
                    return getattr(_ba, f_.split(".")[-1])(v_)
                except (ValueError, TypeError) as ex_:
                    raise _mt19.Raised(ast.Raise(exc=ast.Name(id=type(ex_).__name__, ctx=ast.Load()), cause=None))
            if isinstance(call.func, ast.Attribute) and call.func.attr == "write" and len(call.args) == 1:
                record.append(_mt19.eval_expr(call.args[0], env_, orc))
                return None
            if extra is not None:
                v_ = extra(call, env_, orc)
                if v_ is not NotImplemented:
                    return v_
            if isinstance(call.func, ast.Name) and call.func.id in cw.module.functions and not call.keywords:
                # a private helper of the module (e.g. the line encoding extracted into a function): interpreted as well
                hf_ = cw.module.functions[call.func.id]
                hp_ = hf_.params()
                if len(hp_) == len(call.args):
                    ret_h, env_h = _mt19.run_function(hf_.node, {p_: _mt19.eval_expr(a_, env_, orc) for p_, a_ in zip(hp_, call.args)}, orc)
                    return _mt19.eval_expr(ret_h.value, env_h, orc) if ret_h is not None and ret_h.value is not None else None
            return None        # logging, drain, getters: no influence on the bytes
        return orc
    cpar = cw.params()
    enc_bad, enc_unk = [], None
    try:
        for msg_ in (b"\x10\x03", b"\x00", b"\xab\xcd\xef" * 5):
            rec_: list = []
            _mt19.run_function(cw.node, {cpar[1]: msg_, **{p_: None for p_ in cpar[2:]}}, _lenient(rec_))
            if rec_ != [msg_.hex().encode() + b"\n"]:
                enc_bad.append(f"{msg_.hex()} -> written {rec_}")
    except (AnalysisError, _mt19.Raised) as ex_:
        enc_unk = str(ex_)
    r.check3(None if enc_unk else not enc_bad, "R1", f"{cw.qualname}#encoding", f"client writes {enc_bad[:2]}; a message is its hex text plus one newline, in one write", loc=cw.loc,
             unknown_msg=f"write is outside the evaluated language: {enc_unk}")
    src = ast.unparse(cr.node)
    r.check(".readline()" in src and ".decode().strip()" in src and m.has(cr, "binascii.unhexlify(d)"), "R1", f"{cr.qualname}#decoding",
            "client read must be readline -> strip -> unhexlify", loc=cr.loc)
    hsrc = ast.unparse(hc.node)
    sw = [n for n in ast.walk(hc.node) if isinstance(n, ast.Call) and ast.unparse(n.func) == "writer.write"]
    if len(sw) != 1:
        r.check(False, "R1", f"{hc.qualname}#encoding", f"the server has {len(sw)} writer.write calls per reply; a reply is written in one piece", loc=hc.loc)
    else:
        lv_ = sorted({x.id for x in ast.walk(sw[0].args[0]) if isinstance(x, ast.Name) and x.id in m.local_names(hc)})
        sbad, sunk = [], None
        try:
            for msg_ in (b"\x50\x03", b"\x7f\x10\x11"):
                got_ = _mt19.eval_expr(sw[0].args[0], {v_: msg_ for v_ in lv_}, _lenient([]))
                if got_ != msg_.hex().encode() + b"\n":
                    sbad.append(f"{msg_.hex()} -> {got_!r}")
        except (AnalysisError, _mt19.Raised) as ex_:
            sunk = str(ex_)
        r.check3(None if sunk else not sbad, "R1", f"{hc.qualname}#encoding", f"server writes {sbad[:2]}; a reply is its hex text plus one newline", loc=hc.loc,
                 unknown_msg=f"reply expression outside the evaluated language: {sunk}")
    r.check("await reader.readline()" in hsrc and ".strip()" in hsrc and m.has(hc, "unhexlify(tcp_request)"), "R1", f"{hc.qualname}#decoding",
            "server read must be readline -> strip -> unhexlify", loc=hc.loc)

    # ---------------------------------------------------------------- R2
    aw = awaits(cr)
    ok = len(aw) == 1 and isinstance(aw[0].value, ast.Call) and ast.unparse(aw[0].value.func) == "asyncio.wait_for" and \
        len(aw[0].value.args) == 2 and ast.unparse(aw[0].value.args[0]).endswith(".readline()") and ast.unparse(aw[0].value.args[1]) == "timeout"
    inner = ast.unparse(aw[0].value.args[0]) if aw and isinstance(aw[0].value, ast.Call) and aw[0].value.args else None
    r.check(ok, "R2", f"{cr.qualname}#single-framed-read",
            f"read awaits `{inner}`: it must be exactly one readline() directly inside wait_for(timeout) - a shielded, looped or multi-step read leaves a "
            "consumer behind after a timeout which swallows the next message", loc=cr.loc)
    r.check(not any(isinstance(n, (ast.While, ast.For)) for n in walk_no_nested(cr.node)), "R2", f"{cr.qualname}#no-loop", "no loop in a cancellable read", loc=cr.loc)
    loops = [n for n in walk_no_nested(hc.node) if isinstance(n, ast.While)]
    reads = [n for n in ast.walk(hc.node) if isinstance(n, ast.Call) and isinstance(n.func, ast.Attribute) and ast.unparse(n.func.value) == "reader"]
    r.check(len(loops) == 1 and len(reads) == 1 and reads[0].func.attr == "readline", "R2", f"{hc.qualname}#one-line-per-request",
            f"the server loop must take exactly one readline() per request (reads: {[x.func.attr for x in reads]})", loc=hc.loc)

    # ---------------------------------------------------------------- R3
    r.check(any("drain()" in ast.unparse(a) for a in awaits(cw)) and any(m.mtext(cw, a.value).startswith("asyncio.wait_for(_L.drain(), timeout)") for a in awaits(cw)),
            "R3", f"{cw.qualname}#drain", "client write must await drain under the timeout", loc=cw.loc)
    wi = [i for i, s in enumerate(ast.walk(hc.node)) if isinstance(s, ast.Expr) and "writer.write(" in ast.unparse(s)]
    r.check("await writer.drain()" in hsrc, "R3", f"{hc.qualname}#drain", "server must drain after each reply", loc=hc.loc)

    # ---------------------------------------------------------------- R4
    line_vars = [n.targets[0].id for n in ast.walk(hc.node) if isinstance(n, ast.Assign) and isinstance(n.targets[0], ast.Name) and ".readline()" in ast.unparse(n.value)]
    brk = [n for n in ast.walk(hc.node) if isinstance(n, ast.If) and isinstance(n.body[0], ast.Break) and any(isinstance(x, ast.Name) and x.id in line_vars for x in ast.walk(n.test))]
    # the decision of that test for the three kinds of result readline() can give (finite-domain evaluation): end-of-stream and the unterminated rest of a message
    # whose sender died end the loop, a complete line does not
    if len(brk) == 1 and len(line_vars) == 1:
        from sa import miniterp as _mt19b
        dec = []
        for val, want in ((b"", True), (b"1003\n", False), (b"2ef19011\n", False), (b"2ef1901122", True), (b"10", True)):
            got = bool(_mt19b.eval_expr(brk[0].test, {line_vars[0]: val}))
            if got != want:
                dec.append(f"{val!r} -> {'ends the loop' if got else 'is handled as a request'}")
        r.check(not dec, "R4", f"{hc.qualname}#incomplete-line", f"{dec}: only newline-terminated lines are messages; at end-of-stream readline() returns the unterminated rest of a "
                "message whose sender died, which must end the loop like b'' instead of being answered as a request that was never completely sent", loc=hc.loc)
    first_read_line = min((n.lineno for n in reads), default=0)
    strip_line = min((n.lineno for n in ast.walk(hc.node) if isinstance(n, ast.Call) and isinstance(n.func, ast.Attribute) and n.func.attr == "strip"), default=10 ** 9)
    r.check(len(brk) == 1 and first_read_line < brk[0].lineno < strip_line, "R4", f"{hc.qualname}#eof-ends-loop",
            "the raw line must be tested for b'' (end-of-stream) right after readline and before stripping: readline returns b'' immediately at EOF, "
            "so a loop that continues instead spins forever and starves every other client", loc=hc.loc)
    # no `continue` before the line of this iteration was read (a continue after the exchange - e.g. "nothing to write" - starts the next read)
    conts = [n for n in ast.walk(loops[0]) if isinstance(n, ast.Continue)] if loops else []
    from sa.cfg import CFG as _CFG19
    g19 = _CFG19(hc.node)
    heads19 = {n.id for n in g19.nodes.values() if n.kind == "loop" and loops and n.ast is loops[0]}
    reads19 = {n.id for n in g19.nodes.values() if n.ast is not None and n.kind in ("stmt", "cond") and ".readline()" in ast.unparse(n.ast)}
    early_c = []
    for c_ in conts:
        for nd in g19.nodes_of(c_):
            # every path from the loop head to this continue passes the read
            for h_ in heads19:
                if not g19.must_pass(h_, reads19, {nd.id})[0]:
                    early_c.append(c_.lineno)
    r.check(not early_c, "R4", f"{hc.qualname}#no-continue", f"the server loop can `continue` (line(s) {sorted(set(early_c))}) without consuming input", loc=hc.loc)
    r.check(m.has(cr, "binascii.unhexlify(d)"), "R4", f"{cr.qualname}#eof-is-empty", "client EOF must surface as b''", loc=cr.loc)

    # closing flushes: messages already accepted by write() are still delivered (graceful close + wait_closed, never abort)
    n_cl = 0
    for cq in ("gallia.transports.tcp.TCPTransport", "gallia.transports.unix.UnixTransport"):
        cl = m.require_class(cq).methods.get("close")
        if cl is None:
            continue
        n_cl += 1
        from sa.util import subst_locals as _slg
        calls_ = [ast.unparse(n.func) for n in ast.walk(_slg(cl.node, cl.node)) if isinstance(n, ast.Call)]      # (a local alias of self.writer is resolved)
        r.check("self.writer.close" in calls_ and "self.writer.wait_closed" in calls_ and not any(c.endswith(".abort") for c in calls_), "R3", f"{cl.qualname}#graceful-close",
                f"close() calls {calls_}: it must close the stream writer gracefully and wait for it; abort() discards the messages still in the send buffer, "
                "so the peer sees only a prefix of what was written", loc=cl.loc)
    if n_cl < 2:
        raise AnalysisError("stream transport close() functions not found")

    # ---------------------------------------------------------------- R6
    hr = m.require_function(f"{SRV}.UDSServerTransport.handle_request")
    forms = []
    for n in walk_no_nested(hr.node):
        if isinstance(n, ast.Return) and n.value is not None:
            first = n.value.elts[0] if isinstance(n.value, ast.Tuple) and n.value.elts else n.value
            if isinstance(first, ast.Constant) and first.value is None:
                forms.append("None")
            elif isinstance(first, ast.Attribute) and first.attr == "pdu":
                forms.append("pdu")
            else:
                forms.append(ast.unparse(first))
    r.check("pdu" in forms and set(forms) <= {"pdu", "None"}, "R6", f"{hr.qualname}#no-reply-is-None",
            f"handle_request returns {sorted(set(forms))} as reply bytes: 'nothing to send' must be None (the loops test `is not None`); an empty byte string "
            "is written as an empty line, which the client reads as a reply / end-of-stream and every later reply arrives one read late", loc=hr.loc)
    n_cons = 0
    for f in m.functions():
        if f.module.name != SRV:
            continue
        for n in ast.walk(f.node):
            if isinstance(n, ast.Assign) and isinstance(n.targets[0], ast.Tuple) and "self.handle_request(" in ast.unparse(n.value) and isinstance(n.targets[0].elts[0], ast.Name):
                n_cons += 1
                xv = n.targets[0].elts[0].id
                writes = [c for c in ast.walk(f.node) if isinstance(c, ast.Call) and isinstance(c.func, ast.Attribute) and c.func.attr == "write"
                          and any(isinstance(x, ast.Name) and x.id == xv for a in c.args for x in ast.walk(a))]
                guarded = []
                for c in writes:
                    from sa.util import path_condition as _pc19, norm_conds as _nc19
                    ok_g = (f"{xv} is None", False) in _nc19(_pc19(f.node, c))
                    guarded.append(ok_g)
                r.check(bool(writes) and all(guarded), "R6", f"{f.qualname}#writes-iff-reply",
                        f"the reply {xv} of handle_request must be written exactly when it `is not None`", loc=f"{f.module.relpath}:{n.lineno}")
    if n_cons < 2:
        raise AnalysisError(f"only {n_cons} consumers of handle_request found")

    from sa import transport_rules as _trl
    _trl.line_needs_delimiter(m, r, "R4")

    # ---------------------------------------------------------------- R5
    for q in (f"{SRV}.TCPUDSServerTransport.run", f"{SRV}.UnixUDSServerTransport.run"):
        try:
            f = m.require_function(q)
        except AnalysisError:
            continue
        starts = [n for n in ast.walk(f.node) if isinstance(n, ast.Call) and ast.unparse(n.func) in ("asyncio.start_server", "asyncio.start_unix_server")]
        if len(starts) != 1:
            raise AnalysisError(f"{q}: start_server call not found")
        lim = next((k.value for k in starts[0].keywords if k.arg == "limit"), None)
        v = m.try_fold(f.module, lim) if lim is not None else None
        r.check(lim is None or (isinstance(v, int) and v >= 2 * 4095 + 2), "R5", f"{q}#stream-limit",
                f"stream limit {ast.unparse(lim) if lim is not None else 'default (64 KiB)'}: readline raises and discards the buffer for lines beyond the limit; "
                "a 4095-byte UDS message needs 8191 bytes", loc=f.loc)
    for q in ("gallia.transports.tcp.TCPTransport.connect", "gallia.transports.unix.UnixTransport.connect"):
        f = m.require_function(q)
        opens = [n for n in ast.walk(f.node) if isinstance(n, ast.Call) and ast.unparse(n.func) in ("asyncio.open_connection", "asyncio.open_unix_connection")]
        lim = next((k.value for o in opens for k in o.keywords if k.arg == "limit"), None)
        v = m.try_fold(f.module, lim) if lim is not None else None
        r.check(bool(opens) and (lim is None or (isinstance(v, int) and v >= 2 * 4095 + 2)), "R5", f"{q}#stream-limit", f"client stream limit {v}", loc=f.loc)

    # the writer refuses no message up to the UDS maximum: explicit raises in write() guarded by the payload are evaluated for the boundary lengths
    from sa.util import path_condition as _pc19
    from sa import miniterp as _mt19
    dpar = next((p_ for p_ in cw.params() if p_ == "data"), None)
    if dpar is None:
        raise AnalysisError(f"{cw.qualname}: data parameter not found")
    refused = []
    for rs in [n for n in walk_no_nested(cw.node) if isinstance(n, ast.Raise)]:
        conds = [(t, pol) for t, pol in _pc19(cw.node, rs) if {x.id for x in ast.walk(t) if isinstance(x, ast.Name)} - {"len", "bytes", "bool"} == {dpar}]
        if not conds:
            continue
        for ln in (1, 2, 4094, 4095):
            if all(bool(_mt19.eval_expr(t, {dpar: bytes(ln)})) == pol for t, pol in conds):
                refused.append(f"{ln} bytes (line {rs.lineno})")
    r.check(not refused, "R5", f"{cw.qualname}#refuses-nothing", f"write() raises for messages of {refused}: every message up to the UDS maximum of 4095 bytes must be written "
            "(a refused message is a gap in the delivered sequence)", loc=cw.loc)

    r.assumptions += ["asyncio.StreamReader.readline is cancel-safe (a cancelled readline leaves the buffer intact) and returns b'' at EOF",
                      "hexlify output alphabet is [0-9a-f]"]
    r.not_decided += ["stream segmentation / coalescing (asyncio's contract)"]
