"""C13 The virtual ECU answers by the ISO 14229-1 default response rules (static clauses)."""
from __future__ import annotations

import ast

from sa.cfg import CFG, enumerate_paths
from sa.model import canon_text, AnalysisError, Model, walk_no_nested
from sa.report import Report

TITLE = "The virtual ECU answers by the ISO 14229-1 default response rules"
SRV = "gallia.services.uds.server"

ORDER = ["default_response_if_service_not_supported", "default_response_if_missing_sub_function",
         "default_response_if_sub_function_not_supported", "default_response_if_incorrect_format",
         "default_response_if_session_change", "default_response_if_session_read", "default_response_if_tester_present",
         "respond_after_default", "default_response_if_none"]


def nrc_of(node: ast.AST, env: dict[str, str]) -> str | None:
    """NRC name of `return NegativeResponse(request.service_id, X)`; X may be a local assigned on the path."""
    if isinstance(node, ast.Return) and isinstance(node.value, ast.Call) and ast.unparse(node.value.func).endswith("NegativeResponse"):
        a = node.value.args
        if len(a) == 2:
            t = ast.unparse(a[1])
            t = env.get(t, t)
            return t.split(".")[-1]
    return None


def decision_table(fn, m=None) -> list[tuple[frozenset, str]]:
    # named conditions (`suppress_requested = isinstance(...) and ...; if suppress_requested:`) are resolved first
    from sa.util import subst_locals as _sld
    import copy as _cpd
    fn = _cpd.copy(fn)
    fn.node = ast.fix_missing_locations(_sld(fn.node, fn.node, conditions=True))
    g = CFG(fn.node)
    if m is not None:
        import copy
        locs = m.local_names(fn)
        def mk(t: str) -> str:
            try:
                tr_ = ast.parse(t, mode="eval")
            except SyntaxError:
                return t
            for x in ast.walk(tr_):
                if isinstance(x, ast.Name) and x.id in locs:
                    x.id = "_L"
            return ast.unparse(tr_)
    else:
        def mk(t: str) -> str:
            return t
    rows = []
    for conds, term, visited in enumerate_paths(g):
        if term.kind == "raise" or term.ast is None:
            continue
        env = {}
        for v in visited:
            if isinstance(v.ast, ast.Assign) and isinstance(v.ast.targets[0], ast.Name):
                env[v.ast.targets[0].id] = ast.unparse(v.ast.value)
        if isinstance(term.ast, ast.Return):
            nrc = nrc_of(term.ast, env)
            outcome = nrc if nrc is not None else ("None" if ast.unparse(term.ast.value) == "None" else ast.unparse(term.ast.value))
            from sa.util import norm_conds
            rows.append((norm_conds([(mk(c) if not c.startswith("loop:") else c, v) for c, v in conds]), outcome, mk(ast.unparse(term.ast.value))))
    return rows


def run(m: Model, r: Report, tier: str) -> None:
    r.rule("R1", "the chain of default responders is in ISO priority order", floor=1)
    r.rule("R2", "each responder is guarded by the behaviour switch of the same name; every switch is consulted exactly once; "
                 "the DB server overrides the same switch set", floor=10)
    r.rule("R3", "NRC decision tables of the individual rules equal the ISO general server response behaviour", floor=8)
    r.rule("R4", "positive replies are suppressed iff the request is a sub-function request with the suppress bit; negative ones never; "
                 "state is updated before suppression", floor=3)
    r.rule("R9", "well-formed requests reach the rules as typed requests: the request codec obligations (byte identity, suppress-bit independent routing, "
           "round-trip guard) hold, so only genuinely malformed requests take the incorrect-format path", floor=1)
    from sa.uds_rules import request_codec_obligations
    request_codec_obligations(m, r, "R9", tier)
    from sa.uds_rules import server_rules_index_guarded
    server_rules_index_guarded(m, r, "R2")
    from sa.uds_rules import session_change_only_into_offered
    session_change_only_into_offered(m, r, "R2")
    r.rule("R5", "session / security state changes only under guards on the positive response classes ISO names; seed/key sequencing", floor=6)

    from sa.uds_rules import iso_tables
    iso_tables(m, r, "R3", "UDSErrorCodes")
    srv = m.require_class(f"{SRV}.UDSServer")
    chain = m.require_function(f"{SRV}.UDSServer.respond_without_state_change")
    # ---------------------------------------------------------------- R1 / R2
    seq: list[tuple[str, str | None]] = []
    for st in chain.node.body:
        if isinstance(st, ast.If):
            calls = [n for n in ast.walk(st.test) if isinstance(n, ast.Call) and isinstance(n.func, ast.Attribute) and ast.unparse(n.func.value) == "self"]
            sw = [ast.unparse(n).replace("self.behavior.", "") for n in ast.walk(st.test) if isinstance(n, ast.Attribute) and ast.unparse(n.value) == "self.behavior"]
            if calls:
                seq.append((calls[0].func.attr, sw[0] if sw else None))
            elif sw:
                inner = [n for n in ast.walk(st) if isinstance(n, ast.Call) and isinstance(n.func, ast.Attribute) and ast.unparse(n.func.value) == "self"]
                seq.append((inner[0].func.attr if inner else "?", sw[0]))
    # each link of the chain, evaluated over (switch on/off) x (responder answers / declines): it answers iff the switch is on and
    # the responder produced a response, and then returns exactly that response
    from sa import miniterp
    n_links = 0
    for st in chain.node.body:
        if not isinstance(st, ast.If):
            continue
        calls = [n for n in ast.walk(st.test) if isinstance(n, ast.Call) and isinstance(n.func, ast.Attribute) and ast.unparse(n.func.value) == "self"]
        sws = [ast.unparse(n) for n in ast.walk(st.test) if isinstance(n, ast.Attribute) and ast.unparse(n.value) == "self.behavior"]
        if not calls:
            continue
        n_links += 1
        name = calls[0].func.attr
        bad_rows = []
        for sw in ((True, False) if sws else (True,)):
            for res in ("RESP", None):
                called = []
                def oracle(call, env, res=res, called=called, name=name):
                    if isinstance(call.func, ast.Attribute) and call.func.attr == name and ast.unparse(call.func.value) == "self":
                        called.append(1)
                        return res
                    return NotImplemented
                env = {"request": "REQ"}
                for s_ in sws:
                    env[s_] = sw
                taken = bool(miniterp.eval_expr(st.test, env, oracle))
                want = sw and res is not None
                ret_ok = True
                if taken:
                    ret_ok = len(st.body) == 1 and isinstance(st.body[0], ast.Return) and st.body[0].value is not None and \
                        miniterp.eval_expr(st.body[0].value, env, oracle) == "RESP"
                if taken != want or not ret_ok or (not sw and called):
                    bad_rows.append(f"switch={'on' if sw else 'off'}, responder={'answers' if res else 'declines'} -> {'answers' if taken else 'falls through'}"
                                    + ("" if ret_ok else " (does not return the responder's response)") + (" (responder called although switched off)" if not sw and called else ""))
        r.check(not bad_rows, "R2", f"{chain.qualname}#{name}-link",
                f"link `{ast.unparse(st.test)[:70]}` behaves as {bad_rows}; it must answer iff its switch is on and the responder returned a response", loc=f"{chain.module.relpath}:{st.lineno}")
    if n_links < 8:
        raise AnalysisError(f"{chain.qualname}: only {n_links} chain links found")
    names = [a for a, _ in seq]
    r.check(names == ORDER, "R1", f"{chain.qualname}#order",
            f"responder order is {names}; ISO priority: service not supported, missing sub-function, sub-function not supported, "
            "incorrect format, then the positive default handlers, the model, generalReject", loc=chain.loc)
    beh = srv.nested.get("Behavior")
    if beh is None:
        raise AnalysisError("UDSServer.Behavior vanished")
    fields = [k for k in beh.class_annots]
    used: dict[str, int] = {}
    for fn in (chain, m.require_function(f"{SRV}.UDSServer.respond")):
        for n in ast.walk(fn.node):
            if isinstance(n, ast.Attribute) and ast.unparse(n.value) == "self.behavior":
                used[n.attr] = used.get(n.attr, 0) + 1
    for f in fields:
        r.check(used.get(f, 0) == 1, "R2", f"{beh.qualname}.{f}#consulted-once", f"switch {f} is consulted {used.get(f, 0)} times", loc=beh.loc)
    for name, sw in seq:
        if name == "respond_after_default":
            continue
        r.check(sw == name, "R2", f"{chain.qualname}#{name}-guard", f"{name} is guarded by switch {sw}: disabling one behaviour must remove exactly that rule", loc=chain.loc)
    for f in fields:
        d = beh.class_attrs.get(f)
        r.check(isinstance(d, ast.Constant) and d.value is True, "R2", f"{beh.qualname}.{f}#default-on", f"default of {f} is {ast.unparse(d) if d else None}", loc=beh.loc)
    dbb = m.require_class(f"{SRV}.DBUDSServer").nested.get("Behavior")
    r.check(dbb is not None and set(dbb.class_annots) == set(fields) and all(isinstance(v, ast.Constant) and v.value is False for v in dbb.class_attrs.values()),
            "R2", f"{SRV}.DBUDSServer.Behavior#same-switches", "the replay server must switch off exactly the same set of behaviours", loc=dbb.loc if dbb else "")

    # ---------------------------------------------------------------- R3
    f1 = m.require_function(f"{SRV}.UDSServer.default_response_if_service_not_supported")
    t1 = decision_table(f1)
    def _ct(t: str) -> str:
        try:
            return canon_text(t)
        except SyntaxError:
            return t

    def has_row(table, need_true: list[str], need_false: list[str], outcome: str) -> bool:
        from sa.util import norm_conds
        def lits(x: str, pol: bool):
            # a spec that is no complete expression (e.g. "any(") is a text fragment of one literal
            try:
                ast.parse(x, mode="eval")
            except SyntaxError:
                return {(x, pol)}
            return set(norm_conds([(_ct(x), pol)]))
        need = set()
        for x in need_true:
            need |= lits(x, True)
        for x in need_false:
            need |= lits(x, False)
        for conds, out, _ in table:
            if out == outcome and all(any(n in c and v == pv for c, v in conds) for n, pv in need):
                return True
        return False
    r.check(has_row(t1, ["request.service_id not in self.supported_services[self.state.session]", "any("], [], "serviceNotSupportedInActiveSession") and
            has_row(t1, ["request.service_id not in self.supported_services[self.state.session]"], ["any("], "serviceNotSupported") and
            has_row(t1, [], ["request.service_id not in self.supported_services[self.state.session]"], "None") and
            m.has(f1, "any((request.service_id in s for s in self.supported_services.values()))"), "R3", f"{f1.qualname}#table",
            f"decision table {[(sorted(c), o) for c, o, _ in t1]}; expected: unknown in the active session -> known elsewhere ? 0x7F : 0x11", loc=f1.loc)
    r.check(all("request.service_id" in full for _, o, full in t1 if o not in ("None",)), "R3", f"{f1.qualname}#names-request-service",
            "the negative response must name the request's service id", loc=f1.loc)
    # applicability of the sub-function rules is decided by the service id alone, so that unparsable (raw) requests of sub-function
    # services are classified like parsed ones
    iss = m.require_function(f"{SRV}.UDSServer._is_sub_function_service")
    srv_cls13 = m.require_class(f"{SRV}.UDSServer")
    isr = srv_cls13.methods.get("_is_sub_function_request")
    if isr is not None:
        APPL_FN, APPL = "self._is_sub_function_request", "self._is_sub_function_request(request)"
        req_par = isr.params()[1] if len(isr.params()) > 1 else "request"
        used = {ast.unparse(n) for n in ast.walk(isr.node) if isinstance(n, ast.Attribute) and isinstance(n.value, ast.Name) and n.value.id == req_par}
        type_tests = [ast.unparse(n) for n in ast.walk(isr.node) if isinstance(n, ast.Call) and ast.unparse(n.func) in ("isinstance", "type")
                      and any(isinstance(a_, ast.Name) and a_.id == req_par for a_ in n.args)]
        bare = [n for n in ast.walk(isr.node) if isinstance(n, ast.Call) and ast.unparse(n.func) not in ("isinstance", "type")
                and any(isinstance(a_, ast.Name) and a_.id == req_par for a_ in n.args)]
        r.check(used == {f"{req_par}.service_id"} and not type_tests and not bare, "R3", f"{isr.qualname}#by-service-id",
                f"whether a request belongs to a sub-function service is decided from {sorted(used) + type_tests}: it must depend on the service id only, "
                "otherwise an unparsable request of a sub-function service skips the missing-/unsupported-sub-function rules and gets 0x13 (or generalReject)", loc=isr.loc)
        r.check(any(isinstance(n, ast.Call) and ast.unparse(n.func) == "self._is_sub_function_service" and [ast.unparse(a_) for a_ in n.args] == [f"{req_par}.service_id"]
                    for n in ast.walk(isr.node)), "R3", f"{isr.qualname}#same-as-model",
                f"must delegate to {iss.name}(request.service_id), the predicate the model generation uses", loc=isr.loc)
    else:
        # the one-line helper was inlined: the rules call the model's predicate on the service id themselves
        APPL_FN, APPL = "self._is_sub_function_service", "self._is_sub_function_service(request.service_id)"
        users_ = [f_ for f_ in srv_cls13.methods.values() if APPL in ast.unparse(f_.node)]
        r.check(len(users_) >= 2, "R3", f"{srv_cls13.qualname}#by-service-id", f"the sub-function rules decide their applicability by {APPL} in {[f_.name for f_ in users_]}", loc=srv_cls13.loc)
        r.ok("R3", f"{srv_cls13.qualname}#same-as-model", "the rules call the model's predicate directly")
    from sa.uds_rules import parse_dynamic_total
    parse_dynamic_total(m, r, "R3")
    # which services count as sub-function services: the predicate derives it from the codec classes; ISO sub-function services for which gallia has no codec class
    # fall through its `except` and count as plain services unless the predicate names them itself
    from sa.codec import Registry as _Reg13
    from sa.oracles import iso14229
    reg13 = _Reg13(m)
    sids = m.enum_members(m.require_class("gallia.services.uds.core.constants.UDSIsoServices")) or {}
    with_codec = {p_.service_id for p_ in reg13.pairs if p_.service_id is not None}
    no_codec = sorted(nm for nm in iso14229.SUBFUNCTION_SERVICES if nm in sids and sids[nm] not in with_codec)
    named = {x.attr for x in ast.walk(iss.node) if isinstance(x, ast.Attribute) and ast.unparse(x.value) == "UDSIsoServices"}
    unknown_to_pred = [nm for nm in no_codec if nm not in named]
    r.check(not unknown_to_pred, "R3", f"{iss.qualname}#iso-sub-function-services", f"{unknown_to_pred} are sub-function services in ISO 14229-1 but have no codec class, so the predicate "
            "answers False for them: the model stores them without sub-functions and an unknown sub-function gets incorrectMessageLengthOrInvalidFormat (0x13) instead of "
            "subFunctionNotSupported (0x12)", loc=iss.loc)
    f2 = m.require_function(f"{SRV}.UDSServer.default_response_if_missing_sub_function")
    t2 = decision_table(f2)
    r.check(has_row(t2, [f"{APPL} and len(request.pdu) < 2"], [], "incorrectMessageLengthOrInvalidFormat") and
            has_row(t2, [], [f"{APPL} and len(request.pdu) < 2"], "None"), "R3", f"{f2.qualname}#table",
            f"decision table {[(sorted(c), o) for c, o, _ in t2]}", loc=f2.loc)
    f3 = m.require_function(f"{SRV}.UDSServer.default_response_if_sub_function_not_supported")
    src3 = ast.unparse(f3.node)
    t3 = decision_table(f3, m)
    outer = [n for n in walk_no_nested(f3.node) if isinstance(n, ast.If) and APPL.replace("self.", "") in ast.unparse(n.test)]
    # decision table of the applicability test: the rule applies exactly to requests of sub-function services other than RoutineControl that carry a sub-function byte
    bad_app = ["test not found"]
    if len(outer) == 1:
        from sa import miniterp as _mt13
        bad_app = []
        for is_sf in (True, False):
            for sid in ("RC", "OTHER"):
                for ln in (1, 2, 3):
                    env_ = {"request.service_id": sid, "UDSIsoServices.RoutineControl": "RC", "request.pdu": bytes(ln)}
                    got = bool(_mt13.eval_expr(outer[0].test, env_, lambda call, env, _v=is_sf: _v if ast.unparse(call.func) == APPL_FN else NotImplemented))
                    want = is_sf and sid != "RC" and ln >= 2
                    if got != want:
                        bad_app.append(f"sub-function service={is_sf}, service={sid}, length={ln} -> {'applies' if got else 'skipped'}")
    r.check(not bad_app, "R3", f"{f3.qualname}#applicability", f"{bad_app[:3]}: the rule applies to sub-function services except RoutineControl, for requests that have a "
            "sub-function byte", loc=f3.loc)
    sf = [n for n in ast.walk(f3.node) if isinstance(n, ast.Assign) and "request.pdu[1]" in ast.unparse(n.value)]
    r.check(len(sf) == 1 and ast.unparse(sf[0].value).replace(" ", "") in ("request.pdu[1]%128", "request.pdu[1]&127", "request.pdu[1]%0x80"), "R3",
            f"{f3.qualname}#sub-function-value",
            f"the looked-up sub-function is `{ast.unparse(sf[0].value) if sf else None}`; it must be byte 1 of the PDU without the suppress bit for parsed "
            "and unparsable requests alike (a malformed request with bit 7 set otherwise gets 0x12 instead of 0x13)", loc=f3.loc)
    # every session of the model is examined: the loop is only left early once the sub-function was found in the active session
    f3loops = [n for n in walk_no_nested(f3.node) if isinstance(n, ast.For)]
    if len(f3loops) != 1:
        raise AnalysisError(f"{f3.qualname}: loop over the sessions not found")
    flags_after = {ast.unparse(n.test.operand) for n in walk_no_nested(f3.node) if isinstance(n, ast.If) and isinstance(n.test, ast.UnaryOp) and isinstance(n.test.op, ast.Not)
                   and isinstance(n.test.operand, ast.Name) and n.lineno > f3loops[0].lineno}
    bad_breaks = []
    for blk in ast.walk(f3loops[0]):
        body_lists = [getattr(blk, "body", None), getattr(blk, "orelse", None)]
        for bl in body_lists:
            if not isinstance(bl, list):
                continue
            for i_, st in enumerate(bl):
                if isinstance(st, ast.Break):
                    prev = bl[i_ - 1] if i_ > 0 else None
                    ok_b = isinstance(prev, ast.Assign) and isinstance(prev.targets[0], ast.Name) and prev.targets[0].id in flags_after \
                        and isinstance(prev.value, ast.Constant) and prev.value.value is True
                    if not ok_b:
                        bad_breaks.append(st.lineno)
    r.check(not bad_breaks, "R3", f"{f3.qualname}#examines-every-session",
            f"the session loop is left early at line(s) {bad_breaks} without the sub-function having been found in the active session: later sessions are not "
            "examined and 0x12 is answered where 0x7E (or no error) is due", loc=f3.loc)
    # the per-session lookup of the service is guarded by the matching membership test (sessions not offering the service are skipped)
    looks = [n for n in ast.walk(f3loops[0]) if isinstance(n, ast.Subscript) and isinstance(n.value, ast.Subscript) and ast.unparse(n.value.value) == "self.supported_services"
             and isinstance(n.ctx, ast.Load)]
    if not looks:
        raise AnalysisError(f"{f3.qualname}: lookup of the service in a session's table not found")
    for lk in looks:
        key_t, cont_t = ast.unparse(lk.slice), ast.unparse(lk.value)
        from sa.util import path_condition as _pcl, norm_conds as _ncl
        lits_l = _ncl(_pcl(f3.node, lk))
        r.check((f"{key_t} in {cont_t}", True) in lits_l, "R3", f"{f3.qualname}#lookup-guard",
                f"`{cont_t}[{key_t}]` is only defined for sessions that offer the service: it must be reached under `{key_t} in {cont_t}` "
                f"(conditions found: {sorted(t for t, v in lits_l if key_t in t)})", loc=f3.loc)
    # flags by role: set True in the branch `== self.state.session` (active) / after it (other)
    r.check(has_row(t3, ["not _L", "_L"], [], "subFunctionNotSupportedInActiveSession") and
            has_row(t3, ["not _L"], ["_L"], "subFunctionNotSupported") and
            m.has(f3, "session == self.state.session") and m.has(f3, "sub_function in supported_sub_functions"), "R3", f"{f3.qualname}#table",
            f"NRC selection changed: {sorted({o for _, o, _ in t3})}", loc=f3.loc)
    f4 = m.require_function(f"{SRV}.UDSServer.default_response_if_incorrect_format")
    t4 = decision_table(f4)
    r.check(has_row(t4, ["isinstance(request, service.RawRequest)"], [], "incorrectMessageLengthOrInvalidFormat") and
            has_row(t4, [], ["isinstance(request, service.RawRequest)"], "None"), "R3", f"{f4.qualname}#table", f"{[(sorted(c), o) for c, o, _ in t4]}", loc=f4.loc)
    f5 = m.require_function(f"{SRV}.UDSServer.default_response_if_none")
    t5 = decision_table(f5)
    r.check([o for _, o, _ in t5] == ["generalReject"], "R3", f"{f5.qualname}#table", f"{t5}", loc=f5.loc)
    for q, want, need in ((f"{SRV}.UDSServer.default_response_if_session_change", "service.DiagnosticSessionControlResponse(request.diagnostic_session_type)",
                           ["isinstance(request, service.DiagnosticSessionControlRequest)", "request.diagnostic_session_type in self.supported_services"]),
                          (f"{SRV}.UDSServer.default_response_if_tester_present", "service.TesterPresentResponse()", ["isinstance(request, service.TesterPresentRequest)"]),
                          (f"{SRV}.UDSServer.default_response_if_session_read", "service.ReadDataByIdentifierResponse(request.data_identifier, to_bytes(self.state.session, 1))",
                           ["isinstance(request, service.ReadDataByIdentifierRequest)", "request.data_identifier == DataIdentifier.ActiveDiagnosticSessionDataIdentifier"])):
        fx = m.require_function(q)
        tx = decision_table(fx)
        outs = {full for _, o, full in tx}
        r.check(want in outs and outs <= {want, "None"}, "R3", f"{q}#table", f"outcomes {sorted(outs)}", loc=fx.loc)
        rows_pos = [({c2 for c, v in conds if v for c2 in c.split(" and ")}, {c for c, v in conds if not v}) for conds, o, full in tx if full == want]
        r.check(bool(rows_pos) and all(tset == {_ct(x) for x in need} and not fset for tset, fset in rows_pos), "R3", f"{q}#condition",
                f"the positive default answer is given under {[(sorted(t), sorted(f_)) for t, f_ in rows_pos]}; expected exactly when {need}", loc=fx.loc)

    # ---------------------------------------------------------------- R4
    fs = m.require_function(f"{SRV}.UDSServer.default_response_if_suppress")
    ts = decision_table(fs)
    cond = "isinstance(response, service.NegativeResponse) or not isinstance(request, service.SubFunctionRequest) or (not request.suppress_response)"
    # compared as a function of its three atoms (negative response / sub-function request / suppress bit), whatever the row structure is
    import itertools as _it13
    A_NEG, A_SUB, A_SUP = "isinstance(response, service.NegativeResponse)", "isinstance(request, service.SubFunctionRequest)", "request.suppress_response"
    ok_fn, unknown_lit = True, []
    for neg_, sub_, sup_ in _it13.product((False, True), repeat=3):
        val = {A_NEG: neg_, A_SUB: sub_, A_SUP: sup_}
        outs_ = set()
        for conds_, out_, _full in ts:
            holds = True
            for t_, pol_ in conds_:
                if " or " in t_ and t_ not in val:
                    # a disjunctive clause of the normal form: "a or not (b) or c"
                    parts_ = [p_.strip() for p_ in t_.split(" or ")]
                    lit_vals = []
                    for p_ in parts_:
                        neg_lit = p_.startswith("not (") and p_.endswith(")")
                        atom_ = p_[5:-1] if neg_lit else p_
                        if atom_ not in val:
                            unknown_lit.append(atom_)
                            lit_vals.append(False)
                        else:
                            lit_vals.append(val[atom_] != neg_lit)
                    truth = any(lit_vals)
                elif t_ in val:
                    truth = val[t_]
                else:
                    unknown_lit.append(t_)
                    truth = False
                if truth != pol_:
                    holds = False
                    break
            if holds:
                outs_.add(out_)
        want_ = "None" if (not neg_ and sub_ and sup_) else "response"
        if outs_ != {want_}:
            ok_fn = False
    r.check3(None if unknown_lit else ok_fn, "R4", f"{fs.qualname}#table",
            f"suppression table {[(sorted(c), o) for c, o, _ in ts]}; a response is dropped iff it is positive and the request is a sub-function request with the suppress bit", loc=fs.loc)
    resp = m.require_function(f"{SRV}.UDSServer.respond")
    g = CFG(resp.node)
    upd = {n.id for n in g.nodes.values() if n.ast is not None and n.kind == "stmt" and "self.update_state(request, _L)" in m.mtext(resp, n.ast)}
    sup = {n.id for n in g.nodes.values() if n.ast is not None and "self.default_response_if_suppress(request, _L)" in m.mtext(resp, n.ast) and n.kind in ("return", "stmt")}
    ok, path = g.must_pass(g.entry, upd, sup)
    r.check(bool(upd and sup) and ok, "R4", f"{resp.qualname}#state-before-suppression",
            "a suppressed positive reply must still change the state: update_state has to run before the suppression step", loc=resp.loc)
    from sa.util import path_condition as _pcr, norm_conds as _ncr
    ucalls = [n for n in ast.walk(resp.node) if isinstance(n, ast.Call) and ast.unparse(n.func) == "self.update_state" and len(n.args) == 2]
    scalls = [n for n in ast.walk(resp.node) if isinstance(n, ast.Call) and ast.unparse(n.func) == "self.default_response_if_suppress" and len(n.args) == 2]
    if len(ucalls) != 1 or not scalls or not all(isinstance(c.args[1], ast.Name) for c in ucalls + scalls):
        r.unrecognised("R4", f"{resp.qualname}#only-real-responses", "update_state / default_response_if_suppress calls with the response variable not found", resp.loc)
    else:
        unguarded = [ast.unparse(c) for c in ucalls + scalls if (f"{c.args[1].id} is None", False) not in _ncr(_pcr(resp.node, c))]
        r.check(not unguarded, "R4", f"{resp.qualname}#only-real-responses", f"{unguarded} can run although there is no response: state update / suppression must be skipped "
                "when there is no response", loc=resp.loc)

    # ---------------------------------------------------------------- R5
    us = m.require_function(f"{SRV}.UDSServer.update_state")
    rules = {}
    for st in us.node.body:
        if isinstance(st, ast.If):
            rules[ast.unparse(st.test)] = [ast.unparse(s) for s in st.body]
    want = {
        "isinstance(response, service.DiagnosticSessionControlResponse)": ["self.state.reset()", "self.state.session = response.diagnostic_session_type"],
        "isinstance(response, service.SecurityAccessResponse) and response.security_access_type % 2 == 0": ["self.state.security_access_level = response.security_access_type - 1"],
        "isinstance(response, service.ECUResetResponse)": ["self.state.reset()"],
    }
    for k, v in want.items():
        r.check(rules.get(k) == v, "R5", f"{us.qualname}#{k.split('service.')[1].split(')')[0]}", f"rule is {rules.get(k)}, ISO: {v}", loc=us.loc)
    r.check(set(rules) == set(want), "R5", f"{us.qualname}#no-other-rules", f"additional state rules: {sorted(set(rules) - set(want))}", loc=us.loc)
    ru = m.require_function(f"{SRV}.RandomUDSServer.update_state")
    tests = [n for n in ast.walk(ru.node) if isinstance(n, ast.Call) and ast.unparse(n.func) == "isinstance"]
    r.check(bool(tests) and all(ast.unparse(t.args[0]) == "response" for t in tests) and "await super().update_state(request, response)" in ast.unparse(ru.node),
            "R5", f"{ru.qualname}#driven-by-responses",
            f"state rules test {[ast.unparse(t) for t in tests]}: they must be driven by what the server answered (a rejected request changes nothing but "
            "still interrupts a seed/key sequence)", loc=ru.loc)
    from sa.uds_rules import security_access_table
    sa, sa_rows = security_access_table(m)
    bad_sa = []
    for (kind, last, rtype, key), out, after in sa_rows:
        if kind == "RequestSeedRequest":
            ok_ = isinstance(out, tuple) and out[:2] == ("SecurityAccessResponse", rtype) and len(out) == 3
        elif last is None or last + 1 != rtype:
            ok_ = out == ("NRC", "requestSequenceError")
        elif key == b"SEED":
            ok_ = out == ("SecurityAccessResponse", rtype) and after is None
        else:
            ok_ = out == ("NRC", "invalidKey") and after is None
        if not ok_:
            bad_sa.append(f"{kind}(type {rtype}, key {key!r}) with pending seed of type {last}: answers {out}, pending seed afterwards {'kept' if after is not None else 'none'}")
    r.check(not bad_sa, "R5", f"{sa.qualname}#seed-key-sequence",
            f"{bad_sa[:3]}: sendKey must be refused with requestSequenceError unless it directly follows the matching requestSeed, the right key is answered positively, "
            "a wrong one with invalidKey, and a seed is valid for one attempt", loc=sa.loc)

    r.assumptions += ["ISO 14229-1 general server response behaviour as summarised in DESIGN.md appendix A"]
    r.not_decided += ["the answer for every model / state / request (runtime behaviour)"]
