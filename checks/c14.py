"""C14 The virtual ECU survives any request and its answers are accepted by the client (static clauses)."""
from __future__ import annotations

import ast

from checks.c01 import stored_fields
from checks.c03 import Matcher
from sa.codec import SERVICE, CodecAnalyser, Registry
from sa.model import AnalysisError, ClassInfo, FuncInfo, Model, walk_no_nested
from sa.report import Report

TITLE = "The virtual ECU survives any request and its answers are accepted by the client"
SRV = "gallia.services.uds.server"

CODEC_HARD = {"byte", "width", "const", "endian", "overflow", "length-definite", "raise"}


def run(m: Model, r: Report, tier: str) -> None:
    r.rule("R1", "every positive reply is built from the response class registered for the handled request, and each echo parameter is bound to "
                 "the request field the client's matcher compares it with; negative replies name request.service_id", floor=15)
    r.rule("R2", "response constructor calls are well-formed (arity / keywords against the resolved __init__)", floor=15)
    r.rule("R3", "isinstance dispatch chains that end in raise cover every concrete subclass of the handled request type; the model dispatch "
                 "covers only typed requests", floor=2)
    r.rule("R4", "the session only changes to a sub-function of DiagnosticSessionControl that the active session offers (or back to 1)", floor=4)
    r.rule("R5", "request parsing falls back to RawRequest for every Exception; the connection loop answers each request with response.pdu", floor=3)
    r.rule("R7", "the client's matcher, evaluated abstractly on (parsed request, emitted response) with equal echoed bytes, never refuses", floor=8)
    r.rule("R9", "random integers the server puts into a response fit the width of the field they are packed into (otherwise struct.pack / to_bytes raises)", floor=3)
    r.rule("R8", "random payloads respect the length bounds their callers rely on (min_len <= length <= max_len for every draw)", floor=2)
    r.rule("R6", "the codec obligations (W∘R byte identity, no raising serialiser) hold for every class the server can emit", floor=8)

    reg = Registry(m)
    ca = CodecAnalyser(m)
    rs = m.require_class(f"{SRV}.RandomUDSServer")
    us = m.require_class(f"{SRV}.UDSServer")
    UDSRequest, UDSResponse = reg.UDSRequest, reg.UDSResponse
    neg = m.require_class(f"{SERVICE}.NegativeResponse")
    response_of: dict[str, ClassInfo] = {}
    for p in reg.pairs:
        if p.request is not None and p.response is not None:
            response_of[p.request.qualname] = p.response

    def rtype_of(req: ClassInfo) -> ClassInfo | None:
        for c in m.mro(req):
            if "response_type" in c.keywords:
                v = m.class_kw(c, "response_type")
                return v if isinstance(v, ClassInfo) else None
        return None

    emitted: set[str] = set()
    handlers = [f for f in list(rs.methods.values()) + list(us.methods.values())
                if "request" in f.params() and f.name not in ("respond", "respond_without_state_change", "update_state", "default_response_if_suppress")]
    n_ctor = 0
    for f in handlers:
        ann = f.param_annotations().get("request")
        req_classes = m.annotation_classes(f.module, ann, f.cls)
        for n in walk_no_nested(f.node):
            if not isinstance(n, ast.Call):
                continue
            target = None
            via_rt = False
            if ast.unparse(n.func) == "request.RESPONSE_TYPE":
                via_rt = True
            else:
                t = m.resolve_expr(f.module, n.func, f.cls)
                if isinstance(t, ClassInfo) and m.is_subclass(t, UDSResponse):
                    target = t
            if target is None and not via_rt:
                continue
            n_ctor += 1
            construct = f"{f.qualname}#{ast.unparse(n.func).split('.')[-1]}@{n.lineno - f.node.lineno}"
            # narrow the request class by an enclosing isinstance(request, T)
            narrowed = list(req_classes)
            for k in walk_no_nested(f.node):
                if isinstance(k, ast.If) and any(x is n for x in ast.walk(k)):
                    for c in ast.walk(k.test):
                        if isinstance(c, ast.Call) and ast.unparse(c.func) == "isinstance" and ast.unparse(c.args[0]) == "request":
                            nc = m.annotation_classes(f.module, c.args[1], f.cls)
                            if nc:
                                narrowed = nc
            if target is not None and m.is_subclass(target, neg):
                emitted.add(target.qualname)
                r.check(bool(n.args) and ast.unparse(n.args[0]) == "request.service_id", "R1", construct,
                        f"negative response names `{ast.unparse(n.args[0]) if n.args else None}` instead of request.service_id: the client refuses it as a mismatch", loc=f"{f.module.relpath}:{n.lineno}")
                init = m.resolve_method(target, "__init__")
                r.check(len(n.args) + len(n.keywords) == len(init.params()) - 1, "R2", construct, "NegativeResponse(request_service_id, response_code) arity", loc=f"{f.module.relpath}:{n.lineno}")
                continue
            # positive reply: determine the concrete response classes
            cands: list[tuple[ClassInfo, ClassInfo]] = []   # (request class, response class)
            concrete_reqs = []
            registered = {c.qualname for c in reg.registered_requests()}
            for rc in narrowed:
                # the server only ever sees what UDSRequest.parse_dynamic returns: registered request classes
                concrete_reqs += [c for c in m.subclasses(rc) if c.qualname in registered]
            if via_rt:
                for rc in concrete_reqs:
                    rt = rtype_of(rc)
                    if rt is not None:
                        cands.append((rc, rt))
            else:
                for rc in concrete_reqs:
                    cands.append((rc, target))
            if not cands:
                r.violation("R1", construct, f"cannot relate the reply to a request class (request annotated {ast.unparse(ann) if ann else None})", f"{f.module.relpath}:{n.lineno}")
                continue
            problems = []
            arity = []
            for rc, resp in cands:
                emitted.add(resp.qualname)
                # the class must be the one dynamic parsing of these bytes yields, or a subclass-compatible registered response
                regd = response_of.get(rc.qualname)
                decl = rtype_of(rc)
                if regd is not None and not (resp == regd or m.is_subclass(regd, resp) or m.is_subclass(resp, regd)):
                    problems.append(f"{resp.name} is not the response registered for {rc.name} ({regd.name})")
                if regd is None and decl is not None and not (resp == decl or m.is_subclass(decl, resp) or m.is_subclass(resp, decl)):
                    problems.append(f"{resp.name} is not the response type of {rc.name} ({decl.name})")
                init = m.resolve_method(resp, "__init__")
                params = init.params()[1:] if init else []
                defaults = init.param_defaults() if init else {}
                bound: dict[str, ast.expr] = dict(zip(params, n.args))
                for kw in n.keywords:
                    if kw.arg:
                        bound[kw.arg] = kw.value
                missing = [p for p in params if p not in bound and p not in defaults]
                if len(n.args) > len(params) or missing or any(kw.arg not in params for kw in n.keywords):
                    arity.append(f"{resp.name}({', '.join(params)}) called with {len(n.args)} positional / {[k.arg for k in n.keywords]} (missing {missing})")
                # echo parameters
                mt = Matcher(m, regd or resp)
                sf = stored_fields(m, resp)
                for req_e, self_e, _fn in mt.atoms:
                    if not (isinstance(self_e, ast.Attribute) and isinstance(self_e.value, ast.Name)):
                        continue
                    fieldname = self_e.attr
                    src = sf.get(fieldname)
                    if src is None or not isinstance(src[1], ast.Name) or src[1].id not in params:
                        continue   # derived / constant field (e.g. sub_function of a specialised class)
                    arg = bound.get(src[1].id)
                    want = ast.unparse(req_e)
                    if isinstance(req_e, ast.Subscript):
                        # RDBI: request.data_identifiers[0] is also reachable as request.data_identifier
                        want_alt = want.replace("data_identifiers[0]", "data_identifier")
                    else:
                        want_alt = want
                    if arg is None or ast.unparse(arg) not in (want, want_alt):
                        problems.append(f"{resp.name}.{src[1].id} is bound to `{ast.unparse(arg) if arg is not None else None}` but the matcher compares it with {want}")
                # identifiers the request carries are echoed from the request (or from a value the path condition proves equal to it)
                from sa.util import path_condition as _pc
                req_fields = set(stored_fields(m, rc)) | {k_ for c2 in m.mro(rc) for k_ in c2.methods}
                owner_st = next((s_ for s_ in ast.walk(f.node) if isinstance(s_, ast.stmt) and not isinstance(s_, (ast.If, ast.For, ast.While, ast.Try, ast.With, ast.FunctionDef, ast.AsyncFunctionDef))
                                 and any(x is n for x in ast.walk(s_))), None)
                eqs = set()
                if owner_st is not None:
                    for t_, pol in _pc(f.node, owner_st):
                        for c_ in ast.walk(t_):
                            if pol and isinstance(c_, ast.Compare) and len(c_.ops) == 1 and isinstance(c_.ops[0], ast.Eq):
                                eqs.add((ast.unparse(c_.left), ast.unparse(c_.comparators[0])))
                                eqs.add((ast.unparse(c_.comparators[0]), ast.unparse(c_.left)))
                for pname, arg in bound.items():
                    cand_fields = [x for x in (pname, pname.rstrip("s"), pname + "s") if x in req_fields]
                    if not cand_fields or "identifier" not in pname:
                        continue
                    at = ast.unparse(arg)
                    okecho = any(at in (f"request.{x}", f"request.{x}[0]") for x in cand_fields) or any((at, f"request.{x}") in eqs for x in cand_fields)
                    if not okecho:
                        problems.append(f"{resp.name}.{pname} is `{at}`, which is not the request's {cand_fields[0]} (nor proven equal to it on this path): the client's matcher refuses the reply "
                                        "whenever the two differ")
            r.check(not problems, "R1", construct, "; ".join(sorted(set(problems))), loc=f"{f.module.relpath}:{n.lineno}",
                    fact_ok=f"{sorted({x[1].name for x in cands})} for {sorted({x[0].name for x in cands})[:3]}")
            r.check(not arity, "R2", construct, "; ".join(sorted(set(arity))), loc=f"{f.module.relpath}:{n.lineno}")
    if n_ctor < 15:
        raise AnalysisError(f"only {n_ctor} response constructions found in the server")

    # ---------------------------------------------------------------- R3
    sa = m.require_function(f"{SRV}.RandomUDSServer.security_access")
    ann = sa.param_annotations().get("request")
    base = m.annotation_classes(sa.module, ann, sa.cls)
    concrete = [c for b in base for c in m.subclasses(b) if not m.is_abstract_class(c)]
    from sa.uds_rules import security_access_table
    _sa, sa_rows = security_access_table(m)
    evaluated = {k[0] for k, _o, _a in sa_rows}
    uncovered = sorted({k[0] for k, out, _a in sa_rows if isinstance(out, tuple) and out[0] == "raise"} | {c.name for c in concrete if c.name not in evaluated})
    r.check(bool(concrete) and not uncovered, "R3", f"{sa.qualname}#exhaustive",
            f"request classes {uncovered} are not answered (the handler raises / does not know them: the connection would be dropped)", loc=sa.loc)
    rad = m.require_function(f"{SRV}.RandomUDSServer.respond_after_default")
    # the dispatch on the request's class: an isinstance chain or a match statement (one view through sa/dispatch.py)
    from sa import dispatch as _dp14
    rpar14 = rad.params()[1] if len(rad.params()) > 1 else "request"
    arms14 = _dp14.arms(rad.node, rpar14)
    if arms14 is None:
        # the same dispatch as a table: `for cls_, handler in ((ReqClass, "method" | self.method), ...): if isinstance(request, cls_): return <handler>(request)`
        tbl_loops = [n for n in rad.node.body if isinstance(n, ast.For) and isinstance(n.target, ast.Tuple) and len(n.target.elts) == 2 and
                     any(isinstance(x, ast.Call) and ast.unparse(x.func) == "isinstance" and len(x.args) == 2 and ast.unparse(x.args[0]) == rpar14
                         and ast.unparse(x.args[1]) == ast.unparse(n.target.elts[0]) for x in ast.walk(n))]
        rows14 = None
        if len(tbl_loops) == 1:
            it_ = tbl_loops[0].iter
            if isinstance(it_, ast.Attribute) and isinstance(it_.value, ast.Name) and it_.value.id in ("self", "cls") and rad.cls is not None:
                it_ = rad.cls.class_attrs.get(it_.attr, it_)
            elif isinstance(it_, ast.Name):
                defs_ = [n.value for n in ast.walk(rad.node) if isinstance(n, (ast.Assign, ast.AnnAssign)) and n.value is not None
                         and ast.unparse(n.targets[0] if isinstance(n, ast.Assign) else n.target) == it_.id]
                it_ = defs_[0] if len(defs_) == 1 else rad.module.assigns.get(it_.id, it_)
            if isinstance(it_, (ast.Tuple, ast.List)) and all(isinstance(e_, ast.Tuple) and len(e_.elts) == 2 for e_ in it_.elts):
                rows14 = [(ast.unparse(e_.elts[0]), e_.elts[1].value if isinstance(e_.elts[1], ast.Constant) else ast.unparse(e_.elts[1]).split(".")[-1]) for e_ in it_.elts]
        if rows14 is not None:
            class _TArm:
                def __init__(self, cls_text, handler):
                    self.patterns, self.default, self.guard = [cls_text + "()"], False, None
                    self.body = [ast.Expr(value=ast.Call(func=ast.Attribute(value=ast.Name(id="self", ctx=ast.Load()), attr=handler, ctx=ast.Load()), args=[], keywords=[]))]
            arms14 = [_TArm(c_, h_) for c_, h_ in rows14]
            tail14 = rad.node.body[rad.node.body.index(tbl_loops[0]) + 1:]

            class _DArm:
                patterns, default, guard = [], True, None
            d_ = _DArm()
            d_.body = tail14
            arms14.append(d_)
    if arms14 is None:
        r.unrecognised("R3", f"{rad.qualname}#fallthrough", "the dispatch on the request class (isinstance chain / match / table) was not recognised", rad.loc)
    else:
        dflt14 = _dp14.default_arm(arms14)
        tail_ = dflt14.body if dflt14 is not None else rad.node.body
        falls = bool(tail_) and isinstance(tail_[-1], ast.Return) and tail_[-1].value is not None and ast.unparse(tail_[-1].value) == "None" \
            and not any(isinstance(n, ast.Raise) for n in ast.walk(rad.node))
        r.check(falls, "R3", f"{rad.qualname}#fallthrough", "requests no handler claims must fall through to generalReject (return None), not raise", loc=rad.loc)
        # handlers are only called under a test of their parameter type
        for arm in arms14:
            for pat in arm.patterns:
                if not pat.endswith("()"):
                    continue
                try:
                    t = m.annotation_classes(rad.module, ast.parse(pat[:-2], mode="eval").body, rad.cls)
                except SyntaxError:
                    t = []
                call = next((x for st in arm.body for x in ast.walk(st) if isinstance(x, ast.Call) and isinstance(x.func, ast.Attribute) and ast.unparse(x.func.value) == "self"), None)
                if call is None or not t:
                    continue
                h = rs.methods.get(call.func.attr)
                if h is None:
                    continue
                want = m.annotation_classes(h.module, h.param_annotations().get("request"), h.cls)
                r.check(bool(want) and all(m.is_subclass(t[0], w) for w in want), "R3", f"{rad.qualname}#dispatch:{h.name}",
                        f"{h.name} expects {[w.name for w in want]} but is called for {t[0].name}", loc=rad.loc)

    # ---------------------------------------------------------------- R4
    chain = m.require_function(f"{SRV}.UDSServer.respond_without_state_change")
    order = [n.func.attr for st in chain.node.body if isinstance(st, ast.If) for n in ast.walk(st.test)
             if isinstance(n, ast.Call) and isinstance(n.func, ast.Attribute) and ast.unparse(n.func.value) == "self"]
    a, b = (order.index(x) if x in order else None for x in ("default_response_if_sub_function_not_supported", "default_response_if_session_change"))
    r.check(a is not None and b is not None and a < b, "R4", f"{chain.qualname}#sub-function-check-before-session-change",
            f"responder order {order}: the positive DiagnosticSessionControl reply must only be produced after the sub-function (= target session) "
            "was found in the active session's list; otherwise the ECU enters a session it does not offer and the next request trips the "
            "'unsupported session' assertion", loc=chain.loc)
    writes = []
    for c in [us] + m.subclasses(us, strict=True):
        for f in c.methods.values():
            for n in walk_no_nested(f.node):
                if isinstance(n, (ast.Assign, ast.AugAssign)):
                    for t in (n.targets if isinstance(n, ast.Assign) else [n.target]):
                        if ast.unparse(t) == "self.state.session":
                            writes.append((f, n))
    okw = bool(writes) and all(f.name == "update_state" and ast.unparse(n.value) == "response.diagnostic_session_type" for f, n in writes)
    r.check(okw, "R4", f"{SRV}#session-writes", f"session is assigned in {[(f.qualname, ast.unparse(n.value)) for f, n in writes]}; only update_state may set it, "
            "from a DiagnosticSessionControl response", loc=us.loc)
    est = m.require_class("gallia.services.uds.ecu.ECUState")
    r.check("self.session = 1" in ast.unparse(est.methods["reset"].node), "R4", f"{est.qualname}.reset#default-session", "reset() must return to session 1", loc=est.loc)
    rz = m.require_function(f"{SRV}.RandomUDSServer.randomize")
    r.check(m.has(rz, "session_transitions[default_session] = {default_session}") and m.has(rz, "default_session = 1"), "R4",
            f"{rz.qualname}#default-session-offered", "session 1 must always be part of the model", loc=rz.loc)
    from checks.c16 import session_graph_rules
    session_graph_rules(m, r, "R4")
    from sa.uds_rules import session_change_only_into_offered
    session_change_only_into_offered(m, r, "R4")
    asrt = [f.qualname for f in us.methods.values() if "Virtual ECU in unsupported session" in ast.unparse(f.node)]
    r.extra["invariant_asserted_in"] = asrt
    for f in us.methods.values():
        for n in ast.walk(f.node):
            if isinstance(n, ast.Assert) and n.msg is not None and "Virtual ECU in unsupported session" in ast.unparse(n.msg):
                t = n.test
                r.check(isinstance(t, ast.Compare) and len(t.ops) == 1 and isinstance(t.ops[0], ast.In) and ast.unparse(t.left) == "self.state.session"
                        and ast.unparse(t.comparators[0]) == "self.supported_services", "R4", f"{f.qualname}#session-invariant-assert",
                        f"the assertion `{ast.unparse(t)}` does not state the invariant established above (session in supported_services): it fails on every request "
                        "and the connection is dropped", loc=f"{f.module.relpath}:{n.lineno}")

    # a responder never indexes request bytes it has not been shown to have: request.pdu[k] (k >= 1) only under the sub-function
    # applicability test (one-byte requests of sub-function services were answered by the missing-sub-function rule before) or a length test
    from sa.util import path_condition
    n_idx = 0
    for cname in ("UDSServer", "RandomUDSServer", "DBUDSServer", "UDSServerTransport"):
        for f in m.require_class(f"{SRV}.{cname}").methods.values():
            for st in ast.walk(f.node):
                if not isinstance(st, ast.stmt):
                    continue
                subs = [x for x in ast.iter_child_nodes(st)] if False else []
            for n in ast.walk(f.node):
                if isinstance(n, ast.Subscript) and isinstance(n.value, ast.Attribute) and n.value.attr == "pdu" and isinstance(n.value.value, ast.Name) and n.value.value.id in ("request", "req"):
                    k_ = m.try_fold(f.module, n.slice) if not isinstance(n.slice, ast.Slice) else None
                    if not isinstance(k_, int) or k_ < 1:
                        continue
                    n_idx += 1
                    owner = next(s_ for s_ in ast.walk(f.node) if isinstance(s_, ast.stmt) and not isinstance(s_, (ast.FunctionDef, ast.AsyncFunctionDef, ast.If, ast.For, ast.While, ast.Try, ast.With))
                                 and any(x is n for x in ast.walk(s_)))
                    conds = path_condition(f.node, owner)
                    # (an applicability test such as _is_sub_function_request() is no length test: with the missing-sub-function rule switched off, the bare
                    # service id of a sub-function service reaches this point)
                    guarded = any(f"len({n.value.value.id}.pdu)" in ast.unparse(t) for t, pol in conds) or \
                        any(isinstance(st_, ast.If) and f"len({n.value.value.id}.pdu)" in ast.unparse(st_.test) and st_.lineno < n.lineno and
                            any(isinstance(x, (ast.Return, ast.Raise)) for x in st_.body) for st_ in ast.walk(f.node))
                    r.check(guarded, "R5", f"{f.qualname}#request.pdu[{k_}]",
                            f"request.pdu[{k_}] is read without a preceding applicability / length test: a shorter request (e.g. the bare service id) raises IndexError, "
                            "the server loop drops the connection", loc=f"{f.module.relpath}:{n.lineno}")
    if n_idx < 1:
        raise AnalysisError("no request.pdu[k] access found in the server responders (expected the sub-function lookup)")

    # ---------------------------------------------------------------- R9
    import re as _re
    from sa.codec import normalised_origin
    from sa import transport_rules as _trb

    def _width(origin: str) -> int | None:
        mt = _re.fullmatch(r"bits<pdu\[[^\]]+\]\.(\d+)\.\.(\d+)>", origin)
        if mt:
            return int(mt.group(1)) - int(mt.group(2)) + 1
        mt = _re.fullmatch(r"from_bytes\(pdu\[(?:(\w+)\+)?(\d+):(?:(\w+)\+)?(\d+)\]\)", origin)
        if mt and mt.group(1) == mt.group(3):
            return 8 * (int(mt.group(4)) - int(mt.group(2)))
        return None

    def _range(f: FuncInfo, e: ast.expr, depth: int = 0) -> tuple[int, int] | None:
        """Value range of an expression built from randint draws (None: not a random integer)."""
        if isinstance(e, ast.Call) and isinstance(e.func, ast.Attribute) and e.func.attr == "randint" and len(e.args) == 2:
            lo, hi = m.try_fold(f.module, e.args[0]), m.try_fold(f.module, e.args[1])
            return (lo, hi) if isinstance(lo, int) and isinstance(hi, int) else None
        if isinstance(e, ast.BinOp) and isinstance(e.op, ast.BitAnd):
            a, b = _range(f, e.left, depth), _range(f, e.right, depth)
            if a and b:
                return (0, min(a[1], b[1]))
            return None
        if isinstance(e, ast.Name) and depth < 3:
            defs_ = [n.value for n in walk_no_nested(f.node) if isinstance(n, ast.Assign) and isinstance(n.targets[0], ast.Name) and n.targets[0].id == e.id]
            rs_ = [_range(f, d, depth + 1) for d in defs_]
            if rs_ and all(rs_):
                return (min(x[0] for x in rs_), max(x[1] for x in rs_))
        return None

    n_r9 = 0
    for f in m.require_class(f"{SRV}.RandomUDSServer").methods.values():
        for n in walk_no_nested(f.node):
            if not isinstance(n, ast.Call):
                continue
            callee = m.resolve_expr(f.module, n.func, f.cls) if isinstance(n.func, (ast.Name, ast.Attribute)) else None
            if not (isinstance(callee, ClassInfo) and any(k.name == "UDSResponse" for k in m.mro(callee))):
                continue
            bound = _trb.bind_call(m, f, n)
            if not bound:
                continue
            fields_ = {}
            for pth in ca.analyse(callee).accepted:
                for fname, v in (pth.fields or {}).items():
                    fields_.setdefault(fname, set()).add(normalised_origin(v))
            for par, arg in bound.items():
                targets = []            # (description, expression, origin)
                origins = fields_.get(par, set())
                if isinstance(arg, ast.Name):
                    dict_stores = [(t.slice, nn.value) for nn in walk_no_nested(f.node) if isinstance(nn, ast.Assign) for t in nn.targets
                                   if isinstance(t, ast.Subscript) and isinstance(t.value, ast.Name) and t.value.id == arg.id]
                    for o in origins:
                        md = _re.fullmatch(r"dict\[(.+?): (.+?) for .*\]", o)
                        if md and dict_stores:
                            for ks, vs in dict_stores:
                                targets.append((f"key of {par}", ks, md.group(1)))
                                targets.append((f"value of {par}", vs, md.group(2)))
                for o in origins:
                    targets.append((par, arg, o))
                for what, expr, o in targets:
                    rg = _range(f, expr)
                    w = _width(o)
                    if rg is None or w is None:
                        continue
                    n_r9 += 1
                    r.check(0 <= rg[0] and rg[1] < 2 ** w, "R9", f"{f.qualname}#{callee.name}.{what}",
                            f"{what} of {callee.name} is drawn from [{rg[0]}, {rg[1]}] but is packed into {w} bits: the serialiser raises for values outside and the "
                            "server drops the connection", loc=f"{f.module.relpath}:{n.lineno}")
                    # ... and lie inside the range the response constructor itself admits (check_range guard on that parameter)
                    if what == par:
                        init_ = callee.methods.get("__init__")
                        guard_ = None
                        for c_ in (ast.walk(init_.node) if init_ is not None else []):
                            if isinstance(c_, ast.Call) and ast.unparse(c_.func) == "check_range" and len(c_.args) == 4 and ast.unparse(c_.args[0]) == par:
                                lo_, hi_ = m.try_fold(init_.module, c_.args[2]), m.try_fold(init_.module, c_.args[3])
                                if isinstance(lo_, int) and isinstance(hi_, int):
                                    guard_ = (lo_, hi_)
                        if guard_ is not None:
                            r.check(guard_[0] <= rg[0] and rg[1] <= guard_[1], "R9", f"{f.qualname}#{callee.name}.{what}:constructor-range",
                                    f"{what} is drawn from [{rg[0]}, {rg[1]}] but {callee.name}.__init__ admits only [{guard_[0]}, {guard_[1]}]: for the values outside, building "
                                    "the reply raises ValueError inside the request handler and the connection is dropped", loc=f"{f.module.relpath}:{n.lineno}")
    if n_r9 < 3:
        raise AnalysisError(f"only {n_r9} random integer response fields found in RandomUDSServer")

    # the state object of a server is created once by the server class itself (RandomUDSServer needs its own RNGEcuState); nobody replaces it
    est = m.require_class("gallia.services.uds.ecu.ECUState")
    repl = []
    for f in m.module(SRV).functions.values():
        pass
    for c_ in m.module(SRV).classes.values():
        for f in c_.methods.values():
            for n in ast.walk(f.node):
                if isinstance(n, (ast.Assign, ast.AnnAssign)):
                    tg = ast.unparse(n.targets[0] if isinstance(n, ast.Assign) else n.target)
                    if tg.endswith(".state") and (tg != "self.state" or f.name != "__init__"):
                        repl.append(f"{f.qualname}:{n.lineno} `{ast.unparse(n)[:50]}`")
                    if tg == "self.state" and f.name == "__init__" and n.value is not None and isinstance(n.value, ast.Call):
                        k_ = m.resolve_expr(f.module, n.value.func, c_)
                        owner_needs = [a for k2 in m.mro(c_) for g in k2.methods.values() for a in
                                       {x.attr for x in ast.walk(g.node) if isinstance(x, ast.Attribute) and ast.unparse(x.value) == "self.state" and not x.attr.startswith("__")}]
                        lacks = sorted({a for a in owner_needs if isinstance(k_, ClassInfo) and not any(
                            a in k3.methods or a in k3.class_attrs or any(isinstance(y, (ast.Assign, ast.AnnAssign)) and
                            ast.unparse(y.targets[0] if isinstance(y, ast.Assign) else y.target) == f"self.{a}" for g2 in k3.methods.values() for y in ast.walk(g2.node))
                            for k3 in m.mro(k_))})
                        r.check(isinstance(k_, ClassInfo) and m.is_subclass(k_, est) and not lacks, "R5", f"{f.qualname}#state-class",
                                f"self.state is a {ast.unparse(n.value.func)} which lacks {lacks} that {c_.name} reads from self.state", loc=f.loc)
    r.check(not repl, "R5", f"{SRV}#state-never-replaced",
            f"the server's state object is replaced outside its constructor: {repl}; a plain ECUState lacks what the concrete server keeps in its own state class "
            "(AttributeError in the next handler, connection dropped). Use state.reset()", loc=m.module(SRV).relpath)

    # ---------------------------------------------------------------- R8
    from sa import miniterp
    rp = m.require_function(f"{SRV}.RNG.random_payload")
    rp_params = rp.params()[1:]
    if rp_params[:2] != ["min_len", "max_len"]:
        raise AnalysisError(f"{rp.qualname}: parameters are {rp_params}")
    bad8 = []
    n8 = 0
    for draw in (0.0, 0.4, 0.6, 3.2, 7.7, 300.2):
        def oracle(call: ast.Call, env, draw=draw):
            return draw if ast.unparse(call.func) in ("self.expovariate", "self.random", "self.gauss", "self.uniform") else NotImplemented
        for mn in (0, 1, 3, 12):
            for mx in (None, 0, 1, 2, 8, 50):
                if mx is not None and mx < mn:
                    continue
                ret, env = miniterp.run_function(rp.node, {"self": None, "min_len": mn, "max_len": mx}, oracle)
                if ret is None or not (isinstance(ret.value, ast.Call) and ast.unparse(ret.value.func) == "bytes" and ret.value.args
                                       and isinstance(ret.value.args[0], ast.GeneratorExp) and len(ret.value.args[0].generators) == 1
                                       and isinstance(ret.value.args[0].generators[0].iter, ast.Call) and ast.unparse(ret.value.args[0].generators[0].iter.func) == "range"
                                       and len(ret.value.args[0].generators[0].iter.args) == 1):
                    raise AnalysisError(f"{rp.qualname}: the returned value is not bytes(<draw> for _ in range(<length>))")
                ln = miniterp.eval_expr(ret.value.args[0].generators[0].iter.args[0], env, oracle)
                n8 += 1
                if ln < mn or (mx is not None and ln > mx):
                    bad8.append(f"draw={draw}, min_len={mn}, max_len={mx} -> {ln} bytes")
    r.check(not bad8, "R8", f"{rp.qualname}#length-bounds",
            f"random_payload violates its bounds for {len(bad8)} of {n8} evaluated (draw, min_len, max_len) combinations, e.g. {bad8[:2]}: "
            "read_data_by_identifier / input_output_control rely on min_len=1 (an empty dataRecord is a malformed response, or the constructor raises)", loc=rp.loc)
    users = [f for f in m.require_class(f"{SRV}.RandomUDSServer").methods.values() if f.name in ("read_data_by_identifier", "input_output_control_by_identifier")]
    for f in users:
        calls_ = [n for n in ast.walk(f.node) if isinstance(n, ast.Call) and isinstance(n.func, ast.Attribute) and n.func.attr == "random_payload"]
        r.check(bool(calls_) and all(any(k.arg == "min_len" and m.try_fold(f.module, k.value) == 1 for k in c.keywords) or
                                     (c.args and m.try_fold(f.module, c.args[0]) == 1) for c in calls_), "R8", f"{f.qualname}#non-empty-record",
                "the data record of a positive response must have at least one byte (random_payload(min_len=1))", loc=f.loc)

    # ---------------------------------------------------------------- R5
    from sa.uds_rules import parse_dynamic_total
    parse_dynamic_total(m, r, "R5")
    hr = m.require_function(f"{SRV}.UDSServerTransport.handle_request")
    roles = {}
    for n in walk_no_nested(hr.node):
        if isinstance(n, ast.Assign) and isinstance(n.targets[0], ast.Name):
            if ast.unparse(n.value) == "service.UDSRequest.parse_dynamic(request_pdu)":
                roles[n.targets[0].id] = "REQ"
            elif ast.unparse(n.value).startswith("await self.server.respond("):
                roles[n.targets[0].id] = "RESP"
    src = m.mtext(hr, None, roles)
    rets_pdu = [n for n in walk_no_nested(hr.node) if isinstance(n, ast.Return) and n.value is not None and "RESP.pdu" in m.mtext(hr, n.value, roles)]
    if len(rets_pdu) == 1:
        from sa.util import path_condition, truth_table
        rv = next((k for k, v in roles.items() if v == "RESP"), None)
        badp = truth_table(path_condition(hr.node, rets_pdu[0]), {rv: [None, "R"]}, lambda a: a[rv] is not None) if rv else ["?"]
        r.check(not badp, "R5", f"{hr.qualname}#serialises-iff-response", f"response.pdu is returned on {badp}: it must be returned exactly when the server produced a response "
                "(None.pdu raises and the connection is dropped)", loc=hr.loc)
    r.check("REQ = service.UDSRequest.parse_dynamic(request_pdu)" in src and "RESP = await self.server.respond(REQ)" in src and "return (RESP.pdu," in src, "R5",
            f"{hr.qualname}#pipeline", "handle_request must parse dynamically, ask the server and serialise its response", loc=hr.loc)
    hc = m.require_function(f"{SRV}.TCPUDSServerTransport.handle_client")
    tr_ = [t for t in ast.walk(hc.node) if isinstance(t, ast.Try)]
    # every exception of an exchange ends this connection only: the exchange sits in a try whose `except Exception` neither re-raises nor goes on with the
    # same (possibly desynchronised) stream - it leaves the loop (break / return), or it encloses the whole loop
    exch_ = [n for n in ast.walk(hc.node) if isinstance(n, ast.Call) and ast.unparse(n.func).endswith("handle_request")]
    lp_ = [n for n in ast.walk(hc.node) if isinstance(n, ast.While)]
    okg = False
    for t_ in tr_:
        if not (exch_ and any(exch_[0] is x for b_ in t_.body for x in ast.walk(b_))):
            continue
        for h in t_.handlers:
            if h.type is None or ast.unparse(h.type) not in ("Exception", "BaseException"):
                continue
            if any(isinstance(x, ast.Raise) for x in ast.walk(h)):
                continue
            encloses_loop = any(l_ is x for l_ in lp_ for b_ in t_.body for x in ast.walk(b_))
            leaves = isinstance(h.body[-1], (ast.Break, ast.Return))
            okg = okg or encloses_loop or leaves
    r.check(okg, "R5", f"{hc.qualname}#loop-guard", "the connection loop must catch every Exception of one exchange", loc=hc.loc)

    # ---------------------------------------------------------------- R6
    for q in sorted(emitted):
        cls = m.classes[q]
        if m.is_abstract_class(cls) or m.class_kw(cls, "service_id", None) is None:
            continue
        a_ = ca.analyse(cls)
        issues = [i for p in a_.accepted for i in p.issues if i.kind in CODEC_HARD]
        r.check(bool(a_.accepted) and not issues, "R6", q, "; ".join(sorted({i.msg for i in issues}))[:600], loc=cls.loc)

    # the client's length gate admits what the server can build: the declared envelope covers the ISO envelope of the response
    from sa.oracles import iso14229 as _iso
    n_env = 0
    for pr in reg.pairs:
        if pr.response is None or pr.service_id is None or pr.response.qualname not in emitted:
            continue
        key = (pr.service_id, pr.sub_function_id) if (pr.service_id, pr.sub_function_id) in _iso.RESP else (pr.service_id, None)
        if key not in _iso.RESP:
            continue
        _shapes, iso_min, iso_max = _iso.RESP[key]
        mn, mx = m.class_kw(pr.response, "minimal_length"), m.class_kw(pr.response, "maximal_length")
        n_env += 1
        r.check(isinstance(mn, int) and mn <= iso_min and (mx is None or (iso_max is not None and mx >= iso_max)), "R6", f"{pr.response.qualname}#envelope",
                f"declared lengths {mn}..{mx} do not cover the ISO envelope {iso_min}..{iso_max}: a reply the server builds with every optional field is refused by "
                "the client's parser as malformed", loc=pr.response.loc)
    if n_env < 8:
        raise AnalysisError(f"only {n_env} emitted response classes have an ISO envelope row")

    # ---------------------------------------------------------------- R7
    from checks.c03 import abstract_match
    for pr in reg.pairs:
        if pr.request is None or pr.response is None or pr.service_id is None or pr.response.qualname not in emitted:
            continue
        mt = Matcher(m, pr.response)
        if not mt.funcs:
            continue
        refusals, n_eval = abstract_match(ca, mt, ca.analyse(pr.request), ca.analyse(pr.response))
        r.check(not refusals, "R7", f"{pr.response.qualname}~{pr.request.name}", "; ".join(sorted(set(refusals)))[:600] +
                ": the client refuses the virtual ECU's own answer as a mismatch", loc=mt.funcs[0].loc, fact_ok=f"{n_eval} abstract outcomes")

    r.assumptions += ["the model (supported_services) only lists sessions created by randomize; handlers do not raise for values the request constructors admit"]
    r.not_decided += ["absence of exceptions for all inputs (not statically boundable here)", "reachability of states"]
