"""C07 HSFZ: frames are demultiplexed correctly under any segmentation and interleaving (static clauses)."""
from __future__ import annotations

import ast
import struct

from sa import transport_rules as tr
from sa.callgraph import CallGraph
from sa.cfg import CFG
from sa.locks import LockModel
from sa.model import AnalysisError, Model, walk_no_nested
from sa.report import Report

TITLE = "HSFZ: frames are demultiplexed correctly under any segmentation and interleaving"
HSFZ = "gallia.transports.hsfz"


def run(m: Model, r: Report, tier: str) -> None:
    r.rule("R12", "the HSFZ control words (Data, Ack, AliveCheck, the error words) carry the protocol's values", floor=2)
    from sa.oracles import iso13400
    tr.protocol_tables(m, r, "R12", HSFZ, iso13400.HSFZ_TABLES)
    r.rule("R1", "HSFZHeader / HSFZDiagReqHeader pack and unpack agree (format, arity, field order, network byte order)", floor=8)
    r.rule("R2", "_read_frame consumes exactly 6 + Len bytes with readexactly on every path (short frames included)", floor=4)
    r.rule("R3", "the reader task never blocks on a lock that a consumer holds while waiting for the read queue", floor=1)
    r.rule("R4", "alive checks are answered from the reader task, before the next read, with the tester address", floor=3)
    r.rule("R5", "control words other than ack/data are queued as int; _unpack_frame closes, then raises BrokenPipeError", floor=3)
    r.rule("R6", "ack predicate = {control word is Ack, (src,dst) = (tester, ecu), data = first 5 request bytes}; data filter uses the swapped pair", floor=5)
    r.rule("R7", "frames skipped while waiting are re-queued before returning", floor=2)
    r.rule("R9", "write path: Data frame with Len = payload + address header, written and drained before the ack wait", floor=3)
    r.rule("R8", "the ack wait is bounded by ack_timeout; on timeout the connection is closed and BrokenPipeError raised", floor=3)

    mod = m.module(HSFZ)
    conn = m.require_class(f"{HSFZ}.HSFZConnection")
    cg = CallGraph(m)
    lm = LockModel(m, cg)

    for cname in ("HSFZHeader", "HSFZDiagReqHeader"):
        tr.codec_agreement(m, r, "R1", m.require_class(f"{HSFZ}.{cname}"))
    hdr_fmt = tr.fmt_of(m, m.require_function(f"{HSFZ}.HSFZHeader.pack"), tr.struct_calls(m.require_function(f"{HSFZ}.HSFZHeader.pack"), "pack")[0])
    req_fmt = tr.fmt_of(m, m.require_function(f"{HSFZ}.HSFZDiagReqHeader.pack"), tr.struct_calls(m.require_function(f"{HSFZ}.HSFZDiagReqHeader.pack"), "pack")[0])
    hsize, rsize = struct.calcsize(hdr_fmt), struct.calcsize(req_fmt)

    # ---------------------------------------------------------------- R2
    rf = m.require_function(f"{HSFZ}.HSFZConnection._read_frame")
    g = tr.consumption(m, r, "R2", rf, hsize)
    # linear consumption: on the long path  rsize + (hdr.Len - rsize); on the short path hdr.Len (if > 0)
    reads = [n for n in ast.walk(rf.node) if isinstance(n, ast.Call) and isinstance(n.func, ast.Attribute) and n.func.attr.startswith("read")
             and ast.unparse(n.func.value) == "self.reader"]
    args = [ast.unparse(x.args[0]).replace(" ", "") for x in reads if x.args]
    # consumption, evaluated over the announced length: after the header exactly hdr.Len further bytes are read - the address header first when there is
    # room for it - and the frame parts are returned (no gallia code runs: the statements of _read_frame are interpreted, reads are recorded)
    from sa import miniterp as _mtf

    def _consume(length: int):
        sizes: list[int] = []

        def orc(call, env_):
            f_ = ast.unparse(call.func)
            if f_ == "self.reader.readexactly" and len(call.args) == 1:
                n_ = _mtf.eval_expr(call.args[0], env_, orc)
                sizes.append(n_)
                return bytes(n_) if isinstance(n_, int) and n_ >= 0 else NotImplemented
            if f_.endswith("HSFZHeader.unpack"):
                return _mtf.Obj(Len=length, CWord=1)
            if f_.endswith("HSFZDiagReqHeader.unpack"):
                return _mtf.Obj(src_addr=1, dst_addr=2)
            return NotImplemented
        ret_, env_ = _mtf.run_function(rf.node, {}, orc)
        val_ = _mtf.eval_expr(ret_.value, env_, orc) if ret_ is not None and ret_.value is not None else None
        return sizes, val_
    bad_c, unk_c = {"short": [], "long": []}, None
    try:
        for L_ in (0, 1, 2, 3, 10):
            sizes_, val_ = _consume(L_)
            want_sizes = [hsize, rsize, L_ - rsize] if L_ >= rsize else [hsize] + ([L_] if L_ > 0 else [])
            shape_ok = isinstance(val_, tuple) and len(val_) == 3 and (val_[1] is None) == (L_ < rsize) and \
                (val_[2] == bytes(L_ - rsize) if L_ >= rsize else val_[2] in (None, bytes(L_)) and (val_[2] is None) == (L_ == 0))
            if sizes_ != want_sizes or not shape_ok:
                bad_c["short" if L_ < rsize else "long"].append(f"Len={L_}: reads {sizes_} (expected {want_sizes}), returns {val_!r}")
    except (AnalysisError, _mtf.Raised) as ex_:
        unk_c = str(ex_)
    r.check3(None if unk_c else not bad_c["short"], "R2", f"{rf.qualname}#short-frames",
             f"{bad_c['short'][:2]}: frames shorter than the {rsize}-byte address header must still be consumed completely (hdr.Len bytes) before returning", loc=rf.loc,
             unknown_msg=f"_read_frame is outside the evaluated language: {unk_c}")
    r.check3(None if unk_c else not bad_c["long"], "R2", f"{rf.qualname}#long-frames",
             f"{bad_c['long'][:2]}: after the {rsize}-byte address header exactly hdr.Len - {rsize} payload bytes must be read", loc=rf.loc,
             unknown_msg=f"_read_frame is outside the evaluated language: {unk_c}")
    other_readers = [f.qualname for f in conn.methods.values() if f is not rf and any(
        isinstance(n, ast.Call) and isinstance(n.func, ast.Attribute) and ast.unparse(n.func.value) == "self.reader" and n.func.attr.startswith("read")
        for n in ast.walk(f.node))]
    r.check(not other_readers, "R2", f"{conn.qualname}#single-reader", f"other functions read from the stream: {other_readers}", loc=conn.loc)

    # ---------------------------------------------------------------- R3
    tr.wait_for_cycle(m, r, "R3", cg, lm, conn, "_read_worker", "_read_queue")
    rw = m.require_function(f"{HSFZ}.HSFZConnection._read_worker")
    r.check(not lm.acquisitions(rw), "R3", f"{rw.qualname}#lock-free", "the reader task takes a lock itself", loc=rw.loc)

    tr.reader_loop_total(r, "R3", rw, ("self._read_queue.put(", "self.send_alive_msg("))
    tr.queues_unbounded(m, r, "R3", conn, rw)
    tr.match_subject_total(m, r, "R3", rw)

    # ---------------------------------------------------------------- R4
    # roles of the frame parts: the tuple unpacked from _read_frame()
    fr_roles: dict[str, str] = {}
    for n in ast.walk(rw.node):
        if isinstance(n, ast.Assign) and isinstance(n.targets[0], ast.Tuple) and "self._read_frame()" in ast.unparse(n.value) and len(n.targets[0].elts) == 3:
            fr_roles = {e.id: role for e, role in zip(n.targets[0].elts, ("HDR", "REQ_HDR", "DATA")) if isinstance(e, ast.Name)}
    if len(fr_roles) != 3:
        raise AnalysisError(f"{rw.qualname}: `hdr, req_hdr, data = await self._read_frame()` not found")
    # the dispatch on the control word: a match statement or an if / elif chain on hdr.CWord (sa/dispatch.py gives both one shape)
    from sa import dispatch as _dp
    hdr_name = next(k_ for k_, v_ in fr_roles.items() if v_ == "HDR")
    cw_arms = _dp.arms(rw.node, f"{hdr_name}.CWord")
    if cw_arms is None:
        # the control word may be held in a local first (`cword = hdr.CWord`): look at the function with such aliases resolved
        from sa.util import subst_locals as _sl7
        import copy as _cp7

        class _RW:  # the reader function with its aliases substituted, same interface as far as the rules below go
            pass
        rw_alias = _cp7.copy(rw)
        rw_alias.node = _sl7(rw.node, rw.node, set(fr_roles))
        cw_arms = _dp.arms(rw_alias.node, f"{hdr_name}.CWord")
        if cw_arms is not None:
            rw = rw_alias
    if cw_arms is None:
        raise AnalysisError(f"{rw.qualname}: dispatch on hdr.CWord not found")
    disp_node = cw_arms[0].node if not isinstance(cw_arms[0].node, ast.match_case) else next(n for n in ast.walk(rw.node) if isinstance(n, ast.Match) and cw_arms[0].node in n.cases)
    # the control word is looked at before any frame is discarded for missing parts: error words and alive checks are
    # legal as short frames (no address header / payload)
    loop_ = next(n for n in walk_no_nested(rw.node) if isinstance(n, ast.While))
    pre = []
    for st in loop_.body:
        if st is disp_node:
            break
        if isinstance(st, ast.If) and any(isinstance(x, (ast.Continue, ast.Break)) for x in ast.walk(st)) and \
                any(role in m.mtext(rw, st.test, fr_roles) for role in ("REQ_HDR", "DATA")):
            pre.append(m.mtext(rw, st.test, fr_roles))
    r.check(disp_node in loop_.body and not pre, "R4", f"{rw.qualname}#dispatch-before-filter",
            f"frames are skipped on {pre} before the control word is dispatched: an alive check or an error/status word sent as a short frame "
            "(no address header / payload) is swallowed instead of being answered / surfacing as a connection error", loc=rw.loc)

    class _A:  # arm view with the attributes the rules below read
        def __init__(self, a_):
            self.body = a_.body
    arms = {}
    for a_ in cw_arms:
        arms[" | ".join(a_.patterns) if a_.patterns else "_"] = _A(a_)
        for p_ in a_.patterns:
            arms.setdefault(p_, _A(a_))
    alive = arms.get("HSFZStatus.AliveCheck")
    from sa.cfg import CFG as _CFGa
    ga_ = _CFGa(rw.node)
    ans_ = [n.id for n in ga_.nodes.values() if n.kind == "stmt" and n.ast is not None and alive is not None and any(n.ast is s_ for s_ in alive.body) and "await self.send_alive_msg()" in ast.unparse(n.ast)]
    puts_a = {n.id for n in ga_.nodes.values() if n.kind == "stmt" and n.ast is not None and ("_read_queue.put(" in ast.unparse(n.ast) or "put_nowait(" in ast.unparse(n.ast))}
    heads_a = {n.id for n in ga_.nodes.values() if n.kind == "loop"}
    r.check(alive is not None and len(ans_) == 1 and (not puts_a or ga_.must_pass(ans_[0], heads_a, puts_a)[0]),
            "R4", f"{rw.qualname}#alive-arm", "alive checks must be answered in the reader task and not queued", loc=rw.loc)
    sa = m.require_function(f"{HSFZ}.HSFZConnection.send_alive_msg")
    txt = ast.unparse(sa.node)
    r.check("CWord=HSFZStatus.AliveCheck" in txt and "Len=2" in txt and "struct.pack('!H', self.src_addr)" in txt, "R4", f"{sa.qualname}#reply",
            "the alive check reply must be an AliveCheck frame of length 2 carrying the tester address", loc=sa.loc)
    r.check("self.writer.write(" in txt and not lm.acquisitions(sa), "R4", f"{sa.qualname}#direct-write", "the reply must be written directly (no lock)", loc=sa.loc)

    # ---------------------------------------------------------------- R5
    data_arm = arms.get("HSFZStatus.Ack") if arms.get("HSFZStatus.Ack") is arms.get("HSFZStatus.Data") or (arms.get("HSFZStatus.Ack") is not None and arms.get("HSFZStatus.Data") is not None and arms["HSFZStatus.Ack"].body is arms["HSFZStatus.Data"].body) else None
    default = arms.get("_")
    r.check(data_arm is not None and any("self._read_queue.put((HDR, REQ_HDR, DATA))" in m.mtext(rw, s, fr_roles) for s in data_arm.body), "R5",
            f"{rw.qualname}#data-arm", "ack and data frames must be queued as (hdr, req_hdr, data)", loc=rw.loc)
    r.check(default is not None and any("self._read_queue.put(HDR.CWord)" in m.mtext(rw, s, fr_roles) for s in default.body), "R5",
            f"{rw.qualname}#control-word-arm", "other control words must be queued as int so that consumers see the error", loc=rw.loc)
    uf = m.require_function(f"{HSFZ}.HSFZConnection._unpack_frame")
    # an int frame (error control word): the connection is closed on every path to the BrokenPipeError that reports it (match arm or isinstance test)
    from sa.cfg import CFG as _CFGu
    from sa.util import path_condition as _pcu, norm_conds as _ncu
    gu_ = _CFGu(uf.node)
    fpar = uf.params()[1] if len(uf.params()) > 1 else "frame"
    rz = [n for n in gu_.nodes.values() if n.kind == "raise" and n.ast is not None and "BrokenPipeError" in ast.unparse(n.ast)]
    cz = {n.id for n in gu_.nodes.values() if n.kind == "stmt" and n.ast is not None and "await self.close()" in ast.unparse(n.ast)}
    def _int_arm(node) -> bool:
        for mt_ in [x for x in ast.walk(uf.node) if isinstance(x, ast.Match)]:
            for c in mt_.cases:
                if any(x is node for b_ in c.body for x in ast.walk(b_)):
                    return ast.unparse(mt_.subject) == fpar and ast.unparse(c.pattern) == "int()"
        return (f"isinstance({fpar}, int)", True) in _ncu(_pcu(uf.node, node))
    oku = bool(rz) and bool(cz) and all(gu_.must_pass(gu_.entry, cz, {n.id})[0] and _int_arm(n.ast) for n in rz)
    r.check(oku, "R5", f"{uf.qualname}#error-word", "an error control word must close the connection and surface as BrokenPipeError", loc=uf.loc)

    # ---------------------------------------------------------------- R6 / R7
    ack = m.require_function(f"{HSFZ}.HSFZConnection._read_ack")
    diag = m.require_function(f"{HSFZ}.HSFZConnection.read_diag_request")
    tr.address_filter(r, "R6", ack, {"req_hdr.src_addr != self.src_addr", "req_hdr.dst_addr != self.dst_addr"}, m)
    tr.address_filter(r, "R6", diag, {"req_hdr.src_addr != self.dst_addr", "req_hdr.dst_addr != self.src_addr"}, m)
    def first_if_test(fn, needle):
        return [m.mtext(fn, n.test) for n in walk_no_nested(fn.node) if isinstance(n, ast.If) and needle in ast.unparse(n.test)]
    r.check(first_if_test(ack, "HSFZStatus") == [m.mpat(ack, "hdr.CWord != HSFZStatus.Ack")], "R6", f"{ack.qualname}#control-word",
            f"ack control word test: {first_if_test(ack, 'HSFZStatus')}", loc=ack.loc)
    r.check(first_if_test(diag, "HSFZStatus") == [m.mpat(diag, "hdr.CWord != HSFZStatus.Data")], "R6", f"{diag.qualname}#control-word",
            f"data control word test: {first_if_test(diag, 'HSFZStatus')}", loc=diag.loc)
    # the echo test, evaluated: an acknowledgement belongs to the request iff it carries exactly the request's first five bytes
    from sa import miniterp as _mt7
    apar = ack.params()[1] if len(ack.params()) > 1 else "prev_data"
    echo_ifs = [n for n in walk_no_nested(ack.node) if isinstance(n, ast.If) and any(isinstance(x, ast.Name) and x.id == apar for x in ast.walk(n.test))]
    others_ = sorted({x.id for n in echo_ifs for x in ast.walk(n.test) if isinstance(x, ast.Name) and x.id != apar}) if echo_ifs else []
    if len(echo_ifs) != 1 or len(others_) != 1:
        r.unrecognised("R6", f"{ack.qualname}#echo", f"{len(echo_ifs)} test(s) read the request bytes ({apar}); names compared with it: {others_}", ack.loc)
    else:
        req_ = bytes(range(1, 9))
        bade = []
        try:
            for echo in (req_[:5], req_[:4], req_[:6], b"", req_[1:6], req_[:4] + b"\xff"):
                skipped = bool(_mt7.eval_expr(echo_ifs[0].test, {apar: req_, others_[0]: echo}))
                if skipped != (echo != req_[:5]):
                    bade.append(f"echo {echo.hex() or '<empty>'}: {'skipped' if skipped else 'accepted'}")
            r.check(not bade, "R6", f"{ack.qualname}#echo", f"for the request {req_.hex()}: {bade}; an ack echoes the first five request bytes", loc=ack.loc)
        except AnalysisError as ex_:
            r.unrecognised("R6", f"{ack.qualname}#echo", str(ex_), ack.loc)
    # the ack wait sets aside every frame whose control word is not Ack - data frames included
    cw_tests = [n.test for n in walk_no_nested(ack.node) if isinstance(n, ast.If) and "HSFZStatus.Ack" in ast.unparse(n.test) and any(isinstance(x, ast.Continue) for x in n.body)]
    skips_data = len(cw_tests) == 1 and isinstance(cw_tests[0], ast.Compare) and isinstance(cw_tests[0].ops[0], ast.NotEq)
    tr.requeue_order(r, "R7", ack, rw, "_read_queue", skips_deliverable=skips_data)
    tr.requeue_before_exit(r, "R7", ack, "self._read_queue")
    tr.requeue_on_cancellation(r, "R7", ack, "self._read_queue")
    tr.requeue_on_cancellation(r, "R7", diag, "self._read_queue")
    tr.requeue_before_exit(r, "R7", diag, "self._read_queue")

    # ---------------------------------------------------------------- R8
    wr = m.require_function(f"{HSFZ}.HSFZConnection.write_diag_request_raw")
    tr.ack_timeout_handler(m, r, "R8", wr, "self._read_ack")
    tr.hsfz_ack_timeout_units(m, r, "R8")
    waits = [n for n in ast.walk(wr.node) if isinstance(n, ast.Call) and ast.unparse(n.func) == "asyncio.wait_for"]
    r.check(len(waits) == 1 and len(waits[0].args) == 2 and ast.unparse(waits[0].args[1]) == "self.ack_timeout" and
            ast.unparse(waits[0].args[0]) == "self._read_ack(data)", "R8", f"{wr.qualname}#ack-args",
            "the ack wait must use self.ack_timeout and the data just written", loc=wr.loc)
    mutex = lm.key_for(conn, "_mutex", lm.locks)
    r.check(mutex is not None and all(mutex in lm.held_syntactic(wr, w) for w in waits) and
            all(mutex in lm.held_syntactic(wr, n) for n in ast.walk(wr.node) if isinstance(n, ast.Call) and ast.unparse(n.func) == "self.write_frame"),
            "R8", f"{wr.qualname}#write-and-ack-atomic", "write and ack wait must form one critical section under the connection mutex", loc=wr.loc)

    # ---------------------------------------------------------------- R9 write path
    wd = m.require_function(f"{HSFZ}.HSFZConnection.write_diag_request")
    r.check(m.has(wd, f"HSFZHeader(Len=len(data) + {rsize}, CWord=HSFZStatus.Data)") and m.has(wd, "HSFZDiagReqHeader(src_addr=self.src_addr, dst_addr=self.dst_addr)") and
            m.has(wd, "self.write_diag_request_raw(hdr, req_hdr, data)"), "R9", f"{wd.qualname}#frame",
            f"a request must be framed as Data with Len = len(data) + {rsize} and the (tester, ecu) address pair", loc=wd.loc)
    order = [ast.unparse(n) for n in ast.walk(wr.node) if isinstance(n, ast.Await)]
    iw = next((i for i, t in enumerate(order) if "self.write_frame(" in t), None)
    ia = next((i for i, t in enumerate(order) if "self._read_ack(" in t), None)
    r.check(iw is not None and ia is not None and iw < ia, "R9", f"{wr.qualname}#write-then-ack", "the frame must be written before waiting for its ack", loc=wr.loc)
    wf = m.require_function(f"{HSFZ}.HSFZConnection.write_frame")
    r.check(m.has(wf, "self.writer.write(buf)") and m.has(wf, "self.writer.drain()") and m.has(wf, "buf += hdr.pack()") and m.has(wf, "buf += req_hdr.pack()") and m.has(wf, "buf += data"),
            "R9", f"{wf.qualname}#sends", "write_frame must send header, address header and data and drain", loc=wf.loc)

    r.assumptions += ["asyncio.StreamReader.readexactly returns exactly n bytes or raises"]
    r.not_decided += ["orderings such as data-before-ack (re-queue at the tail can reorder: schedule dependent)", "segmentation (delegated to readexactly)"]
