"""C10 Service and identifier scans report what the ECU really supports, nothing else (static clauses)."""
from __future__ import annotations

import ast

from sa.cfg import CFG
from sa.model import canon_text, AnalysisError, FuncInfo, Model, walk_no_nested
from sa.report import Report
from sa.util import check_unravel_2d

TITLE = "Service and identifier scans report what the ECU really supports, nothing else"
SVC = "gallia.commands.scan.uds.services"
IDS = "gallia.commands.scan.uds.identifiers"
HELPERS = "gallia.services.uds.helpers"
UTILS = "gallia.utils"


def codes_in(m: Model, fn: FuncInfo, expr: ast.expr) -> set[str]:
    return {ast.unparse(e).split(".")[-1] for e in ast.walk(expr) if isinstance(e, ast.Attribute) and ast.unparse(e).startswith("UDSErrorCodes.")}


def run(m: Model, r: Report, tier: str) -> None:
    r.rule("R1", "service ids probed are exactly 0x00..0xFF minus response ids (unless requested) minus the skip map", floor=4)
    r.rule("R2", "the skip test dominates every probe (both scanners)", floor=2)
    r.rule("R3", "each service is probed with payload lengths 1,2,3,5 until a decisive answer: timeouts and length errors move on to the next length", floor=3)
    r.rule("R4", "classification sets equal the helper's not-supported set and the length-error set; a service is recorded iff a probe is outside both", floor=3)
    r.rule("R5", "session discipline: set_session(session) precedes perform_scan(session), failed changes skip the session, findings are keyed by it", floor=4)
    r.rule("R6", "identifier domain is range(start, end + 1) x sub-functions", floor=1)
    r.rule("R7", "PDU construction per scanned service (big-endian DID, RoutineControl sub-function byte, 7-bit limit for SecurityAccess)", floor=4)
    r.rule("R8", "the positive counter is incremented iff the reply is not a NegativeResponse", floor=1)
    r.rule("R10", "replies for every identifier of the scanned range parse: the identifier / sub-function range helpers accept their whole closed range (0xFFFF, the default "
           "end of the scan, included)", floor=3)
    from sa.uds_rules import range_helpers_rule
    range_helpers_rule(m, r, "R10")
    # every requested session is scanned: the scan of a session is not the right-hand side of a short-circuit on the outcome of earlier sessions
    n_ps = 0
    for q_ in (f"{SVC}.ServicesScanner.main", "gallia.commands.scan.uds.identifiers.ScanIdentifiers.main"):
        fm_ = m.require_function(q_)
        for c_ in ast.walk(fm_.node):
            if isinstance(c_, ast.Call) and ast.unparse(c_.func) == "self.perform_scan":
                n_ps += 1
                lazy = [b_ for b_ in ast.walk(fm_.node) if isinstance(b_, ast.BoolOp) and any(any(x is c_ for x in ast.walk(v_)) for v_ in b_.values[1:])]
                lazy += [b_ for b_ in ast.walk(fm_.node) if isinstance(b_, ast.IfExp) and any(x is c_ for v_ in (b_.body, b_.orelse) for x in ast.walk(v_))]
                r.check(not lazy, "R5", f"{q_}#scan-unconditional@{c_.lineno - fm_.node.lineno}", f"`{ast.unparse(lazy[0])[:80] if lazy else ''}` evaluates perform_scan only while "
                        "the left operand holds: after one session was aborted, every later session is entered, reported as 'complete' and left without a single probe", loc=fm_.loc)
    if n_ps < 3:
        raise AnalysisError(f"only {n_ps} perform_scan call sites found in the scanners' main()")
    r.rule("R11", "a reply is attributed to the probe it answers: the service scanner sends raw requests, and parse_pdu refuses a stale reply (positive or negative) that "
           "names another service instead of counting it for the current probe", floor=1)
    from sa.uds_rules import parse_pdu_request_consistency
    parse_pdu_request_consistency(m, r, "R11")
    r.rule("R9", "skip maps: a bare outer key means 'all' - it is stored unconditionally and never replaced or extended by later listings", floor=3)

    ps = m.require_function(f"{SVC}.ServicesScanner.perform_scan")
    # ---------------------------------------------------------------- R1
    whiles = [n for n in walk_no_nested(ps.node) if isinstance(n, ast.While)]
    range_loops = [n for n in ps.node.body if isinstance(n, ast.For) and isinstance(n.target, ast.Name) and isinstance(n.iter, ast.Call) and ast.unparse(n.iter.func) == "range"
                   and any("send_raw(" in ast.unparse(x) for x in ast.walk(n))]
    lo = hi = None
    if len(whiles) == 1 and isinstance(whiles[0].test, ast.Compare) and isinstance(whiles[0].test.left, ast.Name) and not range_loops:
        # `sid = -1; while sid < 0xFF: sid += 1; ...`
        W = whiles[0]
        var = W.test.left.id
        init = [n for n in ps.node.body if isinstance(n, ast.Assign) and ast.unparse(n.targets[0]) == var]
        i0 = m.try_fold(ps.module, init[0].value) if len(init) == 1 else None
        lim = m.try_fold(ps.module, W.test.comparators[0])
        step_first = isinstance(W.body[0], ast.AugAssign) and ast.unparse(W.body[0].target) == var and isinstance(W.body[0].op, ast.Add) and \
            m.try_fold(ps.module, W.body[0].value) == 1
        op = type(W.test.ops[0]).__name__
        if isinstance(i0, int) and isinstance(lim, int) and step_first:
            lo = i0 + 1
            hi = lim if op == "Lt" else lim + 1 if op == "LtE" else None
        own_step = W.body[0]
        shape = f"init {i0}, guard `{ast.unparse(W.test)}`, increment first: {step_first}"
    elif len(range_loops) == 1 and not whiles:
        # `for sid in range(0x100): ...`
        W = range_loops[0]
        var = W.target.id
        ra = [m.try_fold(ps.module, a_) for a_ in W.iter.args]
        if all(isinstance(x, int) for x in ra) and len(ra) in (1, 2):
            lo, hi = (0, ra[0] - 1) if len(ra) == 1 else (ra[0], ra[1] - 1)
        own_step = None
        shape = f"`for {var} in {ast.unparse(W.iter)}`"
    else:
        raise AnalysisError(f"{ps.qualname}: service id loop not found")
    r.check((lo, hi) == (0, 0xFF), "R1", f"{ps.qualname}#sid-domain",
            f"service ids probed: {lo}..{hi} ({shape}); expected 0x00..0xFF", loc=ps.loc)
    other = [n for n in ast.walk(W) if isinstance(n, (ast.Assign, ast.AugAssign)) and n is not own_step and
             any(ast.unparse(t) == var for t in (n.targets if isinstance(n, ast.Assign) else [n.target]))]
    r.check(not other, "R1", f"{ps.qualname}#sid-only-steps", f"{var} is modified elsewhere in the loop", loc=ps.loc)
    filt = [n for n in W.body if isinstance(n, ast.If) and "scan_response_ids" in ast.unparse(n.test)]
    okf = len(filt) == 1 and ast.unparse(filt[0].test).replace(" ", "") in (f"{var}&64and(notself.config.scan_response_ids)", f"{var}&64andnotself.config.scan_response_ids",
                                                                                f"{var}&0x40andnotself.config.scan_response_ids") and isinstance(filt[0].body[-1], ast.Continue)
    r.check(okf, "R1", f"{ps.qualname}#response-id-filter", "response ids (bit 6) must be skipped exactly when scan_response_ids is off", loc=ps.loc)
    pay = [n for n in ast.walk(W) if isinstance(n, ast.Assign) and isinstance(n.value, ast.BinOp) and "bytes(" in ast.unparse(n.value)]
    r.check(len(pay) == 1 and m.mtext(ps, pay[0].value).replace(" ", "") == "bytes([_L])+bytes(_L)" and f"bytes([{var}])" in ast.unparse(pay[0].value), "R1", f"{ps.qualname}#probe-pdu",
            f"probe PDU is {ast.unparse(pay[0].value) if pay else None}; expected the service id followed by zero bytes", loc=ps.loc)

    # ---------------------------------------------------------------- R2 (both scanners)
    pi0 = m.require_function(f"{IDS}.ScanIdentifiers.perform_scan")
    id_loops = [n for n in walk_no_nested(pi0.node) if isinstance(n, ast.For) and "product(" in ast.unparse(n.iter) and isinstance(n.target, ast.Tuple)]
    DIDV = ast.unparse(id_loops[0].target.elts[0]) if id_loops else "DID"
    SFV = ast.unparse(id_loops[0].target.elts[1]) if id_loops else "sub_function"
    for fn, probe_text, idvar in ((ps, "self.ecu.send_raw(", var), (pi0, "self.ecu.send_raw(", DIDV)):
        g = CFG(fn.node)
        probes = {n.id for n in g.nodes.values() if n.ast is not None and n.kind == "stmt" and probe_text in ast.unparse(n.ast)}
        want_skip = "sessioninself.config.skipand((_L:=self.config.skip[session])isNoneor_Lin_L)"
        skips = [n for n in g.nodes.values() if n.kind == "cond" and n.ast is not None and m.mtext(fn, n.ast).replace(" ", "") == want_skip
                 and f"{idvar} in " in ast.unparse(n.ast)]
        if not probes:
            raise AnalysisError(f"{fn.qualname}: probe call not found")
        ok = bool(skips)
        path = []
        if skips:
            ok, path = g.must_pass(g.entry, {s.id for s in skips}, probes)
            for s in skips:
                t = g.succ[s.id][0][0]
                loops = {n.id for n in g.nodes.values() if n.kind == "loop"}
                if g.reachable_from(t, avoid=loops) & probes:
                    ok = False
        r.check(ok, "R2", f"{fn.qualname}#skip-dominates-probe",
                "the skip map (whole session = None, or listed id) is not consulted before every probe: " + " -> ".join(repr(g.nodes[p]) for p in path[-3:]), loc=fn.loc)

    # ---------------------------------------------------------------- R3 / R4
    lens = [n for n in ast.walk(W) if isinstance(n, ast.For) and isinstance(n.iter, (ast.List, ast.Tuple))]
    if len(lens) != 1:
        raise AnalysisError(f"{ps.qualname}: payload length loop not found")
    LL = lens[0]
    r.check(m.try_fold(ps.module, LL.iter) in ([1, 2, 3, 5], (1, 2, 3, 5)), "R3", f"{ps.qualname}#probe-lengths", f"payload lengths: {ast.unparse(LL.iter)}", loc=ps.loc)
    tries = [n for n in LL.body if isinstance(n, ast.Try)]
    okt = False
    if len(tries) == 1:
        hs = {ast.unparse(h.type): h for h in tries[0].handlers if h.type is not None}
        okt = "TimeoutError" in hs and isinstance(hs["TimeoutError"].body[-1], ast.Continue) and \
            all(isinstance(h.body[-1], ast.Continue) for h in hs.values())
    r.check(okt, "R3", f"{ps.qualname}#timeout-tries-next-length",
            "after a timeout (or an illegal reply) the next payload length must be tried: a service that ignores short requests "
            "but answers longer ones is otherwise missed", loc=ps.loc)
    ifs = [n for n in LL.body if isinstance(n, ast.If)]
    helper = m.require_function(f"{HELPERS}.suggests_service_not_supported")
    helper_set = set()
    for n in ast.walk(helper.node):
        if isinstance(n, (ast.List, ast.Tuple, ast.Set)):
            helper_set |= codes_in(m, helper, n)
    # what happens to a reply, evaluated over its kinds (the statements after the exchange are interpreted; no gallia code runs): not-supported ends the probing of
    # this service without a record, a length error tries the next payload length, everything else (positive, any other negative) is recorded and ends the probing
    from sa import miniterp as _mtc
    tail_c = LL.body[LL.body.index(tries[0]) + 1:] if len(tries) == 1 else []
    respv = sorted({n.targets[0].id for n in ast.walk(tries[0]) if isinstance(n, ast.Assign) and isinstance(n.targets[0], ast.Name) and "send_raw(" in ast.unparse(n.value)}) if len(tries) == 1 else []
    recs_ = [n for st_ in tail_c for n in ast.walk(st_) if isinstance(n, ast.Assign) and isinstance(n.targets[0], ast.Subscript) and isinstance(n.targets[0].value, ast.Name)]
    outcomes_c, unk_c = {}, None
    if len(respv) != 1 or not recs_:
        unk_c = f"reply variable {respv} / record store not found"
    else:
        RV, REC = respv[0], recs_[0].targets[0].value.id
        codes_ = {"serviceNotSupported": "NS", "serviceNotSupportedInActiveSession": "NS", "incorrectMessageLengthOrInvalidFormat": "LEN", "securityAccessDenied": "REC",
                  "conditionsNotCorrect": "REC", "subFunctionNotSupported": "REC", "requestOutOfRange": "REC"}
        try:
            for kind, code in [("positive", None)] + [("negative", c_) for c_ in codes_]:
                env_c = {RV: _mtc.Obj(kind=kind, response_code=code), REC: {}, var: 0x22, **{f"UDSErrorCodes.{c_}": c_ for c_ in codes_}}

                def orc(call, env_, kind=kind):
                    f_ = ast.unparse(call.func)
                    if f_ == "isinstance" and len(call.args) == 2 and ast.unparse(call.args[0]) == RV:
                        return kind == "negative" if "NegativeResponse" in ast.unparse(call.args[1]) else (kind == "positive" if "PositiveResponse" in ast.unparse(call.args[1]) else NotImplemented)
                    if f_.split(".")[-1] == "suggests_service_not_supported":
                        return kind == "negative" and codes_.get(env_[RV]["response_code"]) == "NS"
                    return None
                jump = "falls through"
                try:
                    _mtc.exec_body(tail_c, env_c, orc)
                except _mtc._Jump as j_:
                    jump = type(j_.node).__name__
                outcomes_c[code or "positive"] = (bool(env_c[REC]), jump)
        except (AnalysisError, _mtc.Raised) as ex_:
            unk_c = str(ex_)
    want_c = {"positive": (True, "Break"), **{c_: {"NS": (False, "Break"), "LEN": (False, "Continue"), "REC": (True, "Break")}[k_] for c_, k_ in
                                              {"serviceNotSupported": "NS", "serviceNotSupportedInActiveSession": "NS", "incorrectMessageLengthOrInvalidFormat": "LEN",
                                               "securityAccessDenied": "REC", "conditionsNotCorrect": "REC", "subFunctionNotSupported": "REC", "requestOutOfRange": "REC"}.items()}}
    bad_c = {k_: v_ for k_, v_ in outcomes_c.items() if v_ != want_c[k_]}
    ns_bad = {k_: v_ for k_, v_ in bad_c.items() if want_c[k_] == (False, "Break") or v_ == (False, "Break")}
    le_bad = {k_: v_ for k_, v_ in bad_c.items() if k_ not in ns_bad and (want_c[k_] == (False, "Continue") or v_ == (False, "Continue"))}
    rest_bad = {k_: v_ for k_, v_ in bad_c.items() if k_ not in ns_bad and k_ not in le_bad}
    r.check(helper_set == {"serviceNotSupported", "serviceNotSupportedInActiveSession"}, "R4", f"{helper.qualname}#set", f"helper codes {sorted(helper_set)}", loc=helper.loc)
    r.check3(None if unk_c else not ns_bad, "R4", f"{ps.qualname}#not-supported-set",
             f"(reply -> (recorded, then)) {ns_bad}: exactly serviceNotSupported / serviceNotSupportedInActiveSession end the probing of a service without a record", loc=ps.loc,
             unknown_msg=f"classification outside the evaluated language: {unk_c}")
    r.check3(None if unk_c else not le_bad, "R4", f"{ps.qualname}#length-error-set", f"(reply -> (recorded, then)) {le_bad}: exactly incorrectMessageLengthOrInvalidFormat tries the next length",
             loc=ps.loc, unknown_msg=f"classification outside the evaluated language: {unk_c}")
    r.check3(None if unk_c else not rest_bad, "R4", f"{ps.qualname}#record-otherwise",
             f"(reply -> (recorded, then)) {rest_bad}: a service must be recorded (and probing stopped) exactly when the reply is neither not-supported nor a length error", loc=ps.loc,
             unknown_msg=f"classification outside the evaluated language: {unk_c}")
    r.check3(None if unk_c else not bad_c, "R4", f"{ps.qualname}#classification-atoms", f"classification table differs: {bad_c}", loc=ps.loc,
             unknown_msg=f"classification outside the evaluated language: {unk_c}")
    outer_breaks = [n for n in ast.walk(W) if isinstance(n, ast.Break) and not any(n is x for x in ast.walk(LL))]
    r.check(not outer_breaks, "R1", f"{ps.qualname}#no-early-end", "the service id loop must not be left early (a break would skip all remaining ids)", loc=ps.loc)
    breaks = [n for n in ast.walk(LL) if isinstance(n, ast.Break)]
    r.check(len(breaks) == 2, "R3", f"{ps.qualname}#only-decisive-breaks", f"{len(breaks)} break statements in the length loop; only 'not supported' and 'found' end probing", loc=ps.loc)

    # ---------------------------------------------------------------- R5
    main = m.require_function(f"{SVC}.ServicesScanner.main")
    fors = [n for n in ast.walk(main.node) if isinstance(n, ast.For) and "perform_scan(" in ast.unparse(n) and "set_session(" in ast.unparse(n)]
    if len(fors) != 1:
        raise AnalysisError(f"{main.qualname}: session loop not found")
    F = fors[0]
    sv = ast.unparse(F.target)
    g = CFG(main.node)
    setn = {n.id for n in g.nodes.values() if n.ast is not None and n.kind == "stmt" and f"self.ecu.set_session({sv}" in ast.unparse(n.ast)}
    scan = {n.id for n in g.nodes.values() if n.ast is not None and n.kind == "stmt" and f"self.perform_scan({sv})" in ast.unparse(n.ast)}
    heads = {n.id for n in g.nodes.values() if n.kind == "loop" and n.ast is F}
    ok = bool(setn and scan and heads)
    if ok:
        for h in heads:
            o, _ = g.must_pass(h, setn, scan)
            ok = ok and o
    r.check(ok, "R5", f"{main.qualname}#session-before-scan", "perform_scan(session) is reachable without a preceding set_session(session) in the same iteration", loc=main.loc)
    negs = [n for n in F.body if isinstance(n, ast.If) and m.mtext(main, n.test) == "isinstance(_L, NegativeResponse)" and isinstance(n.body[-1], ast.Continue)]
    r.check(len(negs) == 1, "R5", f"{main.qualname}#failed-change-skips", "a refused session change must skip the scan of that session", loc=main.loc)
    keyed = [n for n in ast.walk(F) if isinstance(n, ast.Assign) and f"[{sv}]" in ast.unparse(n.targets[0]) and f"self.perform_scan({sv})" in ast.unparse(n.value)]
    r.check(len(keyed) == 1, "R5", f"{main.qualname}#findings-keyed-by-session", "findings must be stored under the session they were scanned in", loc=main.loc)
    chk = [n for n in W.body if isinstance(n, ast.If) and "self.config.check_session" in ast.unparse(n.test)]
    okc = len(chk) == 1 and ast.unparse(chk[0].test) == "session is not None and self.config.check_session" and "self.ecu.check_and_set_session(session)" in ast.unparse(chk[0]) and m.has(ps, "return (result, False)", chk[0]) and \
        chk[0].lineno < LL.lineno
    r.check(okc, "R5", f"{ps.qualname}#check-session-before-probe", "with check_session the session must be verified before the probes of each service id", loc=ps.loc)
    sess_filter = [n for n in ast.walk(main.node) if isinstance(n, ast.ListComp) and "self.config.sessions" in ast.unparse(n)]
    r.check(len(sess_filter) == 1 and "_L not in self.config.skip or self.config.skip[_L] is not None" in m.mtext(main, sess_filter[0]), "R5",
            f"{main.qualname}#whole-session-skip", "sessions skipped as a whole (skip[s] is None) must not be entered", loc=main.loc)

    cs = m.require_function("gallia.services.uds.ecu.ECU.check_and_set_session")
    gc = CFG(cs.node)
    reads_ = {n.id for n in gc.nodes.values() if n.kind == "stmt" and n.ast is not None and "self.read_session(" in ast.unparse(n.ast)}
    trues_ = {n.id for n in gc.nodes.values() if n.kind == "return" and isinstance(n.ast, ast.Return) and n.ast.value is not None and ast.unparse(n.ast.value) == "True"}
    if not reads_ or not trues_:
        raise AnalysisError(f"{cs.qualname}: read_session calls / `return True` not found")
    okq, path = gc.must_pass(gc.entry, reads_, trues_)
    r.check(okq, "R5", f"{cs.qualname}#asks-the-ecu",
            "check_and_set_session can report the expected session without asking the ECU (read_session): a silent fall-back of the ECU to the default "
            "session is then never noticed and the remaining probes are reported under the wrong session: " + " -> ".join(repr(gc.nodes[p_]) for p_ in path[-4:]), loc=cs.loc)

    # a read that times out is taken as "cannot check" (success); each read therefore carries its own retry budget (the function's retries
    # parameter), independent of the scanner's max_retry (the service scanner probes with max_retry = 0)
    rpar = cs.params()[2] if len(cs.params()) > 2 else None
    rs_calls = [n for n in ast.walk(cs.node) if isinstance(n, ast.Call) and ast.unparse(n.func) == "self.read_session"]
    local_cfg = {n.targets[0].id: n.value for n in ast.walk(cs.node) if isinstance(n, ast.Assign) and isinstance(n.targets[0], ast.Name)}
    if rpar is None or len(rs_calls) < 2:
        raise AnalysisError(f"{cs.qualname}: retries parameter / read_session calls not found")
    for c_ in rs_calls:
        cfgv = next((k.value for k in c_.keywords if k.arg == "config"), c_.args[0] if c_.args else None)
        if isinstance(cfgv, ast.Name) and cfgv.id in local_cfg:
            cfgv = local_cfg[cfgv.id]
        mr = next((k.value for k in cfgv.keywords if k.arg == "max_retry"), None) if isinstance(cfgv, ast.Call) and ast.unparse(cfgv.func).endswith("UDSRequestConfig") else None
        r.check(mr is not None and any(isinstance(x, ast.Name) and x.id == rpar for x in ast.walk(mr)), "R5", f"{cs.qualname}#read-retries@{c_.lineno - cs.node.lineno}",
                f"read_session is called without max_retry={rpar}: with the scanner's own setting (max_retry = 0 in the service scan) one lost reply is taken as "
                "'cannot check the session' and the following probes are attributed to a session the ECU has left", loc=cs.loc)

    sets_ = [n.id for n in gc.nodes.values() if n.kind == "stmt" and n.ast is not None and "self.set_session(" in ast.unparse(n.ast)]
    for sn in sets_:
        oks, pths = gc.must_pass(sn, reads_, trues_)
        r.check(oks, "R5", f"{cs.qualname}#re-reads-after-switching",
                "after trying to switch the session, success is reported without reading the session back from the ECU (a positive DiagnosticSessionControl "
                "response is not proof: the ECU may acknowledge without switching): " + " -> ".join(repr(gc.nodes[p_]) for p_ in pths[-4:]), loc=cs.loc)

    # outside the "cannot read the session" handlers, success is reported exactly when the session read back equals the expected one
    from sa.util import path_condition, truth_table
    epar = cs.params()[1] if len(cs.params()) > 1 else "expected_session"
    cur_vars = {n.targets[0].id for n in ast.walk(cs.node) if isinstance(n, ast.Assign) and isinstance(n.targets[0], ast.Name) and "self.read_session(" in ast.unparse(n.value)}
    handlers_ = [h for t_ in ast.walk(cs.node) if isinstance(t_, ast.Try) for h in t_.handlers]
    n_cmp = 0
    for rt in [n for n in ast.walk(cs.node) if isinstance(n, ast.Return) and n.value is not None and ast.unparse(n.value) == "True"]:
        if any(rt is x for h in handlers_ for x in ast.walk(h)):
            continue
        conds = [(t, pol) for t, pol in path_condition(cs.node, rt) if any(isinstance(x, ast.Name) and x.id in cur_vars for x in ast.walk(t))]
        if not conds or len(cur_vars) != 1:
            r.check(False, "R5", f"{cs.qualname}#success-condition@{rt.lineno - cs.node.lineno}", "success is reported without comparing the session read back with the expected one", loc=cs.loc)
            continue
        n_cmp += 1
        cv = next(iter(cur_vars))
        badc = truth_table(conds, {cv: [1, 3], epar: [1, 3]}, lambda a: a[cv] == a[epar])
        r.check(not badc, "R5", f"{cs.qualname}#success-condition@{rt.lineno - cs.node.lineno}",
                f"success is reported on {badc}: it must be reported exactly when the session read back equals the expected session", loc=cs.loc)
    if n_cmp < 2:
        raise AnalysisError(f"{cs.qualname}: expected two compared `return True` sites (before and after switching)")
    from sa.uds_rules import busy_last_attempt
    from sa.util import check_unravel_inclusive
    busy_last_attempt(m, r, "R4")
    check_unravel_inclusive(m, r, "R9")

    smain = m.require_function(f"{SVC}.ServicesScanner.main")
    gsm = CFG(smain.node)
    app_nodes = {n.id for n in gsm.nodes.values() if n.kind == "stmt" and n.ast is not None and "self.result.append(" in ast.unparse(n.ast)}
    if not app_nodes:
        raise AnalysisError(f"{smain.qualname}: self.result.append not found")
    for an in sorted(app_nodes):
        owner_loops = [n for n in ast.walk(smain.node) if isinstance(n, ast.For) and any(x is gsm.nodes[an].ast for x in ast.walk(n))]
        inner = owner_loops[-1] if owner_loops else None
        heads = [n.id for n in gsm.nodes.values() if n.kind == "loop" and n.ast is inner]
        if not heads:
            raise AnalysisError(f"{smain.qualname}: loop around self.result.append not found")
        body_first = [b for b, k in gsm.succ[heads[0]] if k == "n"][0]
        okap, pap = (True, []) if body_first == an else gsm.must_pass(body_first, {an}, {heads[0]})
        r.check(okap, "R4", f"{smain.qualname}#every-finding-in-result",
                "an iteration over the findings can finish without appending to self.result (e.g. through the handler of a name lookup that fails for "
                "vendor specific service ids): " + " -> ".join(repr(gsm.nodes[p_]) for p_ in pap[-4:]), loc=smain.loc)

    # ---------------------------------------------------------------- R6-R8
    pi = m.require_function(f"{IDS}.ScanIdentifiers.perform_scan")
    loops = [n for n in walk_no_nested(pi.node) if isinstance(n, ast.For) and "product(" in ast.unparse(n.iter)]
    r.check(len(loops) == 1 and m.mtext(pi, loops[0].iter).replace(" ", "") == "product(range(self.config.start,self.config.end+1),_L)", "R6",
            f"{pi.qualname}#identifier-domain", f"identifier loop iterates over {ast.unparse(loops[0].iter) if loops else None}; the END bound is inclusive", loc=pi.loc)
    clamp = [n for n in walk_no_nested(pi.node) if isinstance(n, ast.If) and "SecurityAccess" in ast.unparse(n.test) and "self.config.end" in ast.unparse(n.test)]
    okcl = False
    if len(clamp) == 1:
        t = ast.unparse(clamp[0].test).replace(" ", "")
        asg = [s for s in clamp[0].body if isinstance(s, ast.Assign) and ast.unparse(s.targets[0]) == "self.config.end"]
        aug = [s for s in ast.walk(clamp[0]) if isinstance(s, ast.AugAssign)]
        okcl = t.endswith("self.config.end>127") and len(asg) == 1 and m.try_fold(pi.module, asg[0].value) == 0x7F and not aug
    r.check(okcl, "R7", f"{pi.qualname}#seven-bit-limit", "for SecurityAccess an END above 0x7F must be limited to exactly 0x7F (assignment, not masking)", loc=pi.loc)
    # request PDU forms, by evaluation of their elements over sample identifiers: [service, id] / [service, sub-function, id-high, id-low] / [service, id-high, id-low]
    from sa import miniterp as _mt10
    forms = []
    for n in ast.walk(loops[0]) if loops else []:
        if isinstance(n, ast.Assign) and isinstance(n.value, ast.Call) and ast.unparse(n.value.func) == "bytes" and len(n.value.args) == 1 and isinstance(n.value.args[0], ast.List):
            shapes = set()
            for did in (0x1234, 0xABCD, 0x0180, 0xFF00):
                try:
                    got = tuple(_mt10.eval_expr(e_, {"self.config.service": "SID", DIDV: did, SFV: "SF"}) for e_ in n.value.args[0].elts)
                except AnalysisError:
                    got = None
                if got is None:
                    shapes.add("?")
                    continue
                sym = []
                for v_ in got:
                    sym.append("sid" if v_ == "SID" else "sf" if v_ == "SF" else "id" if v_ == did and did > 0xFF else "hi" if v_ == did >> 8 and did > 0xFF else "lo" if v_ == did & 0xFF and did > 0xFF else "")
                if did > 0xFF:
                    shapes.add(" ".join(sym))
            forms.append((ast.unparse(n.value), shapes))
    vals = [f"{t} -> {sorted(sh)}" for t, sh in forms]
    if any("?" in sh for _, sh in forms):
        r.unrecognised("R7", f"{pi.qualname}#pdu-forms", f"PDU construction outside the evaluated language: {vals}", pi.loc)
    else:
        have = {next(iter(sh)) for _, sh in forms if len(sh) == 1}
        r.check(any(isinstance(n, ast.Assign) and ast.unparse(n.value).replace(" ", "") == f"bytes([self.config.service,{DIDV}])" for n in ast.walk(loops[0])), "R7",
                f"{pi.qualname}#pdu-security-access", f"PDU forms: {vals}", loc=pi.loc)
        r.check("sid sf hi lo" in have, "R7", f"{pi.qualname}#pdu-routine-control", f"PDU forms: {vals}; RoutineControl needs [service, sub-function, id high byte, id low byte]", loc=pi.loc)
        r.check("sid hi lo" in have, "R7", f"{pi.qualname}#pdu-did", f"PDU forms: {vals}; identifier services need [service, id high byte, id low byte]", loc=pi.loc)
    sfl = ast.unparse(loops[0].iter.args[1]) if loops and isinstance(loops[0].iter, ast.Call) and len(loops[0].iter.args) == 2 else "sub_functions"
    rc = [n for n in walk_no_nested(pi.node) if isinstance(n, ast.Assign) and ast.unparse(n.targets[0]) == sfl and "RoutineControlSubFuncs" in ast.unparse(n.value)]
    r.check(len(rc) == 1, "R7", f"{pi.qualname}#routine-sub-functions", "RoutineControl must be scanned for every RoutineControlSubFuncs member", loc=pi.loc)
    if len(rc) == 1 and loops:
        gi = CFG(pi.node)
        conds_rc = [n for n in gi.nodes.values() if n.kind == "cond" and n.ast is not None and ast.unparse(n.ast) == canon_text("self.config.service == UDSIsoServices.RoutineControl")
                    and not any(n.ast is x for x in ast.walk(loops[0]))]
        asg_nodes = {n.id for n in gi.nodes.values() if n.ast is rc[0]}
        loop_nodes = {n.id for n in gi.nodes.values() if n.kind == "loop" and n.ast is loops[0]}
        if len(conds_rc) != 1 or not asg_nodes or not loop_nodes:
            raise AnalysisError(f"{pi.qualname}: RoutineControl set-up branch not found")
        tb = [b for b, k in gi.succ[conds_rc[0].id] if k == "n"][0]
        okp, path = gi.must_pass(tb, asg_nodes, loop_nodes, skip_edge=lambda n, b, k: k == "exc")
        r.check(okp, "R7", f"{pi.qualname}#routine-sub-functions-always",
                "for service RoutineControl the identifier loop is reachable without the sub-function list being set to all RoutineControlSubFuncs "
                "(e.g. only when no payload is given): " + " -> ".join(repr(gi.nodes[p_]) for p_ in path[-4:]), loc=pi.loc)
    # every (identifier, sub-function) pair of the domain is probed unless the skip map excludes it
    if loops:
        probe_ln = min((n.lineno for n in ast.walk(loops[0]) if isinstance(n, ast.Call) and isinstance(n.func, ast.Attribute) and n.func.attr in ("send_raw", "request", "request_unsafe")), default=None)
        if probe_ln is None:
            raise AnalysisError(f"{pi.qualname}: probe request not found in the identifier loop")
        early = []
        def _walk(stmts, guards):
            for st in stmts:
                if st.lineno >= probe_ln:
                    continue
                if isinstance(st, ast.Continue) and not any("self.config.skip" in g_ for g_ in guards):
                    early.append(f"line {st.lineno} under {guards[-1] if guards else 'no condition'}")
                if isinstance(st, ast.If):
                    _walk(st.body, guards + [ast.unparse(st.test)])
                    _walk(st.orelse, guards + ["not (" + ast.unparse(st.test) + ")"])
                elif isinstance(st, (ast.Try, ast.With, ast.AsyncWith)):
                    _walk(getattr(st, "body", []), guards)
        _walk(loops[0].body, [])
        r.check(not early, "R6", f"{pi.qualname}#every-pair-probed",
                f"identifier / sub-function pairs are skipped without being excluded by the skip map: {early}", loc=pi.loc)
    ibreaks = [n for n in ast.walk(loops[0]) if isinstance(n, ast.Break)] if loops else []
    okbr = all(any(isinstance(a, ast.If) and ast.unparse(a.test) == "self.config.skip_not_supported" and n in a.body for a in ast.walk(loops[0])) for n in ibreaks)
    r.check(okbr and len(ibreaks) <= 1, "R6", f"{pi.qualname}#no-early-end", "the identifier loop may only be left early under --skip-not-supported", loc=pi.loc)
    svc_tests = [ast.unparse(n.test) for n in ast.walk(pi.node) if isinstance(n, ast.If) and "self.config.service" in ast.unparse(n.test)]
    r.check(sorted(svc_tests) == sorted(canon_text(t_) for t_ in ["self.config.service == UDSIsoServices.RoutineControl", "self.config.service == UDSIsoServices.SecurityAccess and self.config.end > 127",
                                                                  "self.config.service == UDSIsoServices.SecurityAccess", "self.config.service == UDSIsoServices.RoutineControl"]), "R7",
            f"{pi.qualname}#service-dispatch", f"service tests {svc_tests}", loc=pi.loc)
    chk_i = [ast.unparse(n.test).replace(" ", "") for n in ast.walk(pi.node) if isinstance(n, ast.If) and "self.config.check_session" in ast.unparse(n.test)]
    r.check(chk_i == [f"sessionisnotNoneandself.config.check_sessionand({DIDV}%self.config.check_session==0)"], "R5", f"{pi.qualname}#check-session",
            f"check-session test {chk_i}", loc=pi.loc)
    # the positive counter: the counter reported as 'Positive replies'
    pos_names = [n.values[1].value.id for n in ast.walk(pi.node) if isinstance(n, ast.JoinedStr) and n.values and isinstance(n.values[0], ast.Constant)
                 and str(n.values[0].value).startswith("Positive replies") and len(n.values) > 1 and isinstance(n.values[1], ast.FormattedValue) and isinstance(n.values[1].value, ast.Name)]
    if not pos_names:
        pos_names = [x.values[1].value.id for x in ast.walk(m.raw_function(pi)) if isinstance(x, ast.JoinedStr) and x.values and isinstance(x.values[0], ast.Constant)
                     and str(x.values[0].value).startswith("Positive replies") and len(x.values) > 1 and isinstance(x.values[1], ast.FormattedValue) and isinstance(x.values[1].value, ast.Name)]
    PCV = pos_names[0] if pos_names else "positive_DIDs"
    inc = [n for n in ast.walk(pi.node) if isinstance(n, ast.AugAssign) and ast.unparse(n.target) == PCV]
    okp = False
    if len(inc) == 1:
        for i in ast.walk(pi.node):
            if isinstance(i, ast.If) and m.mtext(pi, i.test) == "isinstance(_L, NegativeResponse)" and any(inc[0] is x for s in i.orelse for x in ast.walk(s)):
                okp = True
    r.check(okp, "R8", f"{pi.qualname}#positive-counter", "the positive counter must be incremented exactly in the else-branch of isinstance(resp, NegativeResponse)", loc=pi.loc)

    # ---------------------------------------------------------------- R9
    check_unravel_2d(m, r, "R9")

    r.assumptions += ["the ECU model answers each probe independently; send_raw raises TimeoutError on silence"]
    r.not_decided += ["correctness against arbitrary ECU models (runtime behaviour)"]
