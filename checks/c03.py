"""C03 Genuine replies accepted, foreign or stale replies refused (static clauses)."""
from __future__ import annotations

import ast
from typing import Any

from sa.codec import SERVICE, ClassAnalysis, CodecAnalyser, PathResult, Registry, field_origin
from sa.layout import ConstV, IntV, Lin, ObjV, Raised, State, int_const, trim_bits
from sa.model import AnalysisError, ClassInfo, FuncInfo, Model, walk_no_nested
from sa.oracles import iso14229
from sa.report import Report
from sa.uds_rules import parse_pdu_request_consistency
from sa.util import byte_fn

TITLE = "Genuine replies are always accepted, foreign or stale replies always refused"
EXC = "gallia.services.uds.core.exception"
CONST = "gallia.services.uds.core.constants"
HELPERS = "gallia.services.uds.helpers"


def rule_r7(m: Model, r: Report) -> None:
    r.rule("R7", "every member of UDSErrorCodes has exactly one UnexpectedNegativeResponse subclass "
                 "registered with response_code=<member> (parse_dynamic is a total map); the code values equal the ISO 14229-1 table", floor=60)
    from sa.uds_rules import iso_tables
    iso_tables(m, r, "R7", "UDSErrorCodes")
    from sa.uds_rules import iso_subfunction_tables
    iso_subfunction_tables(m, r, "R7")
    base = m.require_class(f"{EXC}.UnexpectedNegativeResponse")
    codes = m.enum_members(m.require_class(f"{CONST}.UDSErrorCodes"))
    if not codes:
        raise AnalysisError("UDSErrorCodes has no members")
    pd = m.require_function(f"{EXC}.UnexpectedNegativeResponse.parse_dynamic")
    if "_CONCRETE_EXCEPTIONS[response.response_code]" not in ast.unparse(pd.node):
        raise AnalysisError(f"{pd.qualname}: lookup by response.response_code not found")
    registered: dict[int, list[str]] = {}
    for c in m.subclasses(base, strict=True):
        if "response_code" not in c.keywords:
            continue
        v = m.class_kw(c, "response_code")
        registered.setdefault(v, []).append(c.name)
        r.note("exception classes", c.qualname)
    for name, val in codes.items():
        r.check(val in registered, "R7", f"UDSErrorCodes.{name}",
                f"no UnexpectedNegativeResponse subclass registers response_code={name} ({val:#x}): "
                f"as_exception/raise_for_error raise KeyError for this negative response",
                loc=base.loc, fact_ok=f"{name} -> {registered.get(val)}")


# ------------------------------------------------------------------------------------------------ matcher facts


class Matcher:
    """Facts extracted from a response class's resolved matches() (following super().matches())."""

    def __init__(self, m: Model, cls: ClassInfo) -> None:
        self.m = m
        self.cls = cls
        self.isinstance_targets: list[ClassInfo] = []
        self.atoms: list[tuple[ast.expr, ast.expr, FuncInfo]] = []   # (request-side expr, self-side expr)
        self.service_id_compared = False
        self.other: list[str] = []
        self.funcs: list[FuncInfo] = []
        f = m.resolve_method(cls, "matches")
        while f is not None and not f.is_abstract:
            self.funcs.append(f)
            self._scan(f)
            calls_super = any(isinstance(n, ast.Call) and isinstance(n.func, ast.Attribute) and n.func.attr == "matches"
                              and isinstance(n.func.value, ast.Call) and ast.unparse(n.func.value.func) == "super"
                              for n in walk_no_nested(f.node))
            f = m.resolve_method(cls, "matches", after=f.cls) if calls_super else None

    def _scan(self, f: FuncInfo) -> None:
        m = self.m
        for n in walk_no_nested(f.node):
            if isinstance(n, ast.Call) and isinstance(n.func, ast.Name) and n.func.id == "isinstance" and len(n.args) == 2 \
                    and isinstance(n.args[0], ast.Name) and n.args[0].id == "request":
                t = m.resolve_expr(f.module, n.args[1], f.cls)
                if not isinstance(t, ClassInfo):
                    raise AnalysisError(f"{f.qualname}: isinstance target {ast.unparse(n.args[1])} does not resolve")
                self.isinstance_targets.append(t)
            if isinstance(n, ast.Compare) and len(n.ops) == 1 and isinstance(n.ops[0], (ast.Eq, ast.NotEq)):
                a, b = n.left, n.comparators[0]
                ra, rb = _root(a), _root(b)
                if {ra, rb} == {"request", "self"}:
                    req_e, self_e = (a, b) if ra == "request" else (b, a)
                    if ast.unparse(req_e) in ("request.SERVICE_ID", "request.service_id") and \
                            ast.unparse(self_e) in ("self.SERVICE_ID", "self.service_id"):
                        self.service_id_compared = True
                    else:
                        self.atoms.append((req_e, self_e, f))
                elif "request" in (ra, rb) or "self" in (ra, rb):
                    self.other.append(ast.unparse(n))


def _root(e: ast.expr) -> str | None:
    while isinstance(e, (ast.Attribute, ast.Subscript, ast.Call)):
        e = e.value if not isinstance(e, ast.Call) else e.func
    return e.id if isinstance(e, ast.Name) else None


def eval_side(ca: CodecAnalyser, p: PathResult, expr: ast.expr, var: str, fn: FuncInfo) -> str | None:
    """Wire origin of an attribute expression rooted at `var` on one accepted path."""
    st: State = p.state.clone()
    env = {var: ObjV(p.obj_cls, {}, p.oid), "__fn__": fn, "__depth__": 0}
    try:
        v = ca.interp.eval1(st, env, expr)
    except Exception as e:  # noqa: BLE001
        return None
    o = effective_origin(st, v)
    # on a path whose length is fixed an open-ended slice denotes the same bytes as the closed one: pdu[2:] with len(pdu) == 4 is pdu[2:4]
    if isinstance(p.len_lo, int) and p.len_lo == getattr(p, "len_hi", None):
        import re as _re0
        o = _re0.sub(r"pdu\[(\d+):\]", lambda mo: f"pdu[{mo.group(1)}:{p.len_lo}]", o)
    return o


def effective_origin(st: State, v: Any) -> str:
    """Origin with bits that the path's checks pin to a constant replaced by that constant."""
    if isinstance(v, IntV) and v.kind == "bits":
        bits = []
        for b in v.bits:
            if isinstance(b, tuple):
                pin = st.pinned(b)
                bits.append(pin if pin is not None else b)
            else:
                bits.append(b)
        v = IntV("bits", bits=tuple(bits))
    return field_origin(v)


def abstract_match(ca: CodecAnalyser, mt: "Matcher", ra: ClassAnalysis, pa: ClassAnalysis) -> tuple[list[str], int]:
    """Evaluate matches() abstractly for (parsed request, parsed response) over the same symbolic bytes (= equal echoes).
    A definite False is only acceptable on a path that compared something derived from the received bytes."""
    import re as _re
    mf = mt.funcs[0]
    refusals: list[str] = []
    n_eval = 0
    for rp in pa.accepted:
        for qp in ra.accepted:
            # "equal echoed bytes" presupposes that both sides carry the echoed field: a request path without the optional identifier (None) and a
            # response path with it (or vice versa) are not an echo pair - refusing that combination is what the property demands
            presence = []
            for req_e, self_e, fn_ in mt.atoms:
                a_, b_ = eval_side(ca, qp, req_e, "request", fn_), eval_side(ca, rp, self_e, "self", fn_)
                presence.append((a_ == "None") != (b_ == "None") and a_ is not None and b_ is not None)
            if any(presence):
                continue
            st = rp.state.clone()
            base_facts = len(st.facts)
            oid = st.next_id
            st.next_id += 1
            st.heap[oid] = ObjV(qp.obj_cls, dict(qp.fields), oid)
            try:
                outs = ca.interp.call_function(st, mf, [ObjV(qp.obj_cls, {}, oid)], {}, self_val=ObjV(rp.obj_cls, {}, rp.oid))
            except AnalysisError as e:
                refusals.append(f"matches() uses a construct the interpreter does not model: {e}")
                return refusals, n_eval
            for st2, v in outs:
                n_eval += 1
                new = st2.facts[base_facts:]
                if isinstance(v, Raised):
                    refusals.append(f"matches() raises {v.exc} ({v.where})")
                    continue
                val = v.value if isinstance(v, ConstV) else None
                # the interpreter forks on a comparison of two stored fields it cannot decide; when both fields are None on these paths (an optional
                # identifier absent on both sides) the comparison is true and the branch that assumed "not equal" does not exist
                infeasible = False
                for f in new:
                    mo = _re.fullmatch(r"not request\.(\w+) == self\.(\w+)", f.text or "")
                    if mo and f.kind == "opaque" and mo.group(1) in qp.fields and mo.group(2) in rp.fields and \
                            field_origin(qp.fields[mo.group(1)]) == "None" and field_origin(rp.fields[mo.group(2)]) == "None":
                        infeasible = True
                if infeasible:
                    continue
                if val is False:
                    wire_dependent = any(_re.search(r"pdu\[|\bL\b|from_bytes|bits<", f.vtext or repr(f)) for f in new if f.kind == "opaque") \
                        or any(f.kind in ("bits", "len") for f in new)
                    if not wire_dependent:
                        # an undecided comparison of two stored fields: wire dependent if either field comes from the received bytes
                        for f in new:
                            mo = _re.search(r"request\.(\w+) [!=]= self\.(\w+)", f.text or "")
                            if mo and f.kind == "opaque":
                                origins = [field_origin(qp.fields[mo.group(1)]) if mo.group(1) in qp.fields else "", field_origin(rp.fields[mo.group(2)]) if mo.group(2) in rp.fields else ""]
                                if any(_re.search(r"pdu\[|from_bytes|bits<", o) for o in origins):
                                    wire_dependent = True
                    if not wire_dependent:
                        refusals.append("returns False on a path that does not look at the received bytes: "
                                        + "; ".join(f.text or repr(f) for f in new)[:300])
    return refusals, n_eval


def foreign_match(ca: CodecAnalyser, mt: "Matcher", ra: ClassAnalysis, pa: ClassAnalysis) -> tuple[list[str], int]:
    """Evaluate matches() abstractly for a parsed response and a request of the right class whose field values are unrelated
    (opaque).  Every accepting path must have assumed the equality of each echo atom the matcher contains: an accepting path that
    skipped one (an `or`, an inverted comparison, an early `return True`) accepts stale replies."""
    from sa.layout import UnknownV
    mf = mt.funcs[0]
    required = set()
    for req_e, self_e, _fn in mt.atoms:
        root = req_e
        while isinstance(root, (ast.Subscript,)):
            root = root.value
        if isinstance(root, ast.Attribute) and isinstance(root.value, ast.Name) and root.value.id == "request":
            required.add(root.attr)
    problems: list[str] = []
    n_eval = 0
    stored = set().union(*[set(qp.fields) for qp in ra.accepted]) if ra.accepted else set()
    required &= stored   # attributes that are class constants / properties are decided by the isinstance test
    for rp in pa.accepted[:2]:
        for qp in ra.accepted[:1]:
            st = rp.state.clone()
            base_facts = len(st.facts)
            oid = st.next_id
            st.next_id += 1
            fields = {k: UnknownV(f"request.{k}") for k in qp.fields}
            st.heap[oid] = ObjV(qp.obj_cls, fields, oid)
            try:
                outs = ca.interp.call_function(st, mf, [ObjV(qp.obj_cls, {}, oid)], {}, self_val=ObjV(rp.obj_cls, {}, rp.oid))
            except AnalysisError as e:
                return [f"matches() uses a construct the interpreter does not model: {e}"], n_eval
            for st2, v in outs:
                n_eval += 1
                if isinstance(v, Raised):
                    continue
                new = st2.facts[base_facts:]
                eq_assumed = set()
                for f in new:
                    if f.kind != "opaque":
                        continue
                    is_eq = ("==" in f.text and not f.text.startswith("not ")) or ("!=" in f.text and f.text.startswith("not "))
                    if is_eq:
                        for name in required:
                            if f"request.{name}" in f.vtext or f"request.{name}" in f.text:
                                eq_assumed.add(name)
                accepts = (isinstance(v, ConstV) and v.value is True)
                undecided = not isinstance(v, ConstV)
                if undecided:
                    # `return a == b`: the final comparison itself is the assumption
                    txt = getattr(v, "text", "") or ""
                    for name in required:
                        if f"request.{name}" in txt and "==" in txt:
                            eq_assumed.add(name)
                if (accepts or undecided) and not required <= eq_assumed:
                    problems.append(f"a path accepts without requiring equality of request.{sorted(required - eq_assumed)} "
                                    f"(assumed on this path: {[f.text for f in new if f.kind == 'opaque'][:4]})")
    return problems, n_eval


def sid_operand(m: Model, fn: FuncInfo, e: ast.expr, var_cls: dict[str, ClassInfo]):
    """What a value compared with request.service_id is made of: ('byte', k, f) = f(pdu[k]); ('const', v); None = unknown."""
    if isinstance(e, ast.Subscript) and ast.unparse(e.value) in ("pdu", "self.pdu"):
        k = m.try_fold(fn.module, e.slice)
        return ("byte", k, lambda b: b) if isinstance(k, int) else None
    if isinstance(e, ast.Attribute) and isinstance(e.value, ast.Name) and e.value.id in var_cls:
        c = var_cls[e.value.id]
        for k in m.mro(c):
            f = k.methods.get(e.attr)
            if f is None:
                continue
            rets = [n.value for n in walk_no_nested(f.node) if isinstance(n, ast.Return) and n.value is not None]
            if len(rets) != 1:
                return None
            if ast.unparse(rets[0]) in ("self.SERVICE_ID", "cls.SERVICE_ID"):
                v = m.class_kw(c, "service_id", None)
                return ("const", v)
            subs = [x for x in ast.walk(rets[0]) if isinstance(x, ast.Subscript) and ast.unparse(x.value) == "self.pdu"]
            if len(subs) == 1:
                idx = m.try_fold(f.module, subs[0].slice)
                bf = byte_fn(m, f.module, rets[0], ast.unparse(subs[0]))
                if isinstance(idx, int) and bf is not None:
                    return ("byte", idx, bf)
            return None
    return None


def rule_r14(m: Model, r: Report) -> None:
    MUT = {"append", "add", "update", "setdefault", "pop", "clear", "insert", "extend", "remove", "popitem", "discard", "__setitem__", "appendleft"}
    mods = {SERVICE, HELPERS, "gallia.services.uds.core.utils"}
    n_fn = 0

    def shared_base(f: FuncInfo, e: ast.expr) -> str | None:
        """Name of the class / module level object an lvalue or receiver is rooted in (None: instance or local state)."""
        inner = e
        while isinstance(inner, (ast.Attribute, ast.Subscript)):
            if isinstance(inner, ast.Attribute) and inner.attr == "__class__":
                return ast.unparse(inner)
            inner = inner.value
        if isinstance(inner, ast.Call) and ast.unparse(inner.func) == "type":
            return ast.unparse(inner)
        if isinstance(inner, ast.Name):
            if inner.id == "cls" and f.cls is not None and e is not inner:
                return "cls"
            if inner.id in m.local_names(f) or inner.id in f.params():
                return None
            if inner.id in f.module.classes or inner.id in f.module.assigns or inner.id in f.module.imports:
                return inner.id
        return None

    for f in m.functions():
        if f.module.name not in mods or f.name == "__init_subclass__":
            continue
        n_fn += 1
        writes = []
        for n in ast.walk(f.node):
            tg = n.targets if isinstance(n, ast.Assign) else [n.target] if isinstance(n, (ast.AugAssign, ast.AnnAssign)) else []
            for t in tg:
                for x in (t.elts if isinstance(t, ast.Tuple) else [t]):
                    if isinstance(x, (ast.Attribute, ast.Subscript)) and shared_base(f, x) is not None:
                        writes.append((n.lineno, ast.unparse(x)))
            if isinstance(n, ast.Global):
                writes.append((n.lineno, "global " + ", ".join(n.names)))
            if isinstance(n, ast.Call) and isinstance(n.func, ast.Attribute) and n.func.attr in MUT and isinstance(n.func.value, (ast.Attribute, ast.Subscript, ast.Name)) \
                    and shared_base(f, n.func.value) is not None:
                writes.append((n.lineno, ast.unparse(n)[:60]))
        r.check(not writes, "R14", f"{f.qualname}#stateless",
                f"writes state shared by all PDUs of the process ({'; '.join(w for _, w in writes)}): the result of parsing / matching a later "
                "PDU then depends on which PDUs were seen before, not only on the (request, reply) pair",
                loc=f"{f.module.relpath}:{writes[0][0]}" if writes else f.loc)
    if n_fn < 100:
        raise AnalysisError(f"only {n_fn} codec functions inspected")


def run(m: Model, r: Report, tier: str) -> None:
    rule_r7(m, r)
    reg = Registry(m)
    ca = CodecAnalyser(m)
    r.rule("R1", "every isinstance(request, T) in a response's matches() names a request class T with "
                 "issubclass(registered request of that response, T)", floor=35)
    r.rule("R2", "every echo comparison request.X == self.Y compares fields that sit on the same wire bytes", floor=20)
    r.rule("R3", "the primary identifier the service echoes (sub-function, DID, RID, block counter, memory triple) is compared", floor=30)
    r.rule("R4", "negative responses are matched on wire byte 1 (the request service id), everywhere", floor=3)
    r.rule("R5", "the raw-response heuristic compares exactly the echo_length bytes after the service id", floor=2)
    r.rule("R6", "parse_pdu decision structure: mismatch before malformed; raw-request fallback and matches() test the same parsed request; "
                 "trigger_request only set on acceptance", floor=4)
    r.rule("R9", "a reply of another registered service (or another sub-function of the service) cannot satisfy matches()", floor=35)
    r.rule("R11", "evaluating matches() abstractly on (parsed request, parsed response) with equal echoed bytes never refuses: a refusal "
                  "must depend on a comparison that involves the received bytes", floor=30)
    r.rule("R12", "evaluating matches() abstractly against a request with unrelated field values: every accepting path has required the "
                  "equality of each echo atom (no `or`, inverted comparison or early accept)", floor=30)
    r.rule("R13", "matches() predicates are conjunctions; request/response comparisons are equalities where they accept and inequalities where they refuse", floor=20)
    r.rule("R14", "parsing and matching are functions of the (request, reply) pair: no codec / matching function writes class- or module-level state", floor=1)
    r.rule("R15", "every well-formed request re-parses as a typed request (length envelope covers the ISO envelope), so that replies are matched "
                  "with the typed matcher and not by service id only", floor=35)
    rule_r14(m, r)
    r.rule("R10", "the response parser admits every ISO-minimal genuine reply (length envelope, no index beyond the checked length)", floor=34)

    UDSRequest = reg.UDSRequest
    pairs = [p for p in reg.pairs if p.request is not None and p.response is not None and p.service_id is not None]
    all_requests = [(p.request, p.service_id, p.sub_function_id) for p in pairs]
    matchers: dict[str, Matcher] = {}
    for p in pairs:
        resp, req = p.response, p.request
        construct = f"{resp.qualname}~{req.name}"
        r.note("request/response pairs", construct)
        mt = matchers.setdefault(resp.qualname, Matcher(m, resp))
        if not mt.funcs:
            r.violation("R1", construct, "response class has no concrete matches()", resp.loc)
            continue
        # R1
        bad = [t.name for t in mt.isinstance_targets if not m.is_subclass(req, t) or not m.is_subclass(t, UDSRequest)]
        r.check(bool(mt.isinstance_targets) and not bad, "R1", construct,
                f"matches() requires isinstance(request, {bad or 'nothing'}) but the request class registered for this "
                f"response is {req.name}: the genuine reply is refused as a mismatch" if bad else
                "matches() has no isinstance test on the request", loc=mt.funcs[0].loc,
                fact_ok=f"isinstance targets {[t.name for t in mt.isinstance_targets]} ⊇ {req.name}")
        # the response constructor admits every value of an echoed field that the request constructor admits (range guards of siblings agree)
        for req_e, self_e, fn in mt.atoms:
            if not (isinstance(req_e, ast.Attribute) and isinstance(self_e, ast.Attribute)):
                continue
            rq, rs = _range_guard(m, req, req_e.attr), _range_guard(m, resp, self_e.attr)
            if rq is None or rs is None:
                continue
            r.check(rs[0] <= rq[0] and rs[1] >= rq[1], "R10", f"{construct}#range:{self_e.attr}",
                    f"the response constructor admits {self_e.attr} in {rs[0]:#x}..{rs[1]:#x}, the request carries {req_e.attr} in {rq[0]:#x}..{rq[1]:#x}: the genuine reply "
                    "echoing a value outside the narrower range is refused as malformed", loc=resp.loc)
        # R2
        ra, pa = ca.analyse(req), ca.analyse(resp)
        compared: set[str] = set()
        for req_e, self_e, fn in mt.atoms:
            ro = {eval_side(ca, pth, req_e, "request", fn) for pth in ra.accepted}
            so = {eval_side(ca, pth, self_e, "self", fn) for pth in pa.accepted}
            ro.discard(None)
            so.discard(None)
            atom = f"{ast.unparse(req_e)} == {ast.unparse(self_e)}"
            if not ro or not so:
                r.violation("R2", f"{construct}#{atom}", f"cannot evaluate the wire origin of {atom} (request: {ro}, response: {so})", fn.loc)
                continue
            # len(...) comparisons (ReadMemoryByAddress) are value relations, not echoes
            if any(o.startswith("int(") or o.startswith("opaque") for o in ro | so):
                r.extra.setdefault("non_echo_atoms", []).append(f"{construct}: {atom}")
                continue
            ok = bool(ro & so)
            r.check(ok, "R2", f"{construct}#{atom}",
                    f"{ast.unparse(req_e)} sits at {sorted(ro)} in the request but {ast.unparse(self_e)} at {sorted(so)} in the response: "
                    "the matcher compares different wire bytes", loc=fn.loc, fact_ok=f"both at {sorted(ro & so)}")
            if ok:
                compared |= (ro & so)
        # R3
        need = iso14229.ECHO.get(p.service_id)
        if need is None:
            raise AnalysisError(f"no echo oracle for service {p.service_id:#x}")
        missing = []
        sf_const = field_origin(int_const(p.sub_function_id)) if p.sub_function_id is not None else "<none>"
        for d in need:
            if d == "sf":
                hit = any(o.startswith("bits<pdu[1].") for o in compared) or sf_const in compared
                # a specialised class pair fixes the sub-function by class identity
                if not hit and p.sub_function_id is not None and any(t == req or _single_subfunction(m, reg, t) for t in mt.isinstance_targets):
                    hit = True
            elif d.startswith("I2@"):
                k = int(d[3:])
                hit = f"from_bytes(pdu[{k}:{k + 2}])" in compared
                # a request parser that takes the identifier as `pdu[k:]` (its own round-trip guard refuses other widths than 2) against a response
                # parser that takes exactly pdu[k:k+2]: the comparison is on the same two bytes
                if not hit:
                    open_ = f"from_bytes(pdu[{k}:])"
                    closed_ = f"from_bytes(pdu[{k}:{k + 2}])"
                    for req_e2, self_e2, fn2 in mt.atoms:
                        ro2 = {eval_side(ca, pth, req_e2, "request", fn2) for pth in ra.accepted}
                        so2 = {eval_side(ca, pth, self_e2, "self", fn2) for pth in pa.accepted}
                        if (open_ in ro2 or closed_ in ro2) and (open_ in so2 or closed_ in so2):
                            hit = True
            elif d.startswith("B@"):
                hit = any(o.startswith(f"bits<pdu[{d[2:]}].7") for o in compared)
            elif d == "Isym@2":
                hit = any(o.startswith("from_bytes(pdu[2:") for o in compared)
            elif d == "Isym@2+":
                hit = sum(1 for o in compared if o.startswith("from_bytes(pdu[")) >= 2
            else:
                raise AnalysisError(f"echo descriptor {d}")
            if not hit:
                missing.append(d)
        r.check(not missing, "R3", construct,
                f"matches() does not compare the echoed {missing} of service {p.service_id:#x} (compared: {sorted(compared)}): "
                "a stale reply of the same service with another identifier is accepted", loc=mt.funcs[0].loc,
                fact_ok=f"compared {sorted(compared)} covers {need}")
        # R9
        leaks = []
        for oreq, osid, osf in all_requests:
            if oreq == req:
                continue
            if not all(m.is_subclass(oreq, t) for t in mt.isinstance_targets) or not mt.isinstance_targets:
                continue
            if osid != p.service_id:
                if not mt.service_id_compared:
                    leaks.append(f"{oreq.name} (service {osid:#x})")
            elif osf != p.sub_function_id:
                if not any(o.startswith("bits<pdu[1].") for o in compared) and sf_const not in compared:
                    leaks.append(f"{oreq.name} (sub-function {osf})")
        r.check(not leaks, "R9", construct,
                f"matches() also accepts requests {leaks[:4]}: its isinstance test admits them and nothing compares "
                "the service / sub-function", loc=mt.funcs[0].loc)
        # R11
        refusals, n_eval = abstract_match(ca, mt, ra, pa)
        r.check(not refusals, "R11", construct, "; ".join(sorted(set(refusals)))[:700] +
                ": the genuine reply (same echoed bytes) is refused", loc=mt.funcs[0].loc, fact_ok=f"{n_eval} abstract outcomes")
        # R12
        problems12, n12 = foreign_match(ca, mt, ra, pa)
        r.check(not problems12, "R12", construct, "; ".join(sorted(set(problems12)))[:700] + ": a stale reply with a different identifier is accepted",
                loc=mt.funcs[0].loc, fact_ok=f"{n12} abstract outcomes, echo atoms {sorted({ast.unparse(a) for a, _, _ in mt.atoms})}")
        # R10
        key = (p.service_id, p.sub_function_id)
        if key not in iso14229.RESP:
            key = (p.service_id, None)
        shapes, iso_min, iso_max = iso14229.RESP[key]
        mn = m.class_kw(resp, "minimal_length")
        mx = m.class_kw(resp, "maximal_length")
        problems = []
        if not (isinstance(mn, int) and mn <= iso_min):
            problems.append(f"minimal_length {mn} > ISO minimum {iso_min}")
        if mx is not None and (iso_max is None or mx < iso_max):
            problems.append(f"maximal_length {mx} < ISO maximum {iso_max}")
        for pth in pa.accepted:
            for g in pth.guards:
                if g[0] == "index" and g[1] >= pth.len_lo and g[1] >= iso_min:
                    problems.append(f"pdu[{g[1]}] is read ({g[2]}) although lengths from {pth.len_lo} are accepted: "
                                    f"an ISO-minimal reply of {iso_min} bytes raises IndexError and is reported as malformed")
        r.check(not problems, "R10", resp.qualname, "; ".join(sorted(set(problems))), loc=resp.loc)

    # R13: shape of every matches() predicate (all response classes, registered or not)
    n13 = 0
    for cls in m.subclasses(reg.UDSResponse, strict=True):
        fn = cls.methods.get("matches")
        if fn is None or fn.is_abstract or cls.module.name != SERVICE:
            continue
        n13 += 1
        bad = []
        par = {}
        for p_ in ast.walk(fn.node):
            for c in ast.iter_child_nodes(p_):
                par[id(c)] = p_
        for n in walk_no_nested(fn.node):
            if isinstance(n, ast.BoolOp) and isinstance(n.op, ast.Or):
                if not all(isinstance(v, ast.Call) and ast.unparse(v.func) == "isinstance" for v in n.values):
                    bad.append(f"disjunction `{ast.unparse(n)[:90]}`: one satisfied operand accepts the reply although another comparison failed")
            if isinstance(n, ast.Compare) and len(n.ops) == 1 and {_root(n.left), _root(n.comparators[0])} == {"request", "self"}:
                # where does the comparison end up?
                cur, neg = par.get(id(n)), False
                while isinstance(cur, (ast.BoolOp, ast.UnaryOp)):
                    if isinstance(cur, ast.UnaryOp) and isinstance(cur.op, ast.Not):
                        neg = not neg
                    cur = par.get(id(cur))
                if isinstance(cur, ast.Return):
                    want_eq = not neg
                elif isinstance(cur, ast.If) and len(cur.body) == 1 and isinstance(cur.body[0], ast.Return) and ast.unparse(cur.body[0].value) == "False":
                    want_eq = neg
                else:
                    continue
                is_eq = isinstance(n.ops[0], ast.Eq)
                is_ne = isinstance(n.ops[0], ast.NotEq)
                if (want_eq and not is_eq) or (not want_eq and not is_ne):
                    bad.append(f"`{ast.unparse(n)[:90]}` has the wrong polarity for its position (accepting positions need ==, refusing guards need !=)")
        r.check(not bad, "R13", fn.qualname, "; ".join(bad)[:600], loc=fn.loc)
    if n13 < 20:
        raise AnalysisError(f"only {n13} matches() implementations found")

    # R1 for the pairs only named by response_type= (convenience classes the client constructs directly)
    have = {(p.request.qualname, p.response.qualname) for p in pairs}
    for req in reg.concrete(UDSRequest):
        if "response_type" not in req.keywords:
            continue
        rt = m.class_kw(req, "response_type")
        if not isinstance(rt, ClassInfo) or (req.qualname, rt.qualname) in have or m.class_kw(req, "service_id", None) is None:
            continue
        mt = matchers.setdefault(rt.qualname, Matcher(m, rt))
        if not mt.funcs:
            continue
        construct = f"{rt.qualname}~{req.name}"
        r.note("request/response pairs", construct)
        bad = [t.name for t in mt.isinstance_targets if not m.is_subclass(req, t) or not m.is_subclass(t, UDSRequest)]
        r.check(bool(mt.isinstance_targets) and not bad, "R1", construct,
                f"matches() requires isinstance(request, {bad}) but {req.name} declares response_type={rt.name}: "
                "the genuine reply is refused as a mismatch", loc=mt.funcs[0].loc)

    # ---------------------------------------------------------------- R4
    neg = m.require_class(f"{SERVICE}.NegativeResponse")
    na = ca.analyse(neg)
    f = m.require_function(f"{SERVICE}.NegativeResponse.matches")
    origins = set()
    for n in walk_no_nested(f.node):
        if isinstance(n, ast.Compare) and len(n.ops) == 1 and isinstance(n.ops[0], (ast.Eq, ast.NotEq)):
            sides = [n.left, n.comparators[0]]
            if any(ast.unparse(s) == "request.service_id" for s in sides):
                other = next(s for s in sides if ast.unparse(s) != "request.service_id")
                for pth in na.accepted:
                    origins.add(eval_side(ca, pth, other, "self", f))
    r.check(origins == {"bits<pdu[1].7..0@7>"}, "R4", f.qualname,
            f"NegativeResponse.matches compares request.service_id with wire origin {origins}, expected byte 1", loc=f.loc)
    for qual in (f"{SERVICE}.RawNegativeResponse.matches", f"{HELPERS}.parse_pdu"):
        fn = m.require_function(qual)
        idx = []
        for n in walk_no_nested(fn.node):
            if isinstance(n, ast.Compare) and len(n.ops) == 1 and isinstance(n.ops[0], (ast.Eq, ast.NotEq)):
                sides = [n.left, n.comparators[0]]
                if any(ast.unparse(s) == "request.service_id" for s in sides):
                    other = next(s for s in sides if ast.unparse(s) != "request.service_id")
                    if isinstance(other, ast.Subscript) and ast.unparse(other.value) in ("pdu", "self.pdu"):
                        idx.append(m.try_fold(fn.module, other.slice, default="?"))
        if not idx and qual.endswith("RawNegativeResponse.matches"):
            raise AnalysisError(f"{qual}: comparison of a PDU byte with request.service_id not found")
        r.check(all(i == 1 for i in idx), "R4", qual,
                f"compares pdu[{idx}] with request.service_id; the request service id of a negative response is byte 1", loc=fn.loc)
        # the index must be guarded by a length test that makes it valid
        for n in walk_no_nested(fn.node):
            if isinstance(n, ast.BoolOp) and isinstance(n.op, ast.And):
                txt = [ast.unparse(v) for v in n.values]
                for i, t in enumerate(txt):
                    if "request.service_id" in t and "pdu[" in t:
                        guards = [g for g in txt[:i] if g.startswith("len(")]
                        okg = False
                        for g in guards:
                            cmp = ast.parse(g, mode="eval").body
                            if isinstance(cmp, ast.Compare) and len(cmp.ops) == 1:
                                c = m.try_fold(fn.module, cmp.comparators[0])
                                if isinstance(c, int) and ((isinstance(cmp.ops[0], ast.GtE) and c >= 2) or (isinstance(cmp.ops[0], ast.Gt) and c >= 1)):
                                    okg = True
                        r.check(okg, "R4", qual + "#length-guard",
                                f"pdu[1] is compared under guards {guards}: a 2-byte negative response naming another service is not "
                                "recognised as foreign, or a 1-byte one raises IndexError", loc=fn.loc)

    # error path of parse_pdu: which wire byte decides "foreign reply" (mismatch) vs "malformed reply of this service", per branch
    pp_ = m.require_function(f"{HELPERS}.parse_pdu")
    hs_ = [h for t in walk_no_nested(pp_.node) if isinstance(t, ast.Try) for h in t.handlers
           if any(isinstance(x, ast.Raise) and "MalformedResponse" in ast.unparse(x) for x in ast.walk(h))]
    if len(hs_) != 1:
        raise AnalysisError(f"{pp_.qualname}: handler raising MalformedResponse not found")
    hb = hs_[0].body
    offs = [n.value for n in ast.walk(m.require_function(f"{SERVICE}.UDSResponse.__init_subclass__").node)
            if isinstance(n, ast.Assign) and ast.unparse(n.targets[0]) == "cls.RESPONSE_SERVICE_ID"]
    off_c = None
    for o in offs:
        for x in ast.walk(o):
            if isinstance(x, ast.BinOp) and isinstance(x.op, ast.Add) and "service_id" in ast.unparse(x.left):
                off_c = m.try_fold(pp_.module, x.right)
    if not isinstance(off_c, int):
        raise AnalysisError("UDSResponse.__init_subclass__: RESPONSE_SERVICE_ID = service_id + <const> not found")
    # the handler for undecodable replies, evaluated over sample replies to a request of service 0x22 (no gallia code runs: the handler's statements are
    # interpreted, raw response objects are records carrying what RawPositiveResponse.service_id is proven to be below): a reply of another service is a
    # mismatch, a reply naming the request's service is malformed
    from sa import miniterp as _mte
    ppar, rpar = (pp_.params() + ["pdu", "request"])[:2]
    SID = 0x22
    samples = {"negative": [b"\x7f", b"\x7f\x22", b"\x7f\x22\x31", b"\x7f\x10\x31", b"\x7f\x62"],
               "positive": [bytes([SID + off_c]), bytes([SID + off_c, 0xF1, 0x90]), b"\x50\x01", bytes([SID, 0x00]), bytes([SID + off_c + 1])]}

    def _orc(call, env_):
        fnm = ast.unparse(call.func).split(".")[-1]
        if fnm == "RawNegativeResponse":
            return _mte.Obj(kind="neg", pdu=_mte.eval_expr(call.args[0], env_, _orc))
        if fnm == "RawPositiveResponse":
            pd_ = _mte.eval_expr(call.args[0], env_, _orc)
            return _mte.Obj(kind="pos", pdu=pd_, service_id=pd_[0] - off_c)
        if isinstance(call.func, ast.Name) and call.func.id in pp_.module.functions and not call.keywords:
            # a helper of the same module (e.g. the handler's body extracted into a private function): interpreted as well
            hf = pp_.module.functions[call.func.id]
            hp = hf.params()
            if len(hp) == len(call.args):
                env_h = dict(env_)
                for pn_, a_ in zip(hp, call.args):
                    v_ = _mte.eval_expr(a_, env_, _orc)
                    env_h[pn_] = v_
                    if v_ == "REQ":
                        env_h[f"{pn_}.service_id"] = SID
                ret_h, env_r = _mte.run_function(hf.node, env_h, _orc)
                return _mte.eval_expr(ret_h.value, env_r, _orc) if ret_h is not None and ret_h.value is not None else None
        return NotImplemented
    for label, pdus in samples.items():
        bad, unknown = [], None
        for pd_ in pdus:
            env = {ppar: pd_, rpar: "REQ", f"{rpar}.service_id": SID, "UDSIsoServices.NegativeResponse": 0x7F, (hs_[0].name or "e"): "EXC"}
            try:
                _mte.exec_body(hb, env, _orc)
                out = "falls through"
            except _mte.Raised as ex_:
                out = ast.unparse(ex_.node.exc.func if isinstance(ex_.node.exc, ast.Call) else ex_.node.exc).split(".")[-1] if ex_.node.exc is not None else "re-raise"
                # the arguments of the raised exception are evaluated first: a helper called there may itself raise (the mismatch)
                if isinstance(ex_.node.exc, ast.Call):
                    try:
                        for a_ in ex_.node.exc.args:
                            if any(isinstance(x, ast.Call) and isinstance(x.func, ast.Name) and x.func.id in pp_.module.functions for x in ast.walk(a_)):
                                _mte.eval_expr(a_, env, _orc)
                    except _mte.Raised as ex2_:
                        out = ast.unparse(ex2_.node.exc.func if isinstance(ex2_.node.exc, ast.Call) else ex2_.node.exc).split(".")[-1] if ex2_.node.exc is not None else "re-raise"
            except _mte._Return:
                out = "returns"
            except AnalysisError as ex_:
                unknown = str(ex_)
                break
            if label == "negative":
                want = "RequestResponseMismatch" if len(pd_) >= 2 and pd_[1] != SID else "MalformedResponse"
            else:
                want = "RequestResponseMismatch" if pd_[0] - off_c != SID else "MalformedResponse"
            if out != want:
                bad.append(f"reply {pd_.hex()} to a request of service {SID:#x}: {out} (expected {want})")
        if unknown is not None:
            r.unrecognised("R4", f"{pp_.qualname}#error-path:{label}", f"the handler is outside the evaluated language: {unknown}", pp_.loc)
        else:
            r.check(not bad, "R4", f"{pp_.qualname}#error-path:{label}", f"{bad[:3]}; the request service id of a {label} reply is " +
                    ("byte 1" if label == "negative" else f"byte 0 - {off_c:#x}") + ": foreign replies must be mismatches, replies naming the request's service malformed", loc=pp_.loc)

    # RawPositiveResponse.service_id: exhaustive over the first byte
    rps = m.require_class(f"{SERVICE}.RawPositiveResponse")
    org = sid_operand(m, pp_, ast.parse("x.service_id", mode="eval").body, {"x": rps})
    if org is None or org[0] != "byte":
        raise AnalysisError(f"{rps.qualname}.service_id: not a function of one PDU byte")
    exs = [b for b in range(256) if org[2](b) + off_c != b]
    r.check(org[1] == 0 and not exs, "R5", f"{rps.qualname}.service_id#inverse-of-response-sid",
            f"service_id(first byte) + {off_c:#x} != first byte for {len(exs)} byte values (e.g. {exs[0]:#04x} -> {org[2](exs[0]):#04x}): such a frame "
            "(e.g. the request echoed back) is taken for the positive response of that service" if exs else "", loc=rps.loc)

    rn = m.require_function(f"{SERVICE}.RawNegativeResponse.matches")
    rets = [n.value for n in walk_no_nested(rn.node) if isinstance(n, ast.Return)]
    ok_rn = len(rets) == 1 and isinstance(rets[0], ast.BoolOp) and isinstance(rets[0].op, ast.And) and len(rets[0].values) == 2 and \
        all(isinstance(v, ast.Compare) and len(v.ops) == 1 for v in rets[0].values) and \
        isinstance(rets[0].values[0].ops[0], (ast.Gt, ast.GtE)) and isinstance(rets[0].values[1].ops[0], ast.Eq)
    r.check(ok_rn, "R4", f"{rn.qualname}#predicate", f"predicate is `{ast.unparse(rets[0]) if rets else None}`; expected `length test and pdu[1] == request.service_id`", loc=rn.loc)
    nm = m.require_function(f"{SERVICE}.NegativeResponse.matches")
    rets = [n.value for n in walk_no_nested(nm.node) if isinstance(n, ast.Return)]
    r.check(len(rets) == 1 and isinstance(rets[0], ast.Compare) and isinstance(rets[0].ops[0], ast.Eq), "R4", f"{nm.qualname}#predicate",
            f"predicate is `{ast.unparse(rets[0]) if rets else None}`; expected an equality", loc=nm.loc)

    # ---------------------------------------------------------------- R5
    f = m.require_function(f"{SERVICE}.RawPositiveResponse.matches")
    # (a local alias such as `service_id = self.service_id` is resolved first)
    from sa.util import subst_locals as _sl3
    import copy as _cp3
    f = _cp3.copy(f)
    f.node = ast.fix_missing_locations(_sl3(f.node, f.node))
    first = [s_ for s_ in f.node.body if not (isinstance(s_, ast.Expr) and isinstance(s_.value, ast.Constant))
             and not (isinstance(s_, ast.Assign) and isinstance(s_.targets[0], ast.Name) and isinstance(s_.value, ast.Attribute))][0]
    ok_first = isinstance(first, ast.If) and isinstance(first.test, ast.Compare) and isinstance(first.test.ops[0], ast.NotEq) and \
        {ast.unparse(first.test.left), ast.unparse(first.test.comparators[0])} == {"self.service_id", "request.service_id"} and \
        isinstance(first.body[0], ast.Return) and ast.unparse(first.body[0].value) == "False"
    r.check(ok_first, "R5", f"{f.qualname}#service-id-first", "a raw positive response of another service must be refused first", loc=f.loc)
    echo_rets = [n.value for n in ast.walk(f.node) if isinstance(n, ast.Return) and isinstance(n.value, ast.Compare) and "request.pdu[" in ast.unparse(n.value)]
    r.check(len(echo_rets) == 1 and isinstance(echo_rets[0].ops[0], ast.Eq), "R5", f"{f.qualname}#echo-equality",
            "the echoed bytes must be compared for equality", loc=f.loc)
    slices = [n for n in walk_no_nested(f.node) if isinstance(n, ast.Subscript) and isinstance(n.slice, ast.Slice)
              and ast.unparse(n.value) in ("request.pdu", "self.pdu")]
    if len(slices) < 2:
        raise AnalysisError(f"{f.qualname}: echo slices not found")
    # the slice bounds as functions of the table's echo length E (locals are followed through their straight-line definitions): [1 : E + 1]
    from sa import miniterp as _mt3

    class _Tbl(dict):
        def __init__(self, e_: int) -> None:
            super().__init__()
            self.e_ = e_

        def __contains__(self, k: object) -> bool:
            return True

        def __getitem__(self, k: object) -> int:
            return self.e_
    local_defs = sorted((n for n in ast.walk(f.node) if isinstance(n, ast.Assign) and len(n.targets) == 1 and isinstance(n.targets[0], ast.Name)), key=lambda n: (n.lineno, n.col_offset))
    for s in slices:
        bad_b, unknown_b = [], False
        for E in (0, 1, 2, 5):
            env = {"UDSIsoServicesEchoLength": _Tbl(E)}
            orc = lambda call, env_: "KEY" if ast.unparse(call.func).split(".")[-1] == "UDSIsoServices" else NotImplemented
            try:
                for d in local_defs:
                    if (d.lineno, d.col_offset) < (s.lineno, s.col_offset):
                        try:
                            env[d.targets[0].id] = _mt3.eval_expr(d.value, env, orc)
                        except AnalysisError:
                            pass
                lo_v = _mt3.eval_expr(s.slice.lower, env, orc) if s.slice.lower is not None else 0
                up_v = _mt3.eval_expr(s.slice.upper, env, orc) if s.slice.upper is not None else None
            except AnalysisError:
                unknown_b = True
                break
            if (lo_v, up_v) != (1, E + 1):
                bad_b.append(f"echo length {E}: [{lo_v}:{up_v}]")
        r.check3(None if unknown_b else not bad_b, "R5", f"{f.qualname}#{ast.unparse(s.value)}",
                 f"echo slice {ast.unparse(s)} is {bad_b[:2]}; it does not cover bytes 1 .. echo_length: the last echoed byte is not compared "
                 "or the service id byte is included", loc=f.loc)
    sid_cmp = any(isinstance(n, ast.Compare) and "self.service_id" in ast.unparse(n) and "request.service_id" in ast.unparse(n)
                  for n in walk_no_nested(f.node))
    r.check(sid_cmp, "R5", f"{f.qualname}#service-id", "raw positive responses are not matched on the service id", loc=f.loc)
    # echo-length table: entries of services with typed classes must not exceed the bytes both layouts echo
    tbl = m.lookup_in_module(m.module(CONST), "UDSIsoServicesEchoLength")
    if not (isinstance(tbl, tuple) and isinstance(tbl[2], ast.Dict)):
        raise AnalysisError("UDSIsoServicesEchoLength is not a dict literal")
    echo_tbl = {m.fold(tbl[1], k): m.fold(tbl[1], v) for k, v in zip(tbl[2].keys, tbl[2].values)}
    for sid, n in sorted(echo_tbl.items()):
        typed = [p for p in pairs if p.service_id == sid]
        if not typed:
            continue
        for p in typed:
            # the first n bytes after the service id must be position-identical fields in request and response layouts
            ra, pa = ca.analyse(p.request), ca.analyse(p.response)
            def prefix(a: ClassAnalysis) -> set[tuple]:
                out = set()
                for pth in a.accepted:
                    toks, width = [], 0
                    for t in pth.shape[1:]:
                        if width >= n:
                            break
                        w = {"K": 1, "B": 1, "I2": 2, "I3": 3}.get(t)
                        if w is None:
                            toks.append(t)
                            width = 99 if t in ("R*", "{") else width + 1
                            continue
                        toks.append(t)
                        width += w
                    out.add((tuple(toks), width >= n or width == 99))
                return out
            pr_req, pr_resp = prefix(ra), prefix(pa)
            long_enough = any(okk for _, okk in pr_resp) and any(okk for _, okk in pr_req)
            r.check(long_enough, "R5", f"UDSIsoServicesEchoLength[{sid:#x}]~{p.response.name}",
                    f"echo length {n} exceeds what request ({pr_req}) and response ({pr_resp}) layouts of this service carry", loc=f.loc)

    from sa.codec import request_envelope_rule
    from sa.uds_rules import sub_function_split_rule
    sub_function_split_rule(m, r, "R15")
    request_envelope_rule(m, r, "R15", reg, "parse_pdu re-parses request.pdu; a request that fails its own length gate degrades to RawRequest and every positive reply of "
                          "the service is accepted, whatever identifier / counter it echoes")
    # ---------------------------------------------------------------- R6
    pp = m.require_function(f"{HELPERS}.parse_pdu")
    body = pp.node.body
    tries = [s for s in body if isinstance(s, ast.Try)]
    if len(tries) != 1 or len(tries[0].handlers) != 1:
        raise AnalysisError("parse_pdu: expected one try with one handler around UDSResponse.parse_dynamic")
    r.ok("R6", f"{pp.qualname}#mismatch-before-malformed", "decided by the evaluated error-path table (R4): a MalformedResponse raised ahead of a mismatch test is a wrong row there")
    parse_pdu_request_consistency(m, r, "R6")
    trig = [i for i, s in enumerate(body) if isinstance(s, ast.Assign) and "trigger_request" in ast.unparse(s.targets[0])]
    last_if = max(i for i, s in enumerate(body) if isinstance(s, ast.If))
    r.check(len(trig) == 1 and trig[0] > last_if and isinstance(body[-1], ast.Return), "R6", f"{pp.qualname}#trigger-request",
            "response.trigger_request must be assigned exactly once, after all mismatch tests", loc=pp.loc)

    r.assumptions += ["matches() bodies are conjunctions of isinstance tests and equality atoms (other atoms are listed in evidence)",
                      "ISO echo table in sa/oracles/iso14229.py"]
    r.not_decided += ["acceptance for all value combinations", "the DDDI response's echoed DDDID is not compared (advisory, ISO-optional)"]


def _range_guard(m: Model, cls: ClassInfo, field: str) -> tuple[int, int] | None:
    """(lo, hi) of the check_range(...) guard the constructor of cls applies to the parameter stored in self.<field>; None if there is none."""
    init = cls.methods.get("__init__")
    if init is None:
        return None
    par = None
    for n in ast.walk(init.node):
        if isinstance(n, ast.Assign) and any(ast.unparse(t) == f"self.{field}" for t in n.targets) and isinstance(n.value, ast.Name):
            par = n.value.id
    if par is None:
        return None
    for n in ast.walk(init.node):
        if isinstance(n, ast.Call) and ast.unparse(n.func) == "check_range" and len(n.args) == 4 and ast.unparse(n.args[0]) == par:
            lo, hi = m.try_fold(init.module, n.args[2]), m.try_fold(init.module, n.args[3])
            if isinstance(lo, int) and isinstance(hi, int):
                return lo, hi
    return None


def _single_subfunction(m: Model, reg: Registry, t: ClassInfo) -> bool:
    """t has exactly one registered sub-function among its registered subclasses."""
    keys = {(p.service_id, p.sub_function_id) for p in reg.pairs if p.request is not None and m.is_subclass(p.request, t)}
    return len(keys) == 1


def _pins_subfunction(m: Model, t: ClassInfo) -> bool:
    return False
