"""C03 Genuine replies accepted, foreign or stale replies refused (static clauses)."""
from __future__ import annotations

import ast

from sa.model import AnalysisError, Model
from sa.report import Report

TITLE = "Genuine replies are always accepted, foreign or stale replies always refused"
EXC = "gallia.services.uds.core.exception"
CONST = "gallia.services.uds.core.constants"


def rule_r7(m: Model, r: Report) -> None:
    r.rule("R7", "every member of UDSErrorCodes has exactly one UnexpectedNegativeResponse subclass "
                 "registered with response_code=<member> (parse_dynamic is a total map)", floor=60)
    base = m.require_class(f"{EXC}.UnexpectedNegativeResponse")
    codes = m.enum_members(m.require_class(f"{CONST}.UDSErrorCodes"))
    if not codes:
        raise AnalysisError("UDSErrorCodes has no members")
    m.require_function(f"{EXC}.UnexpectedNegativeResponse.parse_dynamic")
    registered: dict[int, list[str]] = {}
    for c in m.subclasses(base, strict=True):
        if "response_code" not in c.keywords:
            continue
        v = m.class_kw(c, "response_code")
        registered.setdefault(v, []).append(c.name)
        r.note("exception classes", c.qualname)
    for name, val in codes.items():
        r.check(val in registered, "R7", f"UDSErrorCodes.{name}",
                f"no UnexpectedNegativeResponse subclass registers response_code={name} ({val:#x}): "
                f"as_exception/raise_for_error raise KeyError for this negative response",
                loc=base.loc, fact_ok=f"{name} -> {registered.get(val)}")


def run(m: Model, r: Report, tier: str) -> None:
    rule_r7(m, r)
