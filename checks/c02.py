"""C02 Decoded UDS responses expose the received fields and re-encode to the same bytes (static clauses)."""
from __future__ import annotations

import ast

from sa.codec import SERVICE, CodecAnalyser, Registry, field_origin
from sa.layout import DictV, IntV, Lin, ListV
from sa.model import AnalysisError, ClassInfo, FuncInfo, Model, walk_no_nested
from sa.oracles import iso14229
from sa.report import Report

TITLE = "Decoded UDS responses expose the received fields and re-encode to the same bytes"
UTILS = "gallia.services.uds.core.utils"
HANDLER = "gallia.db.handler"

ARMED = {"byte", "width", "const", "endian", "overflow", "length-definite", "length", "unpinned-width", "partial-group"}


def effective_max_length(m: Model, mod, call: ast.Call, depth: int = 0):
    """Value of utils.bytes_repr's max_length parameter that a bytes_repr(...) call ends up with, or 'unknown'."""
    if depth > 3:
        return "unknown"
    callee = m.resolve_expr(mod, call.func)
    if not isinstance(callee, FuncInfo):
        return "unknown"
    target = m.require_function(f"{UTILS}.bytes_repr")
    if callee.qualname == target.qualname:
        params = callee.params()
        bound: dict[str, ast.expr] = dict(zip(params, call.args))
        for kw in call.keywords:
            if kw.arg:
                bound[kw.arg] = kw.value
        if "max_length" in bound:
            try:
                return m.fold(mod, bound["max_length"])
            except Exception:  # noqa: BLE001
                return "unknown"
        d = callee.param_defaults().get("max_length")
        return m.try_fold(callee.module, d, default="unknown") if d is not None else "unknown"
    rets = [n for n in walk_no_nested(callee.node) if isinstance(n, ast.Return)]
    if len(rets) == 1 and isinstance(rets[0].value, ast.Call):
        return effective_max_length(m, callee.module, rets[0].value, depth + 1)
    return "unknown"


def run(m: Model, r: Report, tier: str) -> None:
    reg = Registry(m)
    ca = CodecAnalyser(m)
    r.rule("R1", "W∘R byte identity for every PDU the response parser accepts: each written byte is the PDU byte at that "
                 "offset, parsed and written widths agree, and the whole accepted PDU is written back "
                 "(no trailing bytes dropped, no truncated group, no width taken from 'the rest' without a length check)", floor=34)
    r.rule("R2", "field positions equal the ISO 14229-1 response row of the (service, sub-function)", floor=34)
    r.rule("R4", ".pdu cannot raise for an object the parser produced", floor=34)
    r.rule("R5", "wire records are not stored in a key-deduplicating container", floor=34)
    r.rule("R6", "enum coercion of a wire byte is lossless (no _missing_ hook that maps unknown values)", floor=2)
    r.rule("R7", "dynamic routing anchors: response id = service id + 0x40, 0x7F routed to NegativeResponse, unknown to raw", floor=4)
    r.rule("R8", "the database stores request.pdu / response.pdu through a non-truncating representation", floor=2)
    r.rule("R9", "named fields sit at the ISO 14229-1 positions (sub-byte packing, order of equal-width neighbours, repeated groups)", floor=25)
    r.rule("R10", "the response-code and service-id tables equal ISO 14229-1 (a wrong entry makes a genuine negative response undecodable, a reserved "
           "code acceptable, or routes a reply to the wrong classes)", floor=4)
    from sa.uds_rules import iso_tables
    iso_tables(m, r, "R10", "both")
    from sa.uds_rules import iso_subfunction_tables
    iso_subfunction_tables(m, r, "R10")
    from sa.uds_rules import range_helpers_rule
    range_helpers_rule(m, r, "R4")
    from sa.uds_rules import serialiser_keeps_order
    if serialiser_keeps_order(m, r, "R1", "gallia.services.uds.core.service.UDSResponse") < 30:
        raise AnalysisError("serialising methods of the response classes not found")
    r.rule("R11", "the declared length envelope of every response class covers the ISO 14229-1 envelope (a valid reply is not refused for its length)", floor=34)
    for p_ in reg.pairs:
        if p_.response is None or p_.service_id is None:
            continue
        key_ = (p_.service_id, p_.sub_function_id) if (p_.service_id, p_.sub_function_id) in iso14229.RESP else (p_.service_id, None)
        if key_ not in iso14229.RESP:
            continue
        _sh, iso_min_, iso_max_ = iso14229.RESP[key_]
        mn_, mx_ = m.class_kw(p_.response, "minimal_length"), m.class_kw(p_.response, "maximal_length")
        r.check(isinstance(mn_, int) and mn_ <= iso_min_ and (mx_ is None or (iso_max_ is not None and mx_ >= iso_max_)), "R11", f"{p_.response.qualname}#envelope",
                f"declared lengths {mn_}..{mx_} do not cover the ISO envelope {iso_min_}..{iso_max_}: valid replies are refused as malformed", loc=p_.response.loc)
    from sa.codec import field_placement
    field_placement(m, r, "R9", ca, list(reg.registered_responses()), iso14229.FIELD_PLACEMENT)

    classes: list[tuple[ClassInfo, tuple]] = []
    for p in reg.pairs:
        if p.response is None or p.service_id is None:
            continue
        key = (p.service_id, p.sub_function_id)
        if key not in iso14229.RESP:
            key = (p.service_id, None)
        if key not in iso14229.RESP:
            raise AnalysisError(f"no ISO oracle row for response {p.response.name} key {(p.service_id, p.sub_function_id)}")
        if not any(c == p.response and k == key for c, k in classes):
            classes.append((p.response, key))
    neg = m.require_class(f"{SERVICE}.NegativeResponse")
    classes.append((neg, (0x7F, None)))

    for cls, key in classes:
        construct = cls.qualname
        r.note("response classes", construct)
        a = ca.analyse(cls)
        acc = a.accepted
        if not acc:
            r.violation("R1", construct, "the parser accepts no PDU at all", cls.loc)
            continue
        armed = [(p, i) for p in acc for i in p.issues if i.kind in ARMED]
        rais = [(p, i) for p in acc for i in p.issues if i.kind == "raise"]
        r.check(not armed, "R1", construct, "; ".join(sorted({i.msg for _, i in armed}))[:1200], loc=cls.loc,
                facts={"layouts": [p.layout for p in acc]}, fact_ok=" | ".join(" ".join(p.shape) for p in acc))
        r.check(not rais, "R4", construct, "; ".join(sorted({i.msg for _, i in rais}))[:900], loc=cls.loc)
        shapes, iso_min, iso_max = iso14229.RESP[key]
        if not armed and not rais:
            wrong = [" ".join(p.shape) for p in acc if not iso14229.shape_matches(p.shape, shapes)]
            r.check(not wrong, "R2", construct,
                    f"decoded layout(s) {wrong} differ from the ISO 14229-1 response layout {shapes}", loc=cls.loc,
                    fact_ok=f"{[' '.join(p.shape) for p in acc]} within ISO {shapes}")
        else:
            r.ok("R2", construct, "skipped: R1/R4 already report this class")
        # R5
        dedup = []
        r5_construct = construct
        for p in acc:
            for fname, v in p.fields.items():
                if isinstance(v, DictV) and v.loop is not None and not fname.startswith("_"):
                    dedup.append(f"{fname}: {field_origin(v)}")
                    for c in m.mro(cls):
                        init = c.methods.get("__init__")
                        if init is not None and any(isinstance(n, ast.Attribute) and n.attr == fname and isinstance(n.ctx, ast.Store)
                                                    for n in ast.walk(init.node)):
                            r5_construct = f"{init.qualname}#{fname}"
                            break
        r.check(not dedup, "R5", r5_construct,
                f"repeated wire records are stored in a dict keyed by wire content ({(sorted(set(dedup)) or [''])[0][:200]}): "
                "records with equal keys collapse and the re-encoded PDU is shorter than the received one", loc=cls.loc)
        # R6
        for p in acc:
            for g in p.guards:
                if g[0] == "enum":
                    ecls = m.classes.get(g[1])
                    if ecls is None:
                        continue
                    has_missing = m.resolve_method(ecls, "_missing_") is not None
                    r.check(not has_missing, "R6", f"{construct}#{ecls.name}",
                            f"{ecls.name} defines _missing_: unknown wire values are replaced instead of rejected, "
                            "so re-encoding changes the byte", loc=ecls.loc)

    # ---------------------------------------------------------------- R7
    isc = m.require_function(f"{SERVICE}.UDSResponse.__init_subclass__")
    val = None
    for n in ast.walk(isc.node):
        if isinstance(n, ast.Assign) and any(isinstance(t, ast.Attribute) and t.attr == "RESPONSE_SERVICE_ID" for t in n.targets):
            val = m.try_fold(isc.module, n.value, env={"service_id": 0x10})
    r.check(val == 0x50, "R7", f"{isc.qualname}#RESPONSE_SERVICE_ID",
            f"RESPONSE_SERVICE_ID for service 0x10 folds to {val!r}, expected 0x50 (service id + 0x40)", loc=isc.loc)
    pd = m.require_function(f"{SERVICE}.UDSResponse.parse_dynamic")
    idx = [n for n in ast.walk(pd.node) if isinstance(n, ast.Subscript) and ast.unparse(n.value).endswith("_SERVICES")]
    ok = False
    for s in idx:
        for c in ast.walk(s.slice):
            if isinstance(c, ast.BinOp) and isinstance(c.op, ast.Sub) and ast.unparse(c.left) == "pdu[0]" and m.try_fold(pd.module, c.right) == 0x40:
                ok = True
    r.check(ok, "R7", f"{pd.qualname}#service-lookup", "the service is not looked up with pdu[0] - 0x40", loc=pd.loc)
    neg_route = False
    raw_fallbacks = 0
    for n in ast.walk(pd.node):
        if isinstance(n, ast.If) and "NegativeResponse" in ast.unparse(n.test) and "pdu[0]" in ast.unparse(n.test):
            for b in n.body:
                if isinstance(b, ast.Return) and ast.unparse(b.value).startswith("NegativeResponse.from_pdu("):
                    neg_route = True
        if isinstance(n, ast.Return) and n.value is not None and ast.unparse(n.value) == "RawPositiveResponse(pdu)":
            raw_fallbacks += 1
    r.check(neg_route, "R7", f"{pd.qualname}#negative-route", "0x7F is not routed to NegativeResponse.from_pdu", loc=pd.loc)
    r.check(raw_fallbacks >= 2, "R7", f"{pd.qualname}#raw-fallback",
            f"only {raw_fallbacks} RawPositiveResponse fallbacks (unknown service / unknown sub-function)", loc=pd.loc)
    # class-keyword plumbing the interpreter relies on
    for owner, attr, kw in (("UDSResponse", "SERVICE_ID", "service_id"), ("UDSResponse", "_MINIMAL_LENGTH", "minimal_length"),
                            ("UDSResponse", "_MAXIMAL_LENGTH", "maximal_length"), ("UDSRequest", "SERVICE_ID", "service_id"),
                            ("UDSRequest", "_MINIMAL_LENGTH", "minimal_length"), ("UDSRequest", "_MAXIMAL_LENGTH", "maximal_length"),
                            ("SpecializedSubFunctionResponse", "SUB_FUNCTION_ID", "sub_function_id"),
                            ("SpecializedSubFunctionRequest", "SUB_FUNCTION_ID", "sub_function_id")):
        f = m.require_function(f"{SERVICE}.{owner}.__init_subclass__")
        found = any(isinstance(n, ast.Assign) and isinstance(n.value, ast.Name) and n.value.id == kw
                    and any(isinstance(t, ast.Attribute) and t.attr == attr for t in n.targets) for n in ast.walk(f.node))
        if not found:
            raise AnalysisError(f"{f.qualname} no longer assigns cls.{attr} = {kw}: the interpreter's class-constant model is stale")

    # ---------------------------------------------------------------- R8
    ins = m.require_function(f"{HANDLER}.DBHandler.insert_scan_result")
    hmod = m.module(HANDLER)
    n_pdu = 0
    for n in ast.walk(ins.node):
        if isinstance(n, ast.Call) and ast.unparse(n.func).split(".")[-1].startswith("bytes_repr") and n.args:
            arg = ast.unparse(n.args[0])
            ml = effective_max_length(m, hmod, n)
            is_pdu = arg.endswith(".pdu")
            if is_pdu:
                n_pdu += 1
            r.check(ml is None, "R8", f"{ins.qualname}#bytes_repr({arg})",
                    f"bytes_repr({arg}) is evaluated with max_length={ml!r}: byte strings longer than that are stored "
                    "truncated ('...') instead of what was sent/received", loc=f"{hmod.relpath}:{n.lineno}")
    if n_pdu < 2:
        raise AnalysisError(f"{ins.qualname}: expected bytes_repr(request.pdu) and bytes_repr(response.pdu), found {n_pdu}")
    from sa.util import bytes_repr_truncates
    why = bytes_repr_truncates(m, None)
    r.check(why is None, "R8", "gallia.services.uds.core.utils.bytes_repr#none-is-unlimited",
            f"with max_length=None (what the database handler passes) {why}: the stored PDU is not what was received", loc="src/gallia/services/uds/core/utils.py")

    r.assumptions += [
        "CPython semantics of struct.pack, int.to_bytes/from_bytes and slicing as modelled in sa/layout.py",
        "ISO 14229-1 rows in sa/oracles/iso14229.py are correct transcriptions",
    ]
    r.not_decided += ["field values for concrete inputs; behaviour of mutated neighbours beyond length/format gates"]
