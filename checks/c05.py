"""C05 Concurrent users of one UDS client never interleave their exchanges (static clauses)."""
from __future__ import annotations

import ast

from sa.callgraph import CallGraph
from sa.locks import LockModel
from sa.model import AnalysisError, ClassInfo, FuncInfo, Model, walk_no_nested
from sa.report import Report

TITLE = "Concurrent users of one UDS client never interleave their exchanges"
CLIENT = "gallia.services.uds.core.client"
ECU = "gallia.services.uds.ecu"


def run(m: Model, r: Report, tier: str) -> None:
    r.rule("R1", "every use of self.transport in the client hierarchy is entered with the client mutex held on every call path "
                 "from a public entry point or task root", floor=4)
    r.rule("R2", "the exchange function (retries, pending loop) neither takes nor releases the mutex itself", floor=1)
    r.rule("R3", "locks are only taken with `async with` (released on failure and cancellation)", floor=1)
    r.rule("R4", "no call path re-acquires the non-reentrant client mutex while holding it", floor=2)
    r.rule("R5", "overrides of _request keep the locked path (delegate to super()._request or lock themselves)", floor=1)
    r.rule("R6", "lock order client mutex -> transport mutex -> connection mutex is acyclic", floor=1)
    r.rule("R7", "the cyclic tester-present worker goes through the public, locked request path", floor=1)
    r.rule("R10", "a reply is matched against the re-parsed request (a raw request of a known service is not satisfied by another request's reply)", floor=2)
    r.rule("R9", "the transport mutex spans both halves of reconnect (close and connect) and the write+read pair of request", floor=2)
    r.rule("R8", "work that uses the transport under the client mutex is awaited by the lock holder itself: never handed to a task "
                 "that outlives the critical section (asyncio.shield / create_task / ensure_future)", floor=1)

    cg = CallGraph(m)
    lm = LockModel(m, cg)
    client = m.require_class(f"{CLIENT}.UDSClient")
    ecu = m.require_class(f"{ECU}.ECU")
    mutex = lm.key_for(client, "mutex", lm.locks)
    if mutex is None:
        raise AnalysisError("UDSClient.mutex (asyncio.Lock) not found")
    hierarchy = m.subclasses(client)
    r.note("client classes", ", ".join(c.qualname for c in hierarchy))

    methods: dict[str, FuncInfo] = {}
    for c in hierarchy:
        for f in c.methods.values():
            methods[f.qualname] = f
    # entry points: public coroutine methods (no leading underscore, not *_unsafe) and task roots
    entry = {q for q, f in methods.items() if not f.name.startswith("_") and not f.name.endswith("_unsafe")}
    roots = [cs for cs in cg.task_roots if cs.targets and any(t.qualname in methods for t in cs.targets)]
    for cs in roots:
        for t in cs.targets:
            entry.add(t.qualname)
    must = lm.must_hold(mutex, entry)

    # ---------------------------------------------------------------- R1
    io_sites = []
    for q, f in methods.items():
        for n in walk_no_nested(f.node):
            if isinstance(n, ast.Call) and isinstance(n.func, ast.Attribute):
                v = n.func.value
                if isinstance(v, ast.Attribute) and v.attr == "transport" and isinstance(v.value, ast.Name) and v.value.id == "self":
                    io_sites.append((f, n))
    if len(io_sites) < 3:
        raise AnalysisError(f"only {len(io_sites)} self.transport call sites found in the client hierarchy")
    unreachable_private = []
    for f, n in io_sites:
        construct = f"{f.qualname}#self.transport.{n.func.attr}"
        if mutex in lm.held_syntactic(f, n):
            r.ok("R1", construct, "inside async with self.mutex")
            continue
        if must.get(f.qualname, False):
            r.ok("R1", construct, "function is only entered with the mutex held")
            continue
        callers = cg.callers.get(f.qualname, [])
        if f.qualname not in entry and not callers:
            unreachable_private.append(construct)
            r.ok("R1", construct, "private helper without any caller in the tree (becomes a violation when a caller appears)")
            continue
        # find an unlocked chain for the message
        chain = [f.qualname]
        cur = f
        seen = {f.qualname}
        while cur.qualname not in entry:
            nxt = None
            for cs in cg.callers.get(cur.qualname, []):
                if mutex not in lm.held_syntactic(cs.caller, cs.node) and not must.get(cs.caller.qualname, False) and cs.caller.qualname not in seen:
                    nxt = cs.caller
                    break
            if nxt is None:
                break
            chain.append(nxt.qualname + (" [task root]" if any(c.task_root for c in cg.callers.get(cur.qualname, []) if c.caller is nxt) else ""))
            seen.add(nxt.qualname)
            cur = nxt
        r.violation("R1", construct,
                    f"self.transport.{n.func.attr}() is reachable without the client mutex: " + " <- ".join(chain) +
                    ": another task's exchange can be interleaved with this I/O", f"{f.module.relpath}:{n.lineno}")
    r.extra["unreachable_private_io"] = unreachable_private

    # ---------------------------------------------------------------- R8
    io_funcs = {f.qualname for f, _ in io_sites}
    DETACH = {"shield", "create_task", "ensure_future", "run_coroutine_threadsafe"}
    n_locked_fn = 0
    for q, f in methods.items():
        locked_fn = must.get(q, False) or any(k == mutex for k, _ in lm.acquisitions(f))
        if not locked_fn:
            continue
        n_locked_fn += 1
        bad = []
        for n in walk_no_nested(f.node):
            if not (isinstance(n, ast.Call) and isinstance(n.func, (ast.Attribute, ast.Name)) and (n.func.attr if isinstance(n.func, ast.Attribute) else n.func.id) in DETACH):
                continue
            if not (must.get(q, False) or mutex in lm.held_syntactic(f, n)):
                continue
            for a in n.args:
                if not isinstance(a, ast.Call):
                    continue
                tg = [t for cs in cg.sites.get(q, []) if cs.node is a for t in cs.targets]
                reach = set()
                for t in tg:
                    reach |= set(cg.reachable([t]))
                if reach & io_funcs or any(t.qualname in io_funcs for t in tg):
                    bad.append(f"{ast.unparse(n.func)}({ast.unparse(a.func)}(...)) at line {n.lineno}")
        r.check(not bad, "R8", f"{q}#no-detached-exchange",
                f"{bad}: when the caller is cancelled the lock is released while the detached exchange keeps using the transport, "
                "so it interleaves with the next caller's exchange", loc=f.loc)
    if n_locked_fn < 2:
        raise AnalysisError("functions running under the client mutex not found")

    from sa.uds_rules import parse_pdu_request_consistency
    parse_pdu_request_consistency(m, r, "R10")
    # ---------------------------------------------------------------- R9
    tbase = m.require_class("gallia.transports.base.BaseTransport")
    tmx = lm.key_for(tbase, "mutex", lm.locks)
    if tmx is None:
        raise AnalysisError("BaseTransport.mutex not found")
    for fname, callees in (("reconnect", ("self.close", "self.connect")), ("request", ("self.request_unsafe", "self.write", "self.read"))):
        tf = tbase.methods.get(fname)
        if tf is None:
            raise AnalysisError(f"BaseTransport.{fname} not found")
        sites = [n for n in ast.walk(tf.node) if isinstance(n, ast.Call) and ast.unparse(n.func) in callees]
        unlocked = [f"{ast.unparse(n.func)} (line {n.lineno})" for n in sites if tmx not in lm.held_syntactic(tf, n)]
        r.check(bool(sites) and not unlocked, "R9", f"{tf.qualname}#under-transport-mutex",
                f"{unlocked} run outside `async with self.mutex`: a concurrent request() holding the transport mutex is torn apart (its connection is closed under it)", loc=tf.loc)

    # ---------------------------------------------------------------- R2
    ru = m.require_function(f"{CLIENT}.UDSClient.request_unsafe")
    r.check(not lm.acquisitions(ru) and not lm.raw_lock_calls(ru), "R2", ru.qualname,
            "request_unsafe acquires or releases a lock itself: the critical section no longer spans retries and pending polls", loc=ru.loc)

    # ---------------------------------------------------------------- R3
    raw = []
    for f in cg.funcs.values():
        raw += [(f, n) for n in lm.raw_lock_calls(f)]
    r.check(not raw, "R3", "gallia#lock-acquisition",
            "explicit acquire()/release() on an asyncio.Lock: " + ", ".join(f"{f.qualname}:{n.lineno}" for f, n in raw[:4]),
            loc=f"{raw[0][0].module.relpath}:{raw[0][1].lineno}" if raw else "")

    # ---------------------------------------------------------------- R4
    n_regions = 0
    for q, f in methods.items():
        for k, w in lm.acquisitions(f):
            if k != mutex:
                continue
            n_regions += 1
            bad = []
            for cs in cg.sites.get(q, []):
                if cs.task_root or mutex not in lm.held_syntactic(f, cs.node):
                    continue
                for t in cs.targets:
                    acq = lm.may_acquire(t)
                    if mutex in acq:
                        bad.append(" -> ".join([q] + acq[mutex]))
            r.check(not bad, "R4", f"{q}#with-mutex", "re-acquires self.mutex while holding it (asyncio.Lock is not reentrant: "
                    f"the caller deadlocks and never releases the client): {bad[:2]}", loc=f"{f.module.relpath}:{w.lineno}")
    # also: functions only entered with the mutex held must not (transitively) acquire it
    for q, f in methods.items():
        if must.get(q, False):
            acq = lm.may_acquire(f)
            r.check(mutex not in acq, "R4", f"{q}#entered-locked",
                    f"is only called with the mutex held but acquires it again via {' -> '.join(acq.get(mutex, []))}: self-deadlock",
                    loc=f.loc)

    # ---------------------------------------------------------------- R5
    base_req = m.require_function(f"{CLIENT}.UDSClient._request")
    r.check(any(k == mutex for k, _ in lm.acquisitions(base_req)) and
            any(cs.text == "self.request_unsafe" and mutex in lm.held_syntactic(base_req, cs.node) for cs in cg.sites[base_req.qualname]),
            "R5", base_req.qualname, "UDSClient._request must call request_unsafe inside `async with self.mutex`", loc=base_req.loc)
    for c in hierarchy:
        if c == client:
            continue
        f = c.methods.get("_request")
        if f is None:
            continue
        delegates = any(cs.receiver == "super" and cs.text.endswith("._request") for cs in cg.sites[f.qualname])
        locks = any(k == mutex for k, _ in lm.acquisitions(f))
        r.check(delegates or locks, "R5", f.qualname, "override of _request neither delegates to super()._request nor takes the mutex", loc=f.loc)
    for c in hierarchy:
        f = c.methods.get("request")
        if f is not None:
            r.check(any(cs.text == "self._request" for cs in cg.sites[f.qualname]), "R5", f.qualname,
                    "request() must go through self._request (the overridable locked path)", loc=f.loc)

    # ---------------------------------------------------------------- R6
    edges: dict[tuple, list[str]] = {}
    for q, f in cg.funcs.items():
        for k, w in lm.acquisitions(f):
            for cs in cg.sites.get(q, []):
                if cs.task_root or k not in lm.held_syntactic(f, cs.node):
                    continue
                for t in cs.targets:
                    for k2, chain in lm.may_acquire(t).items():
                        if k2 != k:
                            edges.setdefault((k, k2), [q] + chain)
    # cycle detection
    graph: dict[tuple, set[tuple]] = {}
    for (a, b) in edges:
        graph.setdefault(a, set()).add(b)
    cyc = []
    def dfs(n, stack):
        if n in stack:
            cyc.append(stack[stack.index(n):] + [n])
            return
        for x in graph.get(n, ()):
            dfs(x, stack + [n])
    for n in list(graph):
        dfs(n, [])
    r.check(not cyc, "R6", "gallia#lock-order", f"lock-order cycle: {cyc[:1]} via {[edges.get((a, b)) for a, b in zip(cyc[0], cyc[0][1:])] if cyc else ''}",
            fact_ok=f"order edges: {sorted((a[1] + '@' + a[0].split('.')[-1], b[1] + '@' + b[0].split('.')[-1]) for a, b in edges)}")

    # ---------------------------------------------------------------- R7
    # the background worker by role (a private coroutine may be renamed): what start_cyclic_tester_present starts as a task
    roots7 = [cs for cs in cg.task_roots if cs.caller.qualname == f"{ECU}.ECU.start_cyclic_tester_present" and cs.targets]
    if len(roots7) != 1:
        raise AnalysisError("no create_task(<tester present worker>) found in ECU.start_cyclic_tester_present")
    worker = roots7[0].targets[0]
    calls = [cs for cs in cg.sites[worker.qualname] if cs.receiver == "self" and cs.targets]
    reach = cg.reachable([worker])
    direct_io = [q for q in reach if q in methods and any(f is methods[q] for f, n in io_sites) and not must.get(q, False)
                 and not all(mutex in lm.held_syntactic(methods[q], n) for f, n in io_sites if f is methods[q])]
    r.check(any(cs.text == "self.ping" for cs in calls) and not direct_io, "R7", worker.qualname,
            f"the worker must use the locked public path (ping -> tester_present -> request); unlocked I/O reachable: {direct_io}", loc=worker.loc)
    starters = [cs for cs in cg.task_roots if any(t.qualname == worker.qualname for t in cs.targets)]
    if not starters:
        raise AnalysisError("no create_task(<tester present worker>) found")

    r.assumptions += ["asyncio.Lock semantics (FIFO, released by `async with` on every exit incl. cancellation)",
                      "name-based resolution: self.transport is only used through the attribute of that name"]
    r.not_decided += ["which reply each task receives (follows from R1-R2 together with C03)"]
