"""C04 One client request ends with the outcome its reply/fault sequence implies (static clauses)."""
from __future__ import annotations

import ast

from sa.cfg import CFG
from sa.model import AnalysisError, FuncInfo, Model, walk_no_nested
from sa.report import Report

TITLE = "One client request ends with the outcome its reply/fault sequence implies"
CLIENT = "gallia.services.uds.core.client"
BASE = "gallia.transports.base"


def parents(root: ast.AST) -> dict[int, ast.AST]:
    out: dict[int, ast.AST] = {}
    for p in ast.walk(root):
        for c in ast.iter_child_nodes(p):
            out[id(c)] = p
    return out


def ancestors(node: ast.AST, par: dict[int, ast.AST]) -> list[ast.AST]:
    out = []
    cur = par.get(id(node))
    while cur is not None:
        out.append(cur)
        cur = par.get(id(cur))
    return out


def run(m: Model, r: Report, tier: str) -> None:
    r.rule("R1", "the request is put on the wire only in the retry loop body, once per attempt, never inside the pending loop; "
                 "the loop runs max_retry + 1 times", floor=4)
    r.rule("R2", "the responsePending loop is bounded: every iteration increments n_pending or n_timeout, each increment is "
                 "followed by a limit test that leaves the loop, limits and counters are (re)initialised per attempt", floor=7)
    r.rule("R3", "every transport await carries a timeout that cannot be None", floor=3)
    r.rule("R4", "a new attempt (continue of the retry loop) happens only on TimeoutError, ConnectionError or busyRepeatRequest", floor=3)
    r.rule("R5", "nothing fabricated or dropped: returns yield parse_pdu(raw_resp, request); every raw_resp comes from a transport "
                 "read and is followed by the empty-read -> BrokenPipeError guard inside the try that converts connection errors", floor=6)
    r.rule("R6", "the terminal error is a MissingResponse; on connection errors its __cause__ is set and a reconnect happens iff retries remain", floor=5)
    r.rule("R7", "per-request overrides resolve as `config.x if config.x is not None else self.x`", floor=2)

    fn = m.require_function(f"{CLIENT}.UDSClient.request_unsafe")
    par = parents(fn.node)
    fors = [n for n in walk_no_nested(fn.node) if isinstance(n, ast.For)]
    whiles = [n for n in walk_no_nested(fn.node) if isinstance(n, ast.While)]
    if len(fors) != 1 or len(whiles) != 1:
        raise AnalysisError(f"{fn.qualname}: expected one retry for-loop and one pending while-loop, found {len(fors)}/{len(whiles)}")
    FOR, WHILE = fors[0], whiles[0]
    if FOR not in ancestors(WHILE, par):
        raise AnalysisError(f"{fn.qualname}: the pending loop is not inside the retry loop")
    g = CFG(fn.node)

    def loops_of(node: ast.AST) -> list[ast.AST]:
        return [a for a in ancestors(node, par) if isinstance(a, (ast.For, ast.While))]

    # ---------------------------------------------------------------- R1
    r.check(ast.unparse(FOR.iter) == "range(max_retry + 1)", "R1", f"{fn.qualname}#attempts",
            f"retry loop iterates over {ast.unparse(FOR.iter)}; documented: max_retry + 1 attempts", loc=fn.loc)
    base_req = m.require_function(f"{BASE}.BaseTransport.request_unsafe")
    writes_in_base = [n for n in ast.walk(base_req.node) if isinstance(n, ast.Call) and ast.unparse(n.func) == "self.write"]
    r.check(len(writes_in_base) == 1, "R1", f"{base_req.qualname}#one-write", f"{len(writes_in_base)} write calls per transport request", loc=base_req.loc)
    rd = m.require_function(f"{CLIENT}.UDSClient._read")
    tcalls = sorted({n.func.attr for n in ast.walk(rd.node) if isinstance(n, ast.Call) and isinstance(n.func, ast.Attribute)
                     and ast.unparse(n.func.value) == "self.transport"})
    r.check(tcalls == ["read"], "R1", f"{rd.qualname}#read-only", f"_read uses transport methods {tcalls}; it must only read", loc=rd.loc)
    wsites, rsites = [], []
    for n in walk_no_nested(fn.node):
        if isinstance(n, ast.Call) and isinstance(n.func, ast.Attribute):
            recv = ast.unparse(n.func.value)
            if recv == "self.transport" and n.func.attr in ("request_unsafe", "request", "write"):
                wsites.append(n)
            elif recv == "self.transport" and n.func.attr == "read" or (recv == "self" and n.func.attr == "_read"):
                rsites.append(n)
            elif recv == "self" and n.func.attr in ("request", "_request", "request_unsafe", "send_raw"):
                wsites.append(n)
    r.check(len(wsites) == 1 and loops_of(wsites[0]) == [FOR], "R1", f"{fn.qualname}#write-site",
            f"write-capable call sites: {[(ast.unparse(w.func), [type(l).__name__ for l in loops_of(w)]) for w in wsites]}; "
            "expected exactly one, directly in the retry loop (not in the pending loop)", loc=fn.loc)
    r.check(len(rsites) >= 1 and all(WHILE in loops_of(x) for x in rsites), "R1", f"{fn.qualname}#read-sites",
            "the pending loop must poll with read-only calls", loc=fn.loc)

    # ---------------------------------------------------------------- R2
    def assigns(name: str) -> list[ast.AST]:
        out = []
        for n in walk_no_nested(fn.node):
            if isinstance(n, ast.Assign) and any(ast.unparse(t) == name for t in n.targets):
                out.append(n)
            if isinstance(n, ast.AugAssign) and ast.unparse(n.target) == name:
                out.append(n)
        return out

    for cname, limit in (("n_pending", "MAX_N_PENDING"), ("n_timeout", "max_n_timeout")):
        inits = [a for a in assigns(cname) if isinstance(a, ast.Assign) and WHILE not in ancestors(a, par)]
        r.check(len(inits) == 1 and loops_of(inits[0]) == [FOR], "R2", f"{fn.qualname}#{cname}-per-attempt",
                f"{cname} must be initialised once per attempt inside the retry loop (found at loop nesting "
                f"{[[type(l).__name__ for l in loops_of(i)] for i in inits]}): a counter carried over from an earlier attempt "
                "ends the next attempt early and drops a reply that arrives in time", loc=fn.loc)
        lim = assigns(limit)
        r.check(len(lim) == 1 and WHILE not in ancestors(lim[0], par), "R2", f"{fn.qualname}#{limit}-invariant",
                f"{limit} must be assigned exactly once, outside the pending loop", loc=fn.loc)
        incs = [a for a in assigns(cname) if isinstance(a, ast.AugAssign) and isinstance(a.op, ast.Add) and WHILE in ancestors(a, par)]
        r.check(len(incs) >= 1, "R2", f"{fn.qualname}#{cname}-increment", f"{cname} is never incremented in the pending loop", loc=fn.loc)
        for inc in incs:
            nodes = g.nodes_of(inc)
            okc = bool(nodes)
            for nd in nodes:
                succ = [b for b, k in g.succ[nd.id] if k == "n"]
                c = g.nodes[succ[0]] if succ else None
                txt = ast.unparse(c.ast) if c is not None and c.ast is not None else ""
                if not (c is not None and c.kind == "cond" and txt.replace(" ", "") == f"{cname}>={limit}"):
                    okc = False
                    continue
                # the true branch must leave the loop without passing the loop head again
                t = g.succ[c.id][0][0]
                head = [x.id for x in g.nodes.values() if x.kind == "loop" and x.ast is WHILE]
                reach = g.reachable_from(t, avoid=set(head))
                outside = [x for x in reach if g.nodes[x].ast is not None and WHILE not in ancestors(g.nodes[x].ast, par) and g.nodes[x].ast is not WHILE]
                if not outside and g.exit_raise not in reach:
                    okc = False
            r.check(okc, "R2", f"{fn.qualname}#{cname}-limit-test",
                    f"the increment of {cname} is not directly followed by `{cname} >= {limit}` leaving the loop", loc=fn.loc)
    resets = [a for a in assigns("n_timeout") if isinstance(a, ast.Assign) and WHILE in ancestors(a, par)]
    ok_reset = True
    for rs in resets:
        # a reset is only allowed on the path that also increments n_pending (same block)
        blk = par[id(rs)]
        body = getattr(blk, "body", [])
        if not any(isinstance(s, ast.AugAssign) and ast.unparse(s.target) == "n_pending" for s in body):
            ok_reset = False
    r.check(ok_reset and not [a for a in assigns("n_pending") if isinstance(a, ast.Assign) and WHILE in ancestors(a, par)],
            "R2", f"{fn.qualname}#no-counter-reset", "a counter is reset inside the pending loop without progress of the other counter", loc=fn.loc)
    # every back edge passes an increment
    heads = [x.id for x in g.nodes.values() if x.kind == "loop" and x.ast is WHILE]
    inc_nodes = {x.id for x in g.nodes.values() if isinstance(x.ast, ast.AugAssign) and ast.unparse(x.ast.target) in ("n_pending", "n_timeout")}
    for h in heads:
        body_entry = g.succ[h][0][0]
        ok2, p2 = g.must_pass(body_entry, inc_nodes, {h})
        r.check(ok2, "R2", f"{fn.qualname}#every-iteration-counts",
                "an iteration of the pending loop can return to the loop head without incrementing a counter: "
                + " -> ".join(repr(g.nodes[p]) for p in p2[-4:]), loc=fn.loc)

    # ---------------------------------------------------------------- R3 / R7
    def ifexp_override(name: str, attr: str) -> bool:
        a = [x for x in assigns(name) if isinstance(x, ast.Assign)]
        return len(a) == 1 and ast.unparse(a[0].value) == f"config.{attr} if config.{attr} is not None else self.{attr}"
    for name, attr in (("max_retry", "max_retry"), ("timeout", "timeout")):
        a = [x for x in assigns(name) if isinstance(x, ast.Assign)]
        r.check(ifexp_override(name, attr), "R7", f"{fn.qualname}#{name}-override",
                f"{name} = {ast.unparse(a[0].value) if a else None}; an explicit per-request 0 must override the client default "
                "(`or` treats 0 as unset)", loc=fn.loc)
    init = m.require_function(f"{CLIENT}.UDSClient.__init__")
    ann = init.param_annotations().get("timeout")
    r.check(ann is not None and ast.unparse(ann) == "float", "R3", f"{init.qualname}#timeout-type",
            f"UDSClient timeout is annotated {ast.unparse(ann) if ann else None}; a None default would make the request wait forever", loc=init.loc)
    w = wsites[0] if wsites else None
    r.check(w is not None and len(w.args) >= 2 and ast.unparse(w.args[1]) == "timeout", "R3", f"{fn.qualname}#write-timeout",
            "the transport request does not receive the resolved timeout", loc=fn.loc)
    wt = [x for x in assigns("waiting_time") if isinstance(x, ast.Assign)]
    wv = m.try_fold(fn.module, wt[0].value) if len(wt) == 1 else None
    poll_ok = all(any(kw.arg == "timeout" and ast.unparse(kw.value) == "waiting_time" for kw in x.keywords) or
                  (x.args and ast.unparse(x.args[0]) == "waiting_time") for x in rsites)
    r.check(isinstance(wv, (int, float)) and wv > 0 and poll_ok, "R3", f"{fn.qualname}#poll-timeout",
            f"pending polls must use the constant waiting_time (= {wv})", loc=fn.loc)

    # ---------------------------------------------------------------- R4
    conts = [n for n in walk_no_nested(fn.node) if isinstance(n, ast.Continue) and loops_of(n)[0] is FOR]
    for c in conts:
        anc = ancestors(c, par)
        handler = next((a for a in anc if isinstance(a, ast.ExceptHandler)), None)
        ok4 = False
        why = ""
        if handler is not None and handler.type is not None and ast.unparse(handler.type) in ("TimeoutError", "ConnectionError"):
            ok4, why = True, ast.unparse(handler.type)
        else:
            tests = [ast.unparse(a.test) for a in anc if isinstance(a, ast.If)]
            if any("busyRepeatRequest" in t for t in tests):
                ok4, why = True, "busyRepeatRequest"
        r.check(ok4, "R4", f"{fn.qualname}#continue@{why or c.lineno}", "a retry is started on an event that is not retry-worthy", loc=f"{fn.module.relpath}:{c.lineno}")
    busy = [n for n in walk_no_nested(fn.node) if isinstance(n, ast.If) and "busyRepeatRequest" in ast.unparse(n.test)]
    okb = len(busy) == 1 and len(busy[0].body) >= 2 and isinstance(busy[0].body[0], ast.If) and \
        ast.unparse(busy[0].body[0].test).replace(" ", "") == "i>=max_retry" and \
        isinstance(busy[0].body[0].body[0], ast.Return) and ast.unparse(busy[0].body[0].body[0].value) == "resp"
    r.check(okb, "R4", f"{fn.qualname}#busy-last-attempt", "busyRepeatRequest on the last attempt must be returned to the caller", loc=fn.loc)

    # ---------------------------------------------------------------- R5
    rets = [n for n in walk_no_nested(fn.node) if isinstance(n, ast.Return)]
    r.check(bool(rets) and all(n.value is not None and ast.unparse(n.value) == "resp" for n in rets), "R5", f"{fn.qualname}#returns",
            f"returns {[ast.unparse(n.value) if n.value else None for n in rets]}", loc=fn.loc)
    rdefs = [a for a in assigns("resp")]
    r.check(bool(rdefs) and all(isinstance(a, ast.Assign) and ast.unparse(a.value) == "parse_pdu(raw_resp, request)" for a in rdefs),
            "R5", f"{fn.qualname}#resp-defs", f"resp is defined by {[ast.unparse(a.value) for a in rdefs if isinstance(a, ast.Assign)]}", loc=fn.loc)
    raws = [a for a in assigns("raw_resp")]
    for a in raws:
        src = ast.unparse(a.value) if isinstance(a, ast.Assign) else "?"
        from_transport = isinstance(a, ast.Assign) and isinstance(a.value, ast.Await) and \
            (src.startswith("await self.transport.request_unsafe(") or src.startswith("await self._read("))
        r.check(from_transport, "R5", f"{fn.qualname}#raw_resp@{a.lineno}-source", f"raw_resp = {src[:80]} does not come from a transport read", loc=fn.loc)
        blk = par[id(a)]
        body = blk.body if isinstance(blk, ast.Try) else getattr(blk, "body", [])
        idx = body.index(a) if a in body else -1
        nxt = body[idx + 1] if 0 <= idx < len(body) - 1 else None
        guard_ok = isinstance(nxt, ast.If) and ast.unparse(nxt.test) in ("raw_resp == b''", "not raw_resp", "len(raw_resp) == 0") and \
            isinstance(nxt.body[0], ast.Raise) and "BrokenPipeError" in ast.unparse(nxt.body[0])
        in_try = isinstance(blk, ast.Try) and a in blk.body
        handles = in_try and any(h.type is not None and ast.unparse(h.type) == "ConnectionError" for h in blk.handlers) or \
            (in_try and WHILE in ancestors(a, par))
        # in the pending loop the BrokenPipeError propagates out of request_unsafe (no retry while pending): allowed; in the
        # attempt itself it must be converted by the ConnectionError handler
        if WHILE in ancestors(a, par):
            r.check(guard_ok, "R5", f"{fn.qualname}#empty-read-guard@pending", "the poll read is not followed by the empty-read guard", loc=fn.loc)
        else:
            r.check(guard_ok and in_try and handles, "R5", f"{fn.qualname}#empty-read-guard@attempt",
                    "the empty-read -> BrokenPipeError guard must directly follow the transport request inside the try whose "
                    "ConnectionError handler turns it into a retry / MissingResponse", loc=fn.loc)
    if len(raws) < 2:
        raise AnalysisError(f"{fn.qualname}: expected two raw_resp definitions (attempt and poll)")

    # ---------------------------------------------------------------- R6
    last = fn.node.body[-1]
    r.check(isinstance(last, ast.Raise) and ast.unparse(last.exc) == "last_exception", "R6", f"{fn.qualname}#terminal-raise",
            "the function must end with `raise last_exception`", loc=fn.loc)
    ldefs = [a for a in assigns("last_exception") if isinstance(a, ast.Assign)]
    r.check(bool(ldefs) and all(ast.unparse(a.value).startswith("MissingResponse(request") for a in ldefs), "R6",
            f"{fn.qualname}#terminal-type", f"last_exception is built by {[ast.unparse(a.value)[:40] for a in ldefs]}", loc=fn.loc)
    hs = [n for n in walk_no_nested(fn.node) if isinstance(n, ast.ExceptHandler) and n.type is not None and ast.unparse(n.type) == "ConnectionError"
          and WHILE not in ancestors(n, par)]
    if len(hs) != 1:
        raise AnalysisError(f"{fn.qualname}: ConnectionError handler of the attempt not found")
    h = hs[0]
    cause = any(isinstance(s, ast.Assign) and ast.unparse(s.targets[0]) == "last_exception.__cause__" and ast.unparse(s.value) == h.name for s in h.body)
    r.check(cause, "R6", f"{fn.qualname}#cause", "the MissingResponse does not carry the ConnectionError as __cause__", loc=fn.loc)
    rec = [n for n in ast.walk(h) if isinstance(n, ast.Call) and isinstance(n.func, ast.Attribute) and n.func.attr.startswith("reconnect")]
    ok_rec = len(rec) == 1 and ast.unparse(rec[0].func) == "self.reconnect_unsafe" and \
        any(isinstance(a, ast.If) and ast.unparse(a.test).replace(" ", "") == "i<max_retry" for a in ancestors(rec[0], par))
    r.check(ok_rec, "R6", f"{fn.qualname}#reconnect",
            f"reconnect call(s) {[ast.unparse(x.func) for x in rec]}: must be reconnect_unsafe (the client mutex is already held) under `i < max_retry`", loc=fn.loc)
    r.check(isinstance(h.body[-1], ast.Continue), "R6", f"{fn.qualname}#handler-continues", "the ConnectionError handler must start the next attempt", loc=fn.loc)
    to = [n for n in walk_no_nested(fn.node) if isinstance(n, ast.ExceptHandler) and n.type is not None and ast.unparse(n.type) == "TimeoutError"
          and WHILE not in ancestors(n, par)]
    r.check(len(to) == 1 and isinstance(to[0].body[-1], ast.Continue), "R6", f"{fn.qualname}#timeout-handler", "TimeoutError handler of the attempt changed", loc=fn.loc)

    r.assumptions += ["transport.read/request_unsafe honour their timeout argument (asyncio.wait_for)"]
    r.not_decided += ["the outcome for each concrete event script", "wall-clock totals"]
