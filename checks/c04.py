"""C04 One client request ends with the outcome its reply/fault sequence implies (static clauses)."""
from __future__ import annotations

import ast

from sa.cfg import CFG
from sa.model import canon_text, AnalysisError, FuncInfo, Model, walk_no_nested
from sa.report import Report
from sa.uds_rules import parse_pdu_request_consistency

TITLE = "One client request ends with the outcome its reply/fault sequence implies"
CLIENT = "gallia.services.uds.core.client"
BASE = "gallia.transports.base"


def parents(root: ast.AST) -> dict[int, ast.AST]:
    out: dict[int, ast.AST] = {}
    for p in ast.walk(root):
        for c in ast.iter_child_nodes(p):
            out[id(c)] = p
    return out


def ancestors(node: ast.AST, par: dict[int, ast.AST]) -> list[ast.AST]:
    out = []
    cur = par.get(id(node))
    while cur is not None:
        out.append(cur)
        cur = par.get(id(cur))
    return out


def run(m: Model, r: Report, tier: str) -> None:
    r.rule("R1", "the request is put on the wire only in the retry loop body, once per attempt, never inside the pending loop; "
                 "the loop runs max_retry + 1 times", floor=4)
    r.rule("R2", "the responsePending loop is bounded: every iteration increments n_pending or n_timeout, each increment is "
                 "followed by a limit test that leaves the loop, limits and counters are (re)initialised per attempt", floor=7)
    r.rule("R3", "every transport await carries a timeout that cannot be None", floor=3)
    r.rule("R4", "a new attempt (continue of the retry loop) happens only on TimeoutError, ConnectionError or busyRepeatRequest", floor=3)
    r.rule("R5", "nothing fabricated or dropped: returns yield parse_pdu(raw_resp, request); every raw_resp comes from a transport "
                 "read and is followed by the empty-read -> BrokenPipeError guard inside the try that converts connection errors", floor=5)
    r.rule("R6", "the terminal error is a MissingResponse; on connection errors its __cause__ is set and a reconnect happens iff retries remain", floor=5)
    r.rule("R7", "per-request overrides resolve as `config.x if config.x is not None else self.x`, and an unset override is None", floor=4)
    r.rule("R9", "the negative responses that steer the retry / pending logic are exactly 3 bytes long; anything else starting with 0x7F is malformed", floor=1)
    r.rule("R8", "a reply is accepted or refused against the re-parsed request (raw requests of known services are matched like typed ones)", floor=2)

    fn = m.require_function(f"{CLIENT}.UDSClient.request_unsafe")
    par = parents(fn.node)
    fors = [n for n in walk_no_nested(fn.node) if isinstance(n, ast.For)]
    whiles = [n for n in walk_no_nested(fn.node) if isinstance(n, ast.While)]
    if len(fors) != 1 or len(whiles) != 1:
        raise AnalysisError(f"{fn.qualname}: expected one retry for-loop and one pending while-loop, found {len(fors)}/{len(whiles)}")
    FOR, WHILE = fors[0], whiles[0]
    if FOR not in ancestors(WHILE, par):
        raise AnalysisError(f"{fn.qualname}: the pending loop is not inside the retry loop")
    g = CFG(fn.node)

    def loops_of(node: ast.AST) -> list[ast.AST]:
        return [a for a in ancestors(node, par) if isinstance(a, (ast.For, ast.While))]

    # ---------------------------------------------------------------- R1
    # the local that carries the resolved retry bound: the one assigned from config.max_retry (canonical view: one assignment per source)
    MR = next((ast.unparse(a.targets[0]) for a in walk_no_nested(fn.node) if isinstance(a, ast.Assign) and isinstance(a.targets[0], ast.Name)
               and "config.max_retry" in ast.unparse(a.value)), "max_retry")
    IV = ast.unparse(FOR.target)
    r.check(ast.unparse(FOR.iter).replace(" ", "") in (f"range({MR}+1)", f"range(0,{MR}+1)", f"range(1+{MR})"), "R1", f"{fn.qualname}#attempts",
            f"retry loop iterates over {ast.unparse(FOR.iter)}; documented: max_retry + 1 attempts", loc=fn.loc)
    base_req = m.require_function(f"{BASE}.BaseTransport.request_unsafe")
    writes_in_base = [n for n in ast.walk(base_req.node) if isinstance(n, ast.Call) and ast.unparse(n.func) == "self.write"]
    r.check(len(writes_in_base) == 1, "R1", f"{base_req.qualname}#one-write", f"{len(writes_in_base)} write calls per transport request", loc=base_req.loc)
    # the reply wait starts when the request is on the wire: no deadline scope that was opened before the write may cover the read
    reads_in_base = [n for n in ast.walk(base_req.node) if isinstance(n, ast.Call) and ast.unparse(n.func) == "self.read"]
    if len(reads_in_base) != 1:
        raise AnalysisError(f"{base_req.qualname}: expected one self.read call, found {len(reads_in_base)}")
    shared = [w for w in ast.walk(base_req.node) if isinstance(w, (ast.AsyncWith, ast.With)) and
              any("timeout" in ast.unparse(it.context_expr) for it in w.items) and
              any(x is reads_in_base[0] for x in ast.walk(w)) and any(x is wc for wc in writes_in_base for x in ast.walk(w))]
    shared += [c for c in ast.walk(base_req.node) if isinstance(c, ast.Call) and ast.unparse(c.func).endswith("wait_for") and
               any(x is reads_in_base[0] for x in ast.walk(c)) and any(x is wc for wc in writes_in_base for x in ast.walk(c))]
    tpar = next((p_ for p_ in base_req.params() if p_ == "timeout"), None)
    rd_args = [ast.unparse(a) for a in reads_in_base[0].args[:1]] + [ast.unparse(k.value) for k in reads_in_base[0].keywords if k.arg == "timeout"]
    r.check(not shared and tpar is not None and rd_args == [tpar], "R5", f"{base_req.qualname}#reply-window",
            "the read after the write must wait for the caller's full timeout: " +
            ("a deadline opened before the write also covers the read, so time spent writing shortens the reply window and an in-time reply is dropped" if shared
             else f"read is called with timeout {rd_args}"), loc=base_req.loc)
    rd = m.require_function(f"{CLIENT}.UDSClient._read")
    tcalls = sorted({n.func.attr for n in ast.walk(rd.node) if isinstance(n, ast.Call) and isinstance(n.func, ast.Attribute)
                     and ast.unparse(n.func.value) == "self.transport"})
    r.check(tcalls == ["read"], "R1", f"{rd.qualname}#read-only", f"_read uses transport methods {tcalls}; it must only read", loc=rd.loc)
    wsites, rsites = [], []
    for n in walk_no_nested(fn.node):
        if isinstance(n, ast.Call) and isinstance(n.func, ast.Attribute):
            recv = ast.unparse(n.func.value)
            if recv == "self.transport" and n.func.attr in ("request_unsafe", "request", "write"):
                wsites.append(n)
            elif recv == "self.transport" and n.func.attr == "read" or (recv == "self" and n.func.attr == "_read"):
                rsites.append(n)
            elif recv == "self" and n.func.attr in ("request", "_request", "request_unsafe", "send_raw"):
                wsites.append(n)
    r.check(len(wsites) == 1 and loops_of(wsites[0]) == [FOR], "R1", f"{fn.qualname}#write-site",
            f"write-capable call sites: {[(ast.unparse(w.func), [type(l).__name__ for l in loops_of(w)]) for w in wsites]}; "
            "expected exactly one, directly in the retry loop (not in the pending loop)", loc=fn.loc)
    r.check(len(rsites) >= 1 and all(WHILE in loops_of(x) for x in rsites), "R1", f"{fn.qualname}#read-sites",
            "the pending loop must poll with read-only calls", loc=fn.loc)

    # ---------------------------------------------------------------- R2
    def assigns(name: str) -> list[ast.AST]:
        out = []
        for n in walk_no_nested(fn.node):
            if isinstance(n, ast.Assign) and any(ast.unparse(t) == name for t in n.targets):
                out.append(n)
            if isinstance(n, ast.AugAssign) and ast.unparse(n.target) == name:
                out.append(n)
        return out

    # counters = names incremented inside the pending loop; limit = what the directly following test compares them with
    # (the test may directly follow the increment or stand at the head of the loop body: what counts is that no further poll is made without it)
    counters: dict[str, str] = {}
    poll_nodes = {x.id for x in g.nodes.values() if x.ast is not None and x.kind in ("stmt", "cond") and WHILE in ancestors(x.ast, par) and "self._read(" in ast.unparse(x.ast)
                  and any(isinstance(y, ast.Await) for y in ast.walk(x.ast))}
    for n in ast.walk(WHILE):
        if isinstance(n, ast.AugAssign) and isinstance(n.op, ast.Add) and isinstance(n.target, ast.Name):
            tests_ = [c for c in g.nodes.values() if c.kind == "cond" and isinstance(c.ast, ast.Compare) and len(c.ast.ops) == 1 and c.ast is not None
                      and WHILE in ancestors(c.ast, par) and isinstance(c.ast.ops[0], (ast.GtE, ast.Gt)) and ast.unparse(c.ast.left) == n.target.id
                      and (isinstance(c.ast.comparators[0], ast.Name) or isinstance(m.try_fold(fn.module, c.ast.comparators[0]), (int, float)))]
            # the limit is a local (assigned outside the pending loop) or a constant
            lim_names = {c.ast.comparators[0].id if isinstance(c.ast.comparators[0], ast.Name) else f"={m.try_fold(fn.module, c.ast.comparators[0])!r}" for c in tests_}
            covered = bool(tests_) and len(lim_names) == 1 and bool(poll_nodes) and all(
                g.must_pass(nd.id, {c.id for c in tests_}, poll_nodes)[0] for nd in g.nodes_of(n))
            if covered:
                counters[n.target.id] = lim_names.pop()
            else:
                counters.setdefault(n.target.id, "")
    r.check(len(counters) >= 2 and all(counters.values()), "R2", f"{fn.qualname}#progress-counters",
            f"counters incremented in the pending loop and their limit tests: {counters}; expected one for received pendings and one "
            "for silent polls, each followed by `counter >= limit`", loc=fn.loc)
    for cname, limit in sorted(counters.items()):
        if not limit:
            continue
        inits = [a for a in assigns(cname) if isinstance(a, ast.Assign) and WHILE not in ancestors(a, par)]
        r.check(len(inits) == 1 and loops_of(inits[0]) == [FOR], "R2", f"{fn.qualname}#counter-per-attempt:{cname}",
                f"{cname} must be initialised once per attempt inside the retry loop (found at loop nesting "
                f"{[[type(l).__name__ for l in loops_of(i)] for i in inits]}): a counter carried over from an earlier attempt "
                "ends the next attempt early and drops a reply that arrives in time", loc=fn.loc)
        lim = assigns(limit) if not limit.startswith("=") else []
        r.check(limit.startswith("=") or (len(lim) == 1 and WHILE not in ancestors(lim[0], par) and loops_of(lim[0]) in ([FOR], [])), "R2",
                f"{fn.qualname}#limit-invariant:{cname}", f"the limit of {cname} ({limit}) must be a constant or assigned exactly once, outside the pending loop", loc=fn.loc)
        incs = [a for a in assigns(cname) if isinstance(a, ast.AugAssign) and WHILE in ancestors(a, par)]
        for inc in incs:
            okc = True
            for nd in g.nodes_of(inc):
                succ = [b for b, k in g.succ[nd.id] if k == "n"]
                c = g.nodes[succ[0]]
                t = g.succ[c.id][0][0]
                head = [x.id for x in g.nodes.values() if x.kind == "loop" and x.ast is WHILE]
                reach = g.reachable_from(t, avoid=set(head))
                outside = [x for x in reach if g.nodes[x].ast is not None and WHILE not in ancestors(g.nodes[x].ast, par) and g.nodes[x].ast is not WHILE]
                if not outside and g.exit_raise not in reach:
                    okc = False
            r.check(okc, "R2", f"{fn.qualname}#limit-leaves-loop:{cname}",
                    f"reaching the limit of {cname} does not leave the pending loop", loc=fn.loc)
    resets = [a for c in counters for a in assigns(c) if isinstance(a, ast.Assign) and WHILE in ancestors(a, par)]
    ok_reset = True
    for rs in resets:
        # a reset is only allowed in a block that also increments another counter (progress of the other measure)
        blk = par[id(rs)]
        body = getattr(blk, "body", [])
        me = ast.unparse(rs.targets[0])
        if not any(isinstance(x, ast.AugAssign) and ast.unparse(x.target) in counters and ast.unparse(x.target) != me for x in body):
            ok_reset = False
    r.check(ok_reset, "R2", f"{fn.qualname}#no-counter-reset",
            "a counter is reset inside the pending loop without progress of the other counter", loc=fn.loc)
    # every back edge passes an increment
    heads = [x.id for x in g.nodes.values() if x.kind == "loop" and x.ast is WHILE]
    inc_nodes = {x.id for x in g.nodes.values() if isinstance(x.ast, ast.AugAssign) and ast.unparse(x.ast.target) in counters}
    for h in heads:
        body_entry = g.succ[h][0][0]
        # (only back edges: paths that leave the pending loop - break / raise / return - and come back to its head in the next attempt start a new
        # iteration count, the counters are re-initialised per attempt)
        def leaves_loop(n_, b_, k_, _h=h):
            a_ = g.nodes[b_].ast
            return b_ != _h and a_ is not None and a_ is not WHILE and WHILE not in ancestors(a_, par)
        ok2, p2 = g.must_pass(body_entry, inc_nodes, {h}, skip_edge=leaves_loop)
        r.check(ok2, "R2", f"{fn.qualname}#every-iteration-counts",
                "an iteration of the pending loop can return to the loop head without incrementing a counter: "
                + " -> ".join(repr(g.nodes[p]) for p in p2[-4:]), loc=fn.loc)

    # ---------------------------------------------------------------- R3 / R7
    override_var: dict[str, str] = {}
    for attr in ("max_retry", "timeout"):
        # decided by evaluation: the local that carries the resolved value is the one assigned from config.<attr>; over config.<attr> in
        # {None, 0, 5} it must end up as the client's value exactly for None
        from sa.util import choice_table
        cands_ = sorted({ast.unparse(x.targets[0]) for x in walk_no_nested(fn.node) if isinstance(x, ast.Assign) and isinstance(x.targets[0], ast.Name)
                         and any(isinstance(y, ast.Attribute) and ast.unparse(y) == f"config.{attr}" for y in ast.walk(x.value))})
        if len(cands_) != 1:
            r.unrecognised("R7", f"{fn.qualname}#{attr}-override", f"local(s) resolved from config.{attr}: {cands_}", fn.loc)
            continue
        override_var[attr] = cands_[0]
        tbl = choice_table(fn.node, cands_[0], {f"config.{attr}": [None, 0, 5]})
        want_ = {(None,): f"self.{attr}", (0,): f"config.{attr}", (5,): f"config.{attr}"}
        badv = {k_: v_ for k_, v_ in tbl.items() if v_ != want_[k_]}
        r.check(not badv, "R7", f"{fn.qualname}#{attr}-override",
                f"{attr} is resolved to {badv} (config.{attr} -> source); an explicit per-request 0 must override the client "
                "default (`or` / truthiness treats 0 as unset), None must select the client default", loc=fn.loc)
        # the field left unset by the caller must read as "not set": any other default shadows the client-level value
        rc_cls = m.require_class(f"{CLIENT}.UDSRequestConfig")
        dflt = rc_cls.class_attrs.get(attr)
        r.check(attr in rc_cls.class_annots and dflt is not None and isinstance(dflt, ast.Constant) and dflt.value is None, "R7",
                f"{rc_cls.qualname}.{attr}#unset-default",
                f"UDSRequestConfig.{attr} defaults to `{ast.unparse(dflt) if dflt is not None else '<no default>'}`: with the `is not None` override test "
                f"every request that does not set {attr} then ignores the client's {attr}", loc=rc_cls.loc)
    # nowhere on the way to request_unsafe is an override resolved by truthiness: `config.max_retry or default` replaces an explicit 0
    n_or = 0
    for mod_q in (CLIENT, "gallia.services.uds.ecu"):
        for f_ in m.functions():
            if f_.module.name != mod_q:
                continue
            # the resolved value must travel on towards request_unsafe: as a field of a request config (keyword of a call, store into config.x);
            # a local that only feeds a single transport.write (the suppressed tester-present path) is no override of the request's settings
            into_cfg = {id(k_.value) for c_ in ast.walk(f_.node) if isinstance(c_, ast.Call) for k_ in c_.keywords} | \
                       {id(a_.value) for a_ in ast.walk(f_.node) if isinstance(a_, ast.Assign) and isinstance(a_.targets[0], ast.Attribute)}
            for n_ in ast.walk(f_.node):
                if isinstance(n_, ast.BoolOp) and isinstance(n_.op, ast.Or) and isinstance(n_.values[0], ast.Attribute) and n_.values[0].attr in ("max_retry", "timeout") \
                        and "config" in ast.unparse(n_.values[0].value) and (n_.values[0].attr == "max_retry" or id(n_) in into_cfg):
                    n_or += 1
                    r.check(False, "R7", f"{f_.qualname}#truthiness-override:{n_.values[0].attr}", f"`{ast.unparse(n_)}` treats an explicit per-request 0 as unset and substitutes the "
                            "client default: a request that must be sent once (max_retry=0) is retransmitted", loc=f"{f_.module.relpath}:{n_.lineno}")
    r.ok("R7", "no-truthiness-overrides", f"{n_or} `config.x or default` expressions in client / ecu")
    # the per-request config object itself: the caller's object when one is given, a fresh (all unset) one otherwise
    from sa import miniterp as _mt4
    cpar = fn.params()[2] if len(fn.params()) > 2 else "config"
    cfg_assign = [x for x in walk_no_nested(fn.node) if isinstance(x, ast.Assign) and isinstance(x.targets[0], ast.Name) and x.targets[0].id == cpar]
    if cfg_assign:
        from sa.util import choice_table as _ct4
        tblc = _ct4(fn.node, cpar, {cpar: [None, "GIVEN"]})
        fresh = lambda t: t is not None and t.replace(" ", "").endswith("UDSRequestConfig()")
        okc = fresh(tblc[(None,)]) and tblc[("GIVEN",)] in (None, cpar)
        r.check(okc, "R7", f"{fn.qualname}#config-default", f"{cpar} becomes {tblc[(None,)]} without a config and {tblc[('GIVEN',)] or 'stays'} with a given one: the caller's "
                "overrides (max_retry, timeout) must be used when given, and an all-unset config otherwise", loc=fn.loc)
    else:
        used_raw = [n for n in ast.walk(fn.node) if isinstance(n, ast.Attribute) and isinstance(n.value, ast.Name) and n.value.id == cpar]
        r.check(not used_raw, "R7", f"{fn.qualname}#config-default", f"{cpar} may be None but its attributes are read", loc=fn.loc)
    init = m.require_function(f"{CLIENT}.UDSClient.__init__")
    ann = init.param_annotations().get("timeout")
    r.check(ann is not None and ast.unparse(ann) == "float", "R3", f"{init.qualname}#timeout-type",
            f"UDSClient timeout is annotated {ast.unparse(ann) if ann else None}; a None default would make the request wait forever", loc=init.loc)
    w = wsites[0] if wsites else None
    r.check(w is not None and len(w.args) >= 2 and ast.unparse(w.args[1]) == override_var.get("timeout", "timeout"), "R3", f"{fn.qualname}#write-timeout",
            "the transport request does not receive the resolved timeout", loc=fn.loc)
    poll_ok = bool(rsites)
    wv = None
    for x in rsites:
        e = next((kw.value for kw in x.keywords if kw.arg == "timeout"), x.args[0] if x.args else None)
        if isinstance(e, ast.Name):
            wt = [y for y in assigns(e.id) if isinstance(y, ast.Assign)]
            wv = m.try_fold(fn.module, wt[0].value) if len(wt) == 1 else None
        elif e is not None:
            wv = m.try_fold(fn.module, e)
        if not (isinstance(wv, (int, float)) and wv > 0):
            poll_ok = False
    r.check(poll_ok, "R3", f"{fn.qualname}#poll-timeout", f"pending polls must use a positive constant timeout (found {wv!r})", loc=fn.loc)

    rets = [n for n in walk_no_nested(fn.node) if isinstance(n, ast.Return)]
    rnames = {ast.unparse(n.value) if n.value is not None else None for n in rets}
    RESP = next(iter(rnames)) if len(rnames) == 1 and None not in rnames else "resp"
    raws = [n for n in walk_no_nested(fn.node) if isinstance(n, ast.Assign) and isinstance(n.value, ast.Await)
            and isinstance(n.value.value, ast.Call) and n.value.value in (wsites + rsites)]
    rawnames = {ast.unparse(a.targets[0]) for a in raws}
    RAW = next(iter(rawnames)) if len(rawnames) == 1 else "raw_resp"
    # ---------------------------------------------------------------- R4
    conts = [n for n in walk_no_nested(fn.node) if isinstance(n, ast.Continue) and loops_of(n)[0] is FOR]
    for c in conts:
        anc = ancestors(c, par)
        handler = next((a for a in anc if isinstance(a, ast.ExceptHandler)), None)
        ok4 = False
        why = ""
        if handler is not None and handler.type is not None and ast.unparse(handler.type) in ("TimeoutError", "ConnectionError"):
            ok4, why = True, ast.unparse(handler.type)
        else:
            tests = [ast.unparse(a.test) for a in anc if isinstance(a, ast.If)]
            if any("busyRepeatRequest" in t for t in tests):
                ok4, why = True, "busyRepeatRequest"
        r.check(ok4, "R4", f"{fn.qualname}#continue@{why or c.lineno}", "a retry is started on an event that is not retry-worthy", loc=f"{fn.module.relpath}:{c.lineno}")
    from sa.uds_rules import busy_last_attempt as _bla
    _bla(m, r, "R4", with_retry=True)

    # pending-loop condition and exits
    wt = WHILE.test
    ok_w = isinstance(wt, ast.BoolOp) and isinstance(wt.op, ast.And) and len(wt.values) == 2 and \
        ast.unparse(wt.values[0]) == f"isinstance({RESP}, service.NegativeResponse)" and isinstance(wt.values[1], ast.Compare) and \
        isinstance(wt.values[1].ops[0], ast.Eq) and ast.unparse(wt.values[1]) == canon_text(f"{RESP}.response_code == UDSErrorCodes.requestCorrectlyReceivedResponsePending")
    r.check(ok_w, "R2", f"{fn.qualname}#pending-condition",
            f"the pending loop runs while `{ast.unparse(wt)}`; it must run exactly while the reply is a negative response with code responsePending", loc=fn.loc)
    r.check(len(WHILE.orelse) == 1 and isinstance(WHILE.orelse[0], ast.Return) and ast.unparse(WHILE.orelse[0].value) == RESP, "R5", f"{fn.qualname}#final-reply-returned",
            "when the loop condition becomes false (a final reply arrived) that reply must be returned (while ... else: return)", loc=fn.loc)
    wbreaks = [n for n in ast.walk(WHILE) if isinstance(n, ast.Break)]
    # breaks out of the pending loop (-> next attempt): at the silent-poll limit, and in the handler for a connection lost while polling
    conn_handlers_w = [h_ for h_ in ast.walk(WHILE) if isinstance(h_, ast.ExceptHandler) and h_.type is not None and ast.unparse(h_.type) == "ConnectionError"]
    limit_breaks = [b_ for b_ in wbreaks if not any(b_ is x for h_ in conn_handlers_w for x in ast.walk(h_))]
    okb2 = len(limit_breaks) == 1 and len(wbreaks) - len(limit_breaks) <= 1
    if okb2:
        anc = ancestors(limit_breaks[0], par)
        lim_if = next((a for a in anc if isinstance(a, ast.If)), None)
        okb2 = lim_if is not None and isinstance(lim_if.test, ast.Compare) and ast.unparse(lim_if.test.left) in counters and \
            any(isinstance(s_, ast.Assign) and "MissingResponse(" in ast.unparse(s_.value) for s_ in lim_if.body)
    r.check(okb2, "R2", f"{fn.qualname}#pending-loop-exit",
            "the pending loop may only be left early (break -> next attempt) when the silent-poll limit is reached and the terminal MissingResponse is recorded; "
            "any other break retransmits the request while the ECU is still processing it", loc=fn.loc)
    wto = [n for n in ast.walk(WHILE) if isinstance(n, ast.ExceptHandler) and n.type is not None and ast.unparse(n.type) == "TimeoutError"]
    r.check(len(wto) == 1 and isinstance(wto[0].body[-1], ast.Continue), "R2", f"{fn.qualname}#silent-poll-continues",
            "a silent poll below the limit must continue polling (no retransmission)", loc=fn.loc)
    raises_in_while = [n for n in ast.walk(WHILE) if isinstance(n, ast.Raise) and n.exc is not None]
    r.check(all("BrokenPipeError" in ast.unparse(x) or "RuntimeError" in ast.unparse(x) for x in raises_in_while) and
            any("RuntimeError" in ast.unparse(x) for x in raises_in_while), "R2", f"{fn.qualname}#pending-limit-raises",
            "reaching the limit of received pendings must end the request with an error", loc=fn.loc)
    # a reply that was read is looked at before the pending limit is applied: between `resp = parse_pdu(...)` of a poll and the raise for the limit of received
    # pendings the loop condition (is this still a responsePending?) is evaluated - otherwise the reply that happens to be number MAX_N_PENDING is dropped
    # although it may be the final one ("a reply received in time is never dropped")
    polls_parse = [n for n in g.nodes.values() if n.kind == "stmt" and n.ast is not None and WHILE in ancestors(n.ast, par) and isinstance(n.ast, ast.Assign)
                   and ast.unparse(n.ast.targets[0]) == RESP and "parse_pdu(" in ast.unparse(n.ast.value)]
    lim_raises = {n.id for n in g.nodes.values() if n.kind == "raise" and n.ast is not None and WHILE in ancestors(n.ast, par) and "RuntimeError" in ast.unparse(n.ast)}
    whead = {x.id for x in g.nodes.values() if x.kind == "loop" and x.ast is WHILE}
    if len(polls_parse) != 1 or not lim_raises or not whead:
        raise AnalysisError(f"{fn.qualname}: poll parse / pending-limit raise not found")
    ok_lim, p_lim = g.must_pass(polls_parse[0].id, whead, lim_raises)
    r.check(ok_lim, "R5", f"{fn.qualname}#final-reply-at-limit", "the limit of received pendings is applied to a reply before it was checked for being final: "
            + " -> ".join(repr(g.nodes[p]) for p in p_lim[-3:]) + " (119 pendings followed by the final reply end in RuntimeError instead of that reply)", loc=fn.loc)

    # ---------------------------------------------------------------- R5
    r.check(len(rnames) == 1 and None not in rnames, "R5", f"{fn.qualname}#returns",
            f"returns {sorted(map(str, rnames))}: every return must yield the parsed reply variable", loc=fn.loc)
    rdefs = [a for a in assigns(RESP)]
    r.check(bool(rdefs) and all(isinstance(a, ast.Assign) and ast.unparse(a.value) == f"parse_pdu({RAW}, request)" for a in rdefs),
            "R5", f"{fn.qualname}#resp-defs", f"{RESP} is defined by {[ast.unparse(a.value) for a in rdefs if isinstance(a, ast.Assign)]}", loc=fn.loc)
    extra_raw = [a for a in assigns(RAW) if a not in raws]
    r.check(not extra_raw, "R5", f"{fn.qualname}#raw-only-from-transport",
            f"{RAW} is also assigned by {[ast.unparse(a)[:60] for a in extra_raw]} (fabricated data)", loc=fn.loc)
    for a in raws:
        blk = par[id(a)]
        body = blk.body if isinstance(blk, ast.Try) else getattr(blk, "body", [])
        idx = body.index(a) if a in body else -1
        nxt = body[idx + 1] if 0 <= idx < len(body) - 1 else None
        guard_ok = isinstance(nxt, ast.If) and ast.unparse(nxt.test) in (f"{RAW} == b''", f"not {RAW}", f"len({RAW}) == 0") and \
            isinstance(nxt.body[0], ast.Raise) and "BrokenPipeError" in ast.unparse(nxt.body[0])
        in_try = isinstance(blk, ast.Try) and a in blk.body
        handles = in_try and any(h.type is not None and ast.unparse(h.type) == "ConnectionError" for h in blk.handlers)
        # in the attempt itself and in the pending loop the BrokenPipeError of an empty read must be converted by the ConnectionError handler of its try
        if WHILE in ancestors(a, par):
            r.check(guard_ok and in_try and handles, "R5", f"{fn.qualname}#empty-read-guard@pending", "the poll read is not followed by the empty-read guard inside the try "
                    "whose ConnectionError handler turns it into a retry / MissingResponse", loc=fn.loc)
        else:
            r.check(guard_ok and in_try and handles, "R5", f"{fn.qualname}#empty-read-guard@attempt",
                    "the empty-read -> BrokenPipeError guard must directly follow the transport request inside the try whose "
                    "ConnectionError handler turns it into a retry / MissingResponse", loc=fn.loc)
    if len(raws) < 2:
        raise AnalysisError(f"{fn.qualname}: expected two raw_resp definitions (attempt and poll)")

    # ---------------------------------------------------------------- R6
    last = fn.node.body[-1]
    LAST = ast.unparse(last.exc) if isinstance(last, ast.Raise) and isinstance(last.exc, ast.Name) else "last_exception"
    r.check(isinstance(last, ast.Raise) and isinstance(last.exc, ast.Name), "R6", f"{fn.qualname}#terminal-raise",
            "the function must end by raising the recorded terminal exception", loc=fn.loc)
    ldefs = [a for a in assigns(LAST) if isinstance(a, ast.Assign) or isinstance(a, ast.AnnAssign)]
    ldefs += [n for n in walk_no_nested(fn.node) if isinstance(n, ast.AnnAssign) and ast.unparse(n.target) == LAST and n.value is not None]
    def _built_by(a) -> str:
        # `last_exception = missing` with `missing = MissingResponse(...)` defined once: the constructor call
        if isinstance(a.value, ast.Name):
            d_ = [x for x in assigns(a.value.id) if isinstance(x, ast.Assign)]
            if d_ and len({ast.unparse(x.value) for x in d_}) == 1:
                return ast.unparse(d_[0].value)
        return ast.unparse(a.value)
    r.check(bool(ldefs) and all(_built_by(a).startswith("MissingResponse(request") for a in ldefs), "R6",
            f"{fn.qualname}#terminal-type", f"last_exception is built by {[_built_by(a)[:40] for a in ldefs]}", loc=fn.loc)
    hs = [n for n in walk_no_nested(fn.node) if isinstance(n, ast.ExceptHandler) and n.type is not None and ast.unparse(n.type) == "ConnectionError"
          and WHILE not in ancestors(n, par) and not any(isinstance(a_, ast.ExceptHandler) for a_ in ancestors(n, par))]
    if len(hs) != 1:
        raise AnalysisError(f"{fn.qualname}: ConnectionError handler of the attempt not found")
    # a connection can be lost in the first exchange of an attempt and in every poll of the pending phase: both reads sit in a try whose ConnectionError
    # handler records MissingResponse with the cause, reconnects iff retries remain and starts the next attempt (continue / break out of the pending loop)
    polls_ = [n for n in ast.walk(WHILE) if isinstance(n, ast.Await) and "self._read(" in ast.unparse(n)]
    hs_w = [h_ for t_ in ast.walk(WHILE) if isinstance(t_, ast.Try) and any(p_ is x for p_ in polls_ for b_ in t_.body for x in ast.walk(b_))
            for h_ in t_.handlers if h_.type is not None and ast.unparse(h_.type) == "ConnectionError" and not any(isinstance(a_, ast.ExceptHandler) for a_ in ancestors(h_, par))]
    r.check(bool(polls_) and len(hs_w) == 1, "R6", f"{fn.qualname}#connection-loss-while-pending",
            "the poll read of the pending phase has no ConnectionError handler: a connection that is lost (reset, end of stream) after a responsePending leaves "
            "request_unsafe as a raw ConnectionError / BrokenPipeError - no MissingResponse, no reconnect, no retransmission although retries remain", loc=fn.loc)
    for h, where_, last_stmt in [(hs[0], "attempt", ast.Continue)] + [(x, "pending", ast.Break) for x in hs_w]:
        alias_ = {LAST} | {s.value.id for s in ast.walk(h) if isinstance(s, ast.Assign) and ast.unparse(s.targets[0]) == LAST and isinstance(s.value, ast.Name)}
        cause = any(isinstance(s, ast.Assign) and isinstance(s.targets[0], ast.Attribute) and s.targets[0].attr == "__cause__" and ast.unparse(s.targets[0].value) in alias_
                    and ast.unparse(s.value) == h.name for s in ast.walk(h))
        r.check(cause, "R6", f"{fn.qualname}#cause@{where_}", "the MissingResponse does not carry the ConnectionError as __cause__", loc=fn.loc)
        rec = [n for n in ast.walk(h) if isinstance(n, ast.Call) and isinstance(n.func, ast.Attribute) and n.func.attr.startswith("reconnect")]
        ok_rec = len(rec) == 1 and ast.unparse(rec[0].func) == "self.reconnect_unsafe"
        if ok_rec:
            from sa.uds_rules import _attempt_cases
            try:
                ok_rec = not _attempt_cases(fn, rec[0], IV, MR, lambda a_: a_[IV] < a_[MR])
            except AnalysisError:
                ok_rec = None
        r.check3(ok_rec, "R6", f"{fn.qualname}#reconnect@{where_}",
                f"reconnect call(s) {[ast.unparse(x.func) for x in rec]}: must be reconnect_unsafe (the client mutex is already held) under `i < max_retry`", loc=fn.loc)
        r.check(isinstance(h.body[-1], last_stmt), "R6", f"{fn.qualname}#handler-continues@{where_}", "the ConnectionError handler must start the next attempt", loc=fn.loc)
        # the reconnect attempt can fail as well (the peer is not back yet): that failure must not leave request_unsafe as a raw ConnectionError while retries remain
        for rc_ in rec:
            guarded_rc = any(isinstance(t2, ast.Try) and any(rc_ is x for b_ in t2.body for x in ast.walk(b_)) and
                             any(h2.type is None or any(k in ast.unparse(h2.type) for k in ("ConnectionError", "OSError", "Exception")) for h2 in t2.handlers) for t2 in ast.walk(h))
            r.check(guarded_rc, "R6", f"{fn.qualname}#reconnect-failure-handled@{where_}", "reconnect_unsafe() is awaited unprotected inside the ConnectionError handler: when the peer "
                    "refuses the connection at that moment, the ConnectionRefusedError leaves request_unsafe at once - no MissingResponse, the remaining retries are not used", loc=fn.loc)
    h = hs[0]
    to = [n for n in walk_no_nested(fn.node) if isinstance(n, ast.ExceptHandler) and n.type is not None and ast.unparse(n.type) == "TimeoutError"
          and WHILE not in ancestors(n, par)]
    r.check(len(to) == 1 and isinstance(to[0].body[-1], ast.Continue), "R6", f"{fn.qualname}#timeout-handler", "TimeoutError handler of the attempt changed", loc=fn.loc)

    # the reconnect between two attempts must not fail because the *old* connection is dead
    from sa.uds_rules import reconnect_unsafe_rule
    reconnect_unsafe_rule(m, r, "R6")
    # busy / pending / final negative answers are recognised on typed negative responses only, which are exactly three bytes long (ISO 14229-1)
    from sa.uds_rules import negative_route_strict
    negative_route_strict(m, r, "R9")
    nr = m.require_class("gallia.services.uds.core.service.NegativeResponse")
    mn_, mx_ = m.class_kw(nr, "minimal_length"), m.class_kw(nr, "maximal_length")
    r.check(mn_ == 3 and mx_ == 3, "R9", f"{nr.qualname}#length", f"NegativeResponse accepts lengths {mn_}..{mx_}: a malformed frame such as 7F 22 21 00 is then taken as busyRepeatRequest "
            "(extra transmission) or 7F 22 78 00 as responsePending (longer wait) instead of raising an illegal-response error", loc=nr.loc)
    ru = m.require_function(f"{CLIENT}.UDSClient.reconnect_unsafe")
    r.check(any(isinstance(n, ast.Call) and ast.unparse(n.func) == "self.transport.reconnect" for n in ast.walk(ru.node)), "R6",
            f"{ru.qualname}#delegates", "reconnect_unsafe must use the transport's reconnect()", loc=ru.loc)
    n_rc = 0
    for rcq in [f"{BASE}.BaseTransport.reconnect"] + [c.methods["reconnect"].qualname for c in m.subclasses(m.require_class(f"{BASE}.BaseTransport"), strict=True)
                                                       if "reconnect" in c.methods]:
        rcf = m.require_function(rcq)
        rpar = parents(rcf.node)
        for n in ast.walk(rcf.node):
            if isinstance(n, ast.Call) and ast.unparse(n.func) == "self.close":
                n_rc += 1
                tr_ = next((a for a in ancestors(n, rpar) if isinstance(a, ast.Try) and any(n in ast.walk(b) for b in a.body)), None)
                hs_ = [h_ for h_ in (tr_.handlers if tr_ else []) if h_.type is None or any(t in ast.unparse(h_.type) for t in ("ConnectionError", "OSError", "Exception"))]
                reraises = [x for h_ in hs_ for x in ast.walk(h_) if isinstance(x, ast.Raise)]
                r.check(bool(hs_) and not reraises, "R6", f"{rcq}#close-failure-tolerated",
                        "close() of the dead connection can raise a ConnectionError out of reconnect(): it escapes from inside the client's ConnectionError "
                        "handler and request() ends with a raw ConnectionError instead of retransmitting / MissingResponse", loc=f"{rcf.module.relpath}:{n.lineno}")
    if n_rc < 1:
        raise AnalysisError("BaseTransport.reconnect: close() call not found")

    # ---------------------------------------------------------------- R8
    parse_pdu_request_consistency(m, r, "R8")

    r.assumptions += ["transport.read/request_unsafe honour their timeout argument (asyncio.wait_for)"]
    r.not_decided += ["the outcome for each concrete event script", "wall-clock totals"]
