"""Self-test of a property's check on scratch copies of /repo/src (thorough tier).

Three corpora:
  seeded     /verif/seeded/<prop>-k/patch.diff      (independent sub-agent changes, each verified to break the property)
  unfixed    /verif/selftest/reverse_fixes/<c>.diff  applied in reverse = the defect the fix: commit repaired
  generated  AST-computed single-edit mutants inside the property's anchor functions (selftest/mutants.py)
A variant that applies cleanly and compiles is expected to make the quick check exit 1.  Seeded and unfixed variants are curated:
if one of them is not reported the machinery has regressed -> ANALYSIS-ERROR (exit 2).  Generated mutants are scored
(killed / total) in the evidence; survivors are listed because a single edit may be behaviour-preserving.
"""
from __future__ import annotations

import json
import os
import shutil
import subprocess
import sys
import tempfile
from concurrent.futures import ThreadPoolExecutor
from pathlib import Path

from sa.model import repo_root
from selftest import mutants, neutral

VERIF = Path(__file__).resolve().parent.parent


def _scratch_base() -> Path:
    base = os.environ.get("VERIF_SCRATCH") or ("/dev/shm" if os.path.isdir("/dev/shm") else tempfile.gettempdir())
    return Path(tempfile.mkdtemp(prefix="verif-selftest-", dir=base))


def _copy_src(dst: Path) -> None:
    shutil.copytree(repo_root() / "src", dst / "src", ignore=shutil.ignore_patterns("__pycache__", "*.pyc"))


def _run_check(prop: str, root: Path) -> tuple[int, list[str]]:
    p = subprocess.run([sys.executable, str(VERIF / "check"), prop, "--tier", "quick"], cwd=VERIF, capture_output=True, text=True,
                       env={**os.environ, "VERIF_REPO": str(root), "VERIF_NO_EVIDENCE": "1", "VERIF_TIER": "quick"})
    rules = sorted({l.split(": ")[1].split(" ")[0] for l in p.stdout.splitlines() if l.startswith("  ") and ": C" in l})
    if p.returncode == 2:
        rules = [l[:200] for l in p.stdout.splitlines() if l.startswith("ANALYSIS-ERROR")][:1]
    return p.returncode, rules


def _patch_variant(base: Path, name: str, patch: Path, reverse: bool, prop: str) -> dict:
    d = base / name
    _copy_src(d)
    args = ["patch", "-p1", "-s", "-f", "-i", str(patch)] + (["-R"] if reverse else [])
    a = subprocess.run(args, cwd=d, capture_output=True, text=True)
    res = {"variant": name, "kind": "unfixed" if reverse else "seeded", "applied": a.returncode == 0}
    if a.returncode == 0:
        c = subprocess.run([sys.executable, "-m", "compileall", "-q", str(d / "src")], capture_output=True)
        res["compiles"] = c.returncode == 0
        if res["compiles"]:
            rc, rules = _run_check(prop, d)
            res.update(exit=rc, rules=rules)
    shutil.rmtree(d, ignore_errors=True)
    return res


def _mutant_variant(base: Path, i: int, mu: mutants.Mutant, prop: str) -> dict:
    d = base / f"gen{i}"
    _copy_src(d)
    path = d / "src" / Path(*mu.module.split("."))
    path = path.with_suffix(".py") if path.with_suffix(".py").exists() else path / "__init__.py"
    path.write_text(mu.source)
    rc, rules = _run_check(prop, d)
    shutil.rmtree(d, ignore_errors=True)
    return {"variant": f"gen{i}", "kind": "generated", "function": mu.function, "op": mu.op, "detail": mu.detail, "exit": rc, "rules": rules}


def _neutral_variant(base: Path, i: int, nv, prop: str) -> dict:
    d = base / f"neu{i}"
    _copy_src(d)
    path = d / "src" / Path(*nv.module.split("."))
    path = path.with_suffix(".py") if path.with_suffix(".py").exists() else path / "__init__.py"
    path.write_text(nv.source)
    rc, rules = _run_check(prop, d)
    shutil.rmtree(d, ignore_errors=True)
    return {"variant": f"neu{i}", "kind": "neutral", "function": nv.function, "op": nv.op, "detail": nv.detail, "exit": rc, "rules": rules}


def _retired_variant(base: Path, sd: Path, prop: str) -> dict:
    """A seeded change that stopped breaking the property after a fix: commit - now a behaviour-preserving variant (must stay silent)."""
    d = base / f"ret-{sd.name}"
    _copy_src(d)
    a = subprocess.run(["patch", "-p1", "-s", "-f", "-i", str(sd / "patch.diff")], cwd=d, capture_output=True, text=True)
    rc, rules = _run_check(prop, d) if a.returncode == 0 else (0, [])
    shutil.rmtree(d, ignore_errors=True)
    return {"variant": f"retired-{sd.name}", "kind": "neutral", "function": sd.name, "op": "retired-seed", "detail": "seeded change made harmless by a fix", "exit": rc, "rules": rules}


def run_selftest(prop: str, rep) -> int:
    base = _scratch_base()
    seed = int(os.environ.get("VERIF_SEED", "0") or 0)
    try:
        jobs = []
        for sd in sorted((VERIF / "seeded").glob(f"{prop}-*")):
            if (sd / "patch.diff").exists():
                jobs.append(("patch", sd.name, sd / "patch.diff", False))
        retired = [sd for sd in sorted((VERIF / "seeded" / "_retired").glob(f"{prop}-*")) if (sd / "patch.diff").exists()] if (VERIF / "seeded" / "_retired").is_dir() else []
        idx = json.loads((VERIF / "selftest" / "reverse_fixes" / "INDEX.json").read_text())
        for commit, props in idx.items():
            if prop in props:
                jobs.append(("patch", f"unfix-{commit}", VERIF / "selftest" / "reverse_fixes" / f"{commit}.diff", True))
        src = repo_root() / "src"
        modules = {}
        for pat in mutants.ANCHORS.get(prop, []) + mutants.NEUTRAL_EXTRA.get(prop, []):
            parts = pat.split(".")
            for k in range(len(parts), 1, -1):
                cand = src / Path(*parts[:k])
                f = cand.with_suffix(".py")
                if f.exists():
                    modules[".".join(parts[:k])] = f.read_text()
                    break
        gen = mutants.generate(prop, modules, limit=int(os.environ.get("VERIF_MUTANTS", "48")), seed=seed)
        neu = neutral.generate(prop, modules, limit=int(os.environ.get("VERIF_NEUTRALS", "36")), seed=seed)
        results = []
        with ThreadPoolExecutor(max_workers=min(16, os.cpu_count() or 4)) as ex:
            futs = [ex.submit(_patch_variant, base, name, patch, rev, prop) for _, name, patch, rev in jobs]
            futs += [ex.submit(_mutant_variant, base, i, mu, prop) for i, mu in enumerate(gen)]
            futs += [ex.submit(_neutral_variant, base, i, nv, prop) for i, nv in enumerate(neu)]
            futs += [ex.submit(_retired_variant, base, sd, prop) for sd in retired]
            for f in futs:
                results.append(f.result())
    finally:
        shutil.rmtree(base, ignore_errors=True)
    curated = [x for x in results if x["kind"] in ("seeded", "unfixed")]
    usable = [x for x in curated if x.get("applied") and x.get("compiles")]
    missed = [x for x in usable if x.get("exit") != 1]
    generated = [x for x in results if x["kind"] == "generated"]
    killed = [x for x in generated if x["exit"] == 1]
    errors = [x for x in generated if x["exit"] == 2]
    survivors = [x for x in generated if x["exit"] == 0]
    neutrals = [x for x in results if x["kind"] == "neutral"]
    false_alarms = [x for x in neutrals if x["exit"] == 1]
    stopped = [x for x in neutrals if x["exit"] == 2]
    rep.extra["selftest"] = {
        "curated_variants": len(curated), "curated_applied": len(usable), "curated_detected": len(usable) - len(missed),
        "curated": [{k: x.get(k) for k in ("variant", "kind", "applied", "exit", "rules")} for x in curated],
        "generated_mutants": len(generated), "generated_killed": len(killed), "generated_analysis_error": len(errors),
        "generated_survivors": [{k: x[k] for k in ("function", "op", "detail")} for x in survivors][:40],
        "generated_stopped": [{k: x.get(k) for k in ("function", "op", "detail", "rules")} for x in errors][:40],
        "note": "generated single-edit mutants may be behaviour preserving; survivors are listed, not counted as failures",
        "neutral_variants": len(neutrals), "neutral_silent": len(neutrals) - len(false_alarms) - len(stopped),
        "neutral_false_alarms": [{k: x[k] for k in ("function", "op", "detail", "rules")} for x in false_alarms],
        "neutral_analysis_stopped": [{k: x[k] for k in ("function", "op", "detail")} for x in stopped],
    }
    rep.tier = "thorough"
    rep._write_evidence(0, sum(1 for v in rep.violations if True) and 0)
    print(f"{prop} [thorough] selftest: curated {len(usable) - len(missed)}/{len(usable)} detected "
          f"({len(curated) - len(usable)} not applicable to this tree); generated mutants killed {len(killed)}/{len(generated)}, "
          f"{len(errors)} stopped the analysis (fail-closed), {len(survivors)} survived; behaviour-preserving variants silent "
          f"{len(neutrals) - len(false_alarms) - len(stopped)}/{len(neutrals)} ({len(false_alarms)} false alarms, {len(stopped)} stopped the analysis)")
    for x in false_alarms:
        print(f"ANALYSIS-ERROR property={prop}: false alarm on behaviour-preserving variant {x['op']} in {x['function']} ({x['detail']}): {x['rules']}")
    for x in stopped:
        print(f"ANALYSIS-ERROR property={prop}: the analysis stops on behaviour-preserving variant {x['op']} in {x['function']} ({x['detail']})")
    if false_alarms or stopped:
        return 2
    if missed:
        for x in missed:
            print(f"ANALYSIS-ERROR property={prop}: self-test variant {x['variant']} ({x['kind']}) is no longer reported (exit {x.get('exit')})")
        return 2
    return 0
