"""Behaviour-preserving variants (the other direction of the self-test): the checks must stay silent on them.

Operators, applied inside a property's anchor functions:
  rename   consistent renaming of every local variable (not parameters, not globals, not attributes)
  log      insertion of a `logger.debug(...)` / `pass` statement at a random statement boundary
  doc      a docstring is added / replaced
  noteq    `a is not None` <-> `not (a is None)`
  commute  `a == b` / `a != b` -> `b == a` / `b != a` (operands without calls, awaits or walrus: evaluation order is irrelevant)
  annot    `x = e` -> `x: object = e` for a local name (an annotated assignment executes identically)
"""
from __future__ import annotations

import ast
import copy
import random
from dataclasses import dataclass

from selftest.mutants import ANCHORS, NEUTRAL_EXTRA, _functions, _match


@dataclass
class Neutral:
    module: str
    function: str
    op: str
    detail: str
    source: str


def _locals(fn: ast.AST) -> set[str]:
    params = set()
    a = fn.args
    for x in a.posonlyargs + a.args + a.kwonlyargs:
        params.add(x.arg)
    if a.vararg:
        params.add(a.vararg.arg)
    if a.kwarg:
        params.add(a.kwarg.arg)
    stored: set[str] = set()
    declared_global: set[str] = set()
    for n in ast.walk(fn):
        if isinstance(n, (ast.Global, ast.Nonlocal)):
            declared_global |= set(n.names)
        if isinstance(n, ast.Name) and isinstance(n.ctx, ast.Store):
            stored.add(n.id)
        if isinstance(n, ast.ExceptHandler) and n.name:
            stored.add(n.name)
        if isinstance(n, (ast.FunctionDef, ast.AsyncFunctionDef, ast.ClassDef)) and n is not fn:
            stored.discard(n.name)
    return {s for s in stored if s not in params and s not in declared_global and not s.startswith("__")}


class _Renamer(ast.NodeTransformer):
    def __init__(self, names: set[str], suffix: str) -> None:
        self.names, self.suffix = names, suffix

    def visit_Name(self, node: ast.Name) -> ast.AST:
        if node.id in self.names:
            node.id = node.id + self.suffix
        return node

    def visit_ExceptHandler(self, node: ast.ExceptHandler) -> ast.AST:
        if node.name in self.names:
            node.name = node.name + self.suffix
        self.generic_visit(node)
        return node

    def visit_MatchAs(self, node: ast.MatchAs) -> ast.AST:
        if node.name in self.names:
            node.name = node.name + self.suffix
        self.generic_visit(node)
        return node


def generate(prop: str, modules: dict[str, str], limit: int = 36, seed: int = 0) -> list[Neutral]:
    pats = ANCHORS.get(prop, []) + NEUTRAL_EXTRA.get(prop, [])
    out: list[Neutral] = []
    for modname, src in sorted(modules.items()):
        if not any(p.startswith(modname + ".") for p in pats):
            continue
        tree = ast.parse(src)
        has_logger = any(isinstance(n, ast.Assign) and any(isinstance(t, ast.Name) and t.id == "logger" for t in n.targets) for n in tree.body)
        funcs = [(q, f) for q, f in _functions(tree, modname) if any(_match(p, q) for p in pats)]
        rnd = random.Random(f"neutral|{prop}|{modname}|{seed}")
        rnd.shuffle(funcs)
        all_f = list(ast.walk(tree))
        for qual, fn in funcs:
            if len(out) >= limit:
                break
            idx = next(i for i, n in enumerate(all_f) if n is fn)
            for op in ("rename", "log", "log", "log", "commute", "doc", "noteq", "annot", "log", "commute"):
                t2 = copy.deepcopy(tree)
                f2 = list(ast.walk(t2))[idx]
                detail = ""
                if op == "rename":
                    names = _locals(f2)
                    if not names:
                        continue
                    _Renamer(names, "_rn").visit(f2)
                    detail = f"renamed {sorted(names)[:6]}"
                elif op == "log":
                    blocks = [n.body for n in ast.walk(f2) if hasattr(n, "body") and isinstance(getattr(n, "body"), list) and n.body and isinstance(n.body[0], ast.stmt)
                              and not isinstance(n, (ast.ClassDef,)) ]
                    if not blocks:
                        continue
                    b = rnd.choice(blocks)
                    pos = rnd.randrange(0, len(b) + 1)
                    # never before a docstring, never after a terminal statement
                    if pos == 0 and isinstance(b[0], ast.Expr) and isinstance(b[0].value, ast.Constant) and isinstance(b[0].value.value, str):
                        pos = 1
                    if pos > 0 and isinstance(b[pos - 1], (ast.Return, ast.Raise, ast.Break, ast.Continue)):
                        pos -= 1
                    stmt = ast.parse("logger.debug('verif neutral statement')" if has_logger else "pass").body[0]
                    b.insert(pos, stmt)
                    detail = f"inserted `{ast.unparse(stmt)}` at position {pos} of a block of {len(b) - 1}"
                elif op == "doc":
                    doc = ast.Expr(value=ast.Constant(value="Neutral docstring added by the self-test."))
                    if f2.body and isinstance(f2.body[0], ast.Expr) and isinstance(f2.body[0].value, ast.Constant) and isinstance(f2.body[0].value.value, str):
                        f2.body[0] = doc
                    else:
                        f2.body.insert(0, doc)
                    detail = "docstring"
                elif op == "noteq":
                    cands = [n for n in ast.walk(f2) if isinstance(n, ast.Compare) and len(n.ops) == 1 and isinstance(n.ops[0], ast.IsNot)
                             and isinstance(n.comparators[0], ast.Constant) and n.comparators[0].value is None]
                    if not cands:
                        continue
                    c = rnd.choice(cands)
                    inner = ast.Compare(left=c.left, ops=[ast.Is()], comparators=c.comparators)
                    new = ast.UnaryOp(op=ast.Not(), operand=inner)
                    for p in ast.walk(f2):
                        for fname, val in ast.iter_fields(p):
                            if val is c:
                                setattr(p, fname, new)
                            elif isinstance(val, list) and c in val:
                                val[val.index(c)] = new
                    detail = f"`{ast.unparse(c)}` -> `{ast.unparse(new)}`"
                elif op == "commute":
                    def _pure(e: ast.expr) -> bool:
                        return not any(isinstance(x, (ast.Call, ast.Await, ast.NamedExpr, ast.Yield, ast.YieldFrom)) for x in ast.walk(e))
                    cands = [n for n in ast.walk(f2) if isinstance(n, ast.Compare) and len(n.ops) == 1 and isinstance(n.ops[0], (ast.Eq, ast.NotEq))
                             and _pure(n.left) and _pure(n.comparators[0])]
                    if not cands:
                        continue
                    c = rnd.choice(cands)
                    before = ast.unparse(c)
                    c.left, c.comparators = c.comparators[0], [c.left]
                    detail = f"`{before}` -> `{ast.unparse(c)}`"
                elif op == "annot":
                    names = _locals(f2)
                    cands = [(blk, i) for n in ast.walk(f2) for blk in [getattr(n, "body", None), getattr(n, "orelse", None), getattr(n, "finalbody", None)]
                             if isinstance(blk, list) for i, st in enumerate(blk)
                             if isinstance(st, ast.Assign) and len(st.targets) == 1 and isinstance(st.targets[0], ast.Name) and st.targets[0].id in names]
                    # a name may be annotated only once per scope without upsetting type checkers; behaviour is identical either way
                    if not cands:
                        continue
                    blk, i = rnd.choice(cands)
                    st = blk[i]
                    blk[i] = ast.copy_location(ast.AnnAssign(target=st.targets[0], annotation=ast.Name(id="object", ctx=ast.Load()), value=st.value, simple=1), st)
                    detail = f"`{ast.unparse(st)[:60]}` annotated"
                msrc = ast.unparse(ast.fix_missing_locations(t2))
                try:
                    compile(msrc, modname, "exec")
                except SyntaxError:
                    continue
                out.append(Neutral(modname, qual, op, detail, msrc))
                if len(out) >= limit:
                    break
    return out[:limit]
