"""AST-computed mutants for the self-test: small edits inside a property's anchor functions.

Locators are qualified function names, never line numbers.  Each mutant is one edit; the mutated module is re-emitted with
ast.unparse (the checks work on the syntax tree, so formatting does not matter) and must still compile.
"""
from __future__ import annotations

import ast
import copy
from dataclasses import dataclass

ANCHORS: dict[str, list[str]] = {
    "C01": ["gallia.services.uds.core.service.*Request.pdu", "gallia.services.uds.core.service.*Request._from_pdu",
            "gallia.services.uds.core.service.*Request.__init__", "gallia.services.uds.core.utils.sub_function_split",
            "gallia.services.uds.core.utils.address_and_size_length"],
    "C02": ["gallia.services.uds.core.service.*Response.pdu", "gallia.services.uds.core.service.*Response._from_pdu",
            "gallia.services.uds.core.service.*Response._check_pdu", "gallia.services.uds.core.service.*Response.__init__"],
    "C03": ["gallia.services.uds.core.service.*Response.matches", "gallia.services.uds.helpers.parse_pdu",
            "gallia.services.uds.core.service.RawPositiveResponse.service_id", "gallia.services.uds.core.service.SpecializedSubFunctionService._sub_function_type",
            "gallia.services.uds.core.service.UDSRequest.parse_dynamic", "gallia.services.uds.core.service.UDSRequest.from_pdu"],
    "C04": ["gallia.services.uds.core.client.UDSClient.request_unsafe"],
    "C05": ["gallia.services.uds.core.client.UDSClient._request", "gallia.services.uds.core.client.UDSClient.reconnect",
            "gallia.services.uds.ecu.ECU._tester_present_worker"],
    "C06": ["gallia.transports.doip.DoIPConnection.*", "gallia.transports.doip.DoIPTransport.*", "gallia.transports.doip.GenericHeader.*"],
    "C07": ["gallia.transports.hsfz.HSFZConnection.*", "gallia.transports.hsfz.HSFZHeader.*"],
    "C08": ["gallia.transports.base.BaseTransport.reconnect", "gallia.transports.doip.DoIPConnection.close", "gallia.transports.hsfz.HSFZConnection.close",

            "gallia.transports.tcp.TCPTransport.*", "gallia.transports.unix.UnixTransport.*", "gallia.transports.base.LinesTransportMixin.*"],
    "C09": ["gallia.commands.scan.uds.sessions.SessionsScanner.main", "gallia.commands.scan.uds.sessions.SessionsScanner._recover_stack",
            "gallia.commands.scan.uds.sessions.SessionsScanner.set_session_with_hooks_handling"],
    "C10": ["gallia.commands.scan.uds.services.ServicesScanner.perform_scan", "gallia.commands.scan.uds.identifiers.ScanIdentifiers.perform_scan",
            "gallia.utils.unravel_2d", "gallia.services.uds.ecu.ECU.check_and_set_session"],
    "C11": ["gallia.services.uds.ecu.ECU._request", "gallia.db.handler.DBHandler.insert_scan_result", "gallia.db.handler.DBHandler.disconnect",
            "gallia.db.handler.DBHandler.connect"],
    "C12": ["gallia.services.uds.server.DBUDSServer.respond_after_default", "gallia.services.uds.server.UDSServer.update_state", "gallia.services.uds.ecu.ECU.update_state"],
    "C13": ["gallia.services.uds.server.UDSServer.default_response_if_*", "gallia.services.uds.server.UDSServer.respond", "gallia.services.uds.server.UDSServer.respond_without_state_change",
            "gallia.services.uds.server.UDSServer._is_sub_function_request", "gallia.services.uds.server.UDSServer._is_sub_function_service"],
    "C14": ["gallia.services.uds.server.RandomUDSServer.*", "gallia.services.uds.server.UDSServerTransport.handle_request", "gallia.services.uds.server.RNG.random_payload"],
    "C15": ["gallia.command.base.BaseCommand.entry_point", "gallia.command.base.BaseCommand.run_hook", "gallia.command.base.AsyncScript.run",
            "gallia.command.base.BaseCommand._db_finish_run_meta", "gallia.log.remove_zst_log_handler"],
    "C16": ["gallia.services.uds.server.RandomUDSServer.randomize", "gallia.services.uds.server.RandomUDSServer.stateful_rng", "gallia.services.uds.server.RNG.*"],
    "C17": ["gallia.log.PenlogReader.*", "gallia.log.PenlogPriority.*", "gallia.log._ZstdFileHandler.emit", "gallia.log._ZstdFileHandler.close", "gallia.log.PenlogRecord.parse_*",
            "gallia.log._JSONFormatter.format"],
    "C18": ["gallia.cli.gallia._create_parser_from_command", "gallia.command.config.GalliaBaseModel.attributes_from_*", "gallia.config.Config.get_value",
            "gallia.pydantic_argparse.utils.pydantic.PydanticField.arg_*", "gallia.pydantic_argparse.argparse.parser.ArgumentParser._validation_error",
            "gallia.command.config.GalliaBaseModel.__init_subclass__"],
    "C19": ["gallia.transports.base.LinesTransportMixin.*", "gallia.services.uds.server.TCPUDSServerTransport.handle_client"],
    "C20": ["gallia.net.join_host_port", "gallia.transports.base.TargetURI.from_parts", "gallia.utils.unravel", "gallia.utils.unravel_2d", "gallia.utils.auto_int",
            "gallia.transports.hsfz.HSFZConfig.auto_int", "gallia.transports.doip.DoIPConfig.auto_int", "gallia.transports.isotp.ISOTPConfig.auto_int"],
}

# Functions that rules of a property read but that belong to another property's mechanism: behaviour-preserving variants are generated
# for them (the check must stay silent), mutants are not (their rules live in the other property's check).
NEUTRAL_EXTRA: dict[str, list[str]] = {
    "C04": ["gallia.transports.base.BaseTransport.reconnect", "gallia.services.uds.helpers.parse_pdu", "gallia.services.uds.core.client.UDSClient.reconnect_unsafe"],
    "C05": ["gallia.transports.base.BaseTransport.reconnect", "gallia.transports.base.BaseTransport.request"],
    "C07": ["gallia.transports.hsfz.HSFZTransport.connect", "gallia.commands.discover.hsfz.HSFZDiscoverer.probe"],
    "C08": ["gallia.transports.hsfz.HSFZTransport.connect", "gallia.commands.discover.hsfz.HSFZDiscoverer.probe"],
    "C09": ["gallia.services.uds.core.utils.check_sub_function", "gallia.utils.unravel"],
    "C10": ["gallia.utils.unravel", "gallia.services.uds.core.client.UDSClient.request_unsafe"],
    "C11": ["gallia.command.uds.UDSScanner.setup", "gallia.services.uds.core.utils.bytes_repr", "gallia.services.uds.core.service.UDSRequest.from_pdu",
            "gallia.command.base.BaseCommand.entry_point"],
    "C12": ["gallia.db.handler.DBHandler.insert_scan_run", "gallia.db.handler.DBHandler.insert_scan_result", "gallia.commands.script.vecu.DbVirtualECU._server",
            "gallia.services.uds.ecu.ECU._request"],
    "C13": ["gallia.services.uds.core.service.UDSRequest.parse_dynamic"],
    "C14": ["gallia.services.uds.server.UDSServer.default_response_if_sub_function_not_supported", "gallia.services.uds.server.UDSServer.update_state",
            "gallia.services.uds.core.service.UDSRequest.parse_dynamic"],
    "C19": ["gallia.services.uds.server.UDSServerTransport.handle_request"],
}

FLIP = {ast.Lt: ast.LtE, ast.LtE: ast.Lt, ast.Gt: ast.GtE, ast.GtE: ast.Gt, ast.Eq: ast.NotEq, ast.NotEq: ast.Eq,
        ast.Is: ast.IsNot, ast.IsNot: ast.Is, ast.In: ast.NotIn, ast.NotIn: ast.In}


@dataclass
class Mutant:
    module: str          # dotted module name
    function: str        # qualified function name
    op: str
    detail: str
    source: str          # mutated module source


def _match(pattern: str, qual: str) -> bool:
    import fnmatch
    return fnmatch.fnmatchcase(qual, pattern)


def _functions(tree: ast.Module, modname: str):
    for n in tree.body:
        if isinstance(n, (ast.FunctionDef, ast.AsyncFunctionDef)):
            yield f"{modname}.{n.name}", n
        elif isinstance(n, ast.ClassDef):
            for k in n.body:
                if isinstance(k, (ast.FunctionDef, ast.AsyncFunctionDef)):
                    yield f"{modname}.{n.name}.{k.name}", k
        elif isinstance(n, ast.If):
            for k in n.body:
                if isinstance(k, ast.ClassDef):
                    for j in k.body:
                        if isinstance(j, (ast.FunctionDef, ast.AsyncFunctionDef)):
                            yield f"{modname}.{k.name}.{j.name}", j


def generate(prop: str, modules: dict[str, str], limit: int = 60, seed: int = 0) -> list[Mutant]:
    """modules: dotted name -> source text (of /repo's current tree)."""
    import random
    pats = ANCHORS.get(prop, [])
    out: list[Mutant] = []
    for modname, src in sorted(modules.items()):
        if not any(p.startswith(modname + ".") for p in pats):
            continue
        tree = ast.parse(src)
        sites = []
        for qual, fn in _functions(tree, modname):
            if not any(_match(p, qual) for p in pats):
                continue
            for node in ast.walk(fn):
                if isinstance(node, ast.Compare) and len(node.ops) == 1 and type(node.ops[0]) in FLIP:
                    sites.append((qual, "cmp", node))
                elif isinstance(node, ast.BoolOp):
                    sites.append((qual, "bool", node))
                elif isinstance(node, ast.Constant) and isinstance(node.value, int) and not isinstance(node.value, bool) and 0 <= node.value <= 0xFFFF:
                    sites.append((qual, "const", node))
                elif isinstance(node, ast.Expr) and isinstance(node.value, (ast.Call, ast.Await)) and "logger." not in ast.unparse(node):
                    sites.append((qual, "drop", node))
                elif isinstance(node, (ast.Break, ast.Continue)):
                    sites.append((qual, "loopexit", node))
                elif isinstance(node, ast.Call) and len(node.args) >= 2 and not any(isinstance(a, ast.Starred) for a in node.args[:2]) \
                        and ast.unparse(node.args[0]) != ast.unparse(node.args[1]) and not isinstance(node.args[0], ast.Constant):
                    sites.append((qual, "swapargs", node))
        rnd = random.Random(f"{prop}|{modname}|{seed}")
        rnd.shuffle(sites)
        for qual, kind, node in sites:
            if len(out) >= limit:
                break
            mutated = _apply(tree, node, kind)
            if mutated is None:
                continue
            msrc, detail = mutated
            try:
                compile(msrc, modname, "exec")
            except SyntaxError:
                continue
            out.append(Mutant(modname, qual, kind, detail, msrc))
    return out[:limit]


def _apply(tree: ast.Module, node: ast.AST, kind: str) -> tuple[str, str] | None:
    # locate the node's position in a deep copy by walking in parallel
    orig = list(ast.walk(tree))
    idx = next(i for i, n in enumerate(orig) if n is node)
    t2 = copy.deepcopy(tree)
    n2 = list(ast.walk(t2))[idx]
    before = ast.unparse(n2)
    if kind == "cmp":
        n2.ops = [FLIP[type(n2.ops[0])]()]
    elif kind == "bool":
        n2.op = ast.Or() if isinstance(n2.op, ast.And) else ast.And()
    elif kind == "const":
        n2.value = n2.value + 1
    elif kind == "drop":
        n2.value = ast.Constant(value=None)
    elif kind == "loopexit":
        new = ast.Continue() if isinstance(n2, ast.Break) else ast.Break()
        for p in ast.walk(t2):
            for fname, val in ast.iter_fields(p):
                if isinstance(val, list) and n2 in val:
                    val[val.index(n2)] = ast.copy_location(new, n2)
        before = type(n2).__name__.lower()
        return ast.unparse(ast.fix_missing_locations(t2)), f"{before} -> {type(new).__name__.lower()}"
    elif kind == "swapargs":
        n2.args[0], n2.args[1] = n2.args[1], n2.args[0]
    after = ast.unparse(n2) if kind != "drop" else "<removed>"
    if before == after:
        return None
    return ast.unparse(ast.fix_missing_locations(t2)), f"{before[:70]} -> {after[:70]}"
