"""AST-computed mutants for the self-test: small edits inside a property's anchor functions.

Locators are qualified function names, never line numbers.  Each mutant is one edit; the mutated module is re-emitted with
ast.unparse (the checks work on the syntax tree, so formatting does not matter) and must still compile.
"""
from __future__ import annotations

import ast
import copy
from dataclasses import dataclass

from sa.anchors import ANCHORS, NEUTRAL_EXTRA  # noqa: E402,F401

FLIP = {ast.Lt: ast.LtE, ast.LtE: ast.Lt, ast.Gt: ast.GtE, ast.GtE: ast.Gt, ast.Eq: ast.NotEq, ast.NotEq: ast.Eq,
        ast.Is: ast.IsNot, ast.IsNot: ast.Is, ast.In: ast.NotIn, ast.NotIn: ast.In}


@dataclass
class Mutant:
    module: str          # dotted module name
    function: str        # qualified function name
    op: str
    detail: str
    source: str          # mutated module source


def _match(pattern: str, qual: str) -> bool:
    import fnmatch
    return fnmatch.fnmatchcase(qual, pattern)


def _functions(tree: ast.Module, modname: str):
    for n in tree.body:
        if isinstance(n, (ast.FunctionDef, ast.AsyncFunctionDef)):
            yield f"{modname}.{n.name}", n
        elif isinstance(n, ast.ClassDef):
            for k in n.body:
                if isinstance(k, (ast.FunctionDef, ast.AsyncFunctionDef)):
                    yield f"{modname}.{n.name}.{k.name}", k
        elif isinstance(n, ast.If):
            for k in n.body:
                if isinstance(k, ast.ClassDef):
                    for j in k.body:
                        if isinstance(j, (ast.FunctionDef, ast.AsyncFunctionDef)):
                            yield f"{modname}.{k.name}.{j.name}", j


def generate(prop: str, modules: dict[str, str], limit: int = 60, seed: int = 0) -> list[Mutant]:
    """modules: dotted name -> source text (of /repo's current tree)."""
    import random
    pats = ANCHORS.get(prop, [])
    out: list[Mutant] = []
    for modname, src in sorted(modules.items()):
        if not any(p.startswith(modname + ".") for p in pats):
            continue
        tree = ast.parse(src)
        sites = []
        for qual, fn in _functions(tree, modname):
            if not any(_match(p, qual) for p in pats):
                continue
            for node in ast.walk(fn):
                if isinstance(node, ast.Compare) and len(node.ops) == 1 and type(node.ops[0]) in FLIP:
                    sites.append((qual, "cmp", node))
                elif isinstance(node, ast.BoolOp):
                    sites.append((qual, "bool", node))
                elif isinstance(node, ast.Constant) and isinstance(node.value, int) and not isinstance(node.value, bool) and 0 <= node.value <= 0xFFFF:
                    sites.append((qual, "const", node))
                elif isinstance(node, ast.Expr) and isinstance(node.value, (ast.Call, ast.Await)) and "logger." not in ast.unparse(node):
                    sites.append((qual, "drop", node))
                elif isinstance(node, (ast.Break, ast.Continue)):
                    sites.append((qual, "loopexit", node))
                elif isinstance(node, ast.Call) and len(node.args) >= 2 and not any(isinstance(a, ast.Starred) for a in node.args[:2]) \
                        and ast.unparse(node.args[0]) != ast.unparse(node.args[1]) and not isinstance(node.args[0], ast.Constant):
                    sites.append((qual, "swapargs", node))
        rnd = random.Random(f"{prop}|{modname}|{seed}")
        rnd.shuffle(sites)
        for qual, kind, node in sites:
            if len(out) >= limit:
                break
            mutated = _apply(tree, node, kind)
            if mutated is None:
                continue
            msrc, detail = mutated
            try:
                compile(msrc, modname, "exec")
            except SyntaxError:
                continue
            out.append(Mutant(modname, qual, kind, detail, msrc))
    return out[:limit]


def _apply(tree: ast.Module, node: ast.AST, kind: str) -> tuple[str, str] | None:
    # locate the node's position in a deep copy by walking in parallel
    orig = list(ast.walk(tree))
    idx = next(i for i, n in enumerate(orig) if n is node)
    t2 = copy.deepcopy(tree)
    n2 = list(ast.walk(t2))[idx]
    before = ast.unparse(n2)
    if kind == "cmp":
        n2.ops = [FLIP[type(n2.ops[0])]()]
    elif kind == "bool":
        n2.op = ast.Or() if isinstance(n2.op, ast.And) else ast.And()
    elif kind == "const":
        n2.value = n2.value + 1
    elif kind == "drop":
        n2.value = ast.Constant(value=None)
    elif kind == "loopexit":
        new = ast.Continue() if isinstance(n2, ast.Break) else ast.Break()
        for p in ast.walk(t2):
            for fname, val in ast.iter_fields(p):
                if isinstance(val, list) and n2 in val:
                    val[val.index(n2)] = ast.copy_location(new, n2)
        before = type(n2).__name__.lower()
        return ast.unparse(ast.fix_missing_locations(t2)), f"{before} -> {type(new).__name__.lower()}"
    elif kind == "swapargs":
        n2.args[0], n2.args[1] = n2.args[1], n2.args[0]
    after = ast.unparse(n2) if kind != "drop" else "<removed>"
    if before == after:
        return None
    return ast.unparse(ast.fix_missing_locations(t2)), f"{before[:70]} -> {after[:70]}"
