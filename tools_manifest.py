#!/venv/bin/python
"""Regenerates MANIFEST.json from the table below (kept in one place so it is always schema-valid)."""
import json
from pathlib import Path

HERE = Path(__file__).resolve().parent
TITLES = {json.loads(l)["id"]: json.loads(l)["title"] for l in (HERE / "properties.jsonl").read_text().splitlines() if l.strip()}

# property -> (technique, claim text, note)   ; properties not listed here go to not_applicable
CLAIMS = json.loads((HERE / "claims.json").read_text())

KNOWN = json.loads((HERE / "known_findings.json").read_text())


def as_built(pid: str) -> tuple[str, str]:
    """(suffix for the claim text, suffix for the note) derived from the evidence file and the known-findings file."""
    ev = HERE / "evidence" / f"{pid}.json"
    text = ""
    if ev.exists():
        cov = json.loads(ev.read_text()).get("coverage", {})
        rules = sorted(cov.get("rules", {}), key=lambda r_: int(r_[1:]))
        if rules:
            text = (f" As built: rules {', '.join(rules)} (one-line statement of each rule in DESIGN.md 11.4 and in the evidence file; R0 is the call-site "
                    f"argument-binding rule shared by all properties), {cov.get('obligations', '?')} obligations on the current tree.")
    kn = [k for k in KNOWN.get("known", []) if k["property"] == pid]
    note = ""
    if kn:
        note = " Known findings printed as KNOWN-FINDING (exit 0): " + "; ".join(f"{k['rule']} {k['construct'].split('.')[-1]}" for k in kn) + "."
    nfix = sum(1 for f_ in KNOWN.get("fixed", []) if f"property={pid} " in f_)
    if nfix:
        note += f" {nfix} genuine defect(s) of this property were repaired in /repo by fix: commits (known_findings.json, DESIGN.md section 6)."
    return text, note


checks = []
na = []
for pid in sorted(TITLES):
    c = CLAIMS.get(pid)
    if not c or c.get("not_applicable"):
        na.append({"property_id": pid, "reason": (c or {}).get("reason", "static check not built yet (work in progress); no claim is made")})
        continue
    checks.append({
        "property_id": pid,
        "quick_cmd": f"./check {pid} --tier quick",
        "thorough_cmd": f"./check {pid} --tier thorough",
        "evidence_file": f"/verif/evidence/{pid}.json",
        "replay_cmd_template": f"./check {pid} --replay {{path}}",
        "engine": "sa",
        "level_claimed": {"category": "other", "text": c["text"] + as_built(pid)[0], "design_ref": f"DESIGN.md section 5 ({pid}) and section 11.4"},
        "level_note": c["note"] + as_built(pid)[1],
        "technique": c["technique"],
    })
man = {
    "version": 1,
    "setup_cmd": "/venv/bin/python -m compileall -q sa checks selftest check >/dev/null && echo setup-ok",
    "hooks": {
        "guard": "GALLIA_VERIF",
        "enable": "none: the analysis reads the source only; no hooks or instrumentation were added to gallia",
        "baseline_off_cmd": "cd /repo && /venv/bin/python -m pytest -ra -q -p no:cacheprovider --timeout=900 --continue-on-collection-errors tests/pytest",
        "source_commits": [],
        "add_only": True,
    },
    "engines": [{"name": "sa", "path": "/verif/sa", "serves_properties": [c["property_id"] for c in checks],
                 "kind_free_text": "repository-specific static analysers over Python ast: program model (C3 MRO, constant/enum folding), statement CFG with exception edges, call graph, byte-layout / bit-field / length domains, asyncio lock/queue wait-for analysis, embedded-SQL extraction"}],
    "checks": checks,
    "not_applicable": na,
    "notes": "Static analysis only. Every claimed property is decided clause-wise: the check decides the structural necessary conditions listed in DESIGN.md section 5 for that property and explicitly does not decide the behavioural remainder listed there under 'Not decided'. Exit 2 + ANALYSIS-ERROR means the analysis could not run soundly (vanished anchor, unknown idiom), never a violation.",
}
(HERE / "MANIFEST.json").write_text(json.dumps(man, indent=1) + "\n")
print(f"{len(checks)} checks, {len(na)} not_applicable")
