import asyncio
import json
import logging
import os
import sqlite3
import sys
import tempfile

from gallia.commands.scan.uds.sessions import SessionsScanner, SessionsScannerConfig
from gallia.services.uds.core import service
from gallia.services.uds.core.constants import UDSIsoServices
from gallia.services.uds.server import UDSServer, UnixUDSServerTransport
from gallia.transports import TargetURI

logging.disable(logging.CRITICAL + 10)


class GraphECU(UDSServer):
    """Virtual ECU (real gallia UDSServer logic) whose DiagnosticSessionControl sub-functions
    available in session s are exactly the successors of s in `graph`."""

    def __init__(self, graph):
        super().__init__()
        nodes = set(graph) | {t for v in graph.values() for t in v} | {1}
        self._services = {
            n: {
                UDSIsoServices.DiagnosticSessionControl: sorted(graph.get(n, ())),
                UDSIsoServices.TesterPresent: [0],
            }
            for n in nodes
        }
        self.log = []  # (session before, requested session, positive?)

    @property
    def supported_services(self):
        return self._services

    async def respond_after_default(self, request):
        return None

    async def respond(self, request):
        before = self.state.session
        resp = await super().respond(request)
        if isinstance(request, service.DiagnosticSessionControlRequest):
            positive = isinstance(resp, service.DiagnosticSessionControlResponse)
            self.log.append((before, request.diagnostic_session_type, positive))
        return resp


def reachable(graph, depth, skip=()):
    """Sessions that can be entered from default (1) by 1..depth session changes."""
    out, frontier = set(), {1}
    for _ in range(depth):
        frontier = {t for s in frontier for t in graph.get(s, ()) if t not in skip}
        out |= frontier
    return sorted(out)


async def scan(graph, depth, skip=(), thorough=False):
    tmp = tempfile.mkdtemp(prefix="c09_")
    sock = os.path.join(tmp, "ecu.sock")
    db = os.path.join(tmp, "db.sqlite")
    ecu = GraphECU(graph)
    st = UnixUDSServerTransport(ecu, TargetURI(f"unix-lines://{sock}"))
    srv = await asyncio.start_unix_server(st.handle_client, sock)
    config = SessionsScannerConfig(
        target=f"unix-lines://{sock}",
        depth=depth,
        skip=list(skip),
        thorough=thorough,
        dumpcap=False,
        db=db,
    )
    scanner = SessionsScanner(config)
    exit_code = await scanner.entry_point()
    srv.close()
    con = sqlite3.connect(db)
    rows = [(d, json.loads(s)) for d, s in con.execute("SELECT destination, steps FROM session_transition")]
    con.close()
    return exit_code, scanner.result, rows, ecu.log


async def main():
    # Two sessions, 1 <-> 2. The default session has no transition onto itself
    # (DiagnosticSessionControl(0x01) is answered negatively while the ECU is in 0x01).
    graph = {1: {2}, 2: {1}}
    bad = False
    for depth in (1, 2, 5):
        for thorough in (False, True):
            expected = reachable(graph, depth)
            code, result, rows, log = await scan(graph, depth, thorough=thorough)
            ok = code == 0 and sorted(result) == expected and sorted(d for d, _ in rows) == expected
            print(
                f"graph={graph} depth={depth} thorough={thorough}: exit={code} result={result} "
                f"db_rows={rows} expected_sessions={expected} ecu_saw={log} -> {'ok' if ok else 'VIOLATION'}"
            )
            bad |= not ok
    if bad:
        print(
            "VIOLATION: the scan aborts (exit 1, nothing reported) because _recover_stack requests the "
            "default session while the ECU already is in it and treats the NRC as fatal; session 0x02 is "
            "reachable with one change and never even requested."
        )
        sys.exit(1)
    sys.exit(0)


asyncio.run(main())
