"""C12 finding 4: a scan result whose INSERT hits a locked database is re-queued BEHIND the
results that were logged after it (DBHandler._executor_func).  The rows then get ids in a
different order than the requests were made, and since the database backed virtual ECU
replays repeated requests in id order, it answers the recorded sequence with the replies
swapped.

The lock is a real one: a second sqlite connection (think: a parallel gallia run writing
into the same database file, which the WAL setup explicitly caters for) holds the write
lock for longer than the handler's busy_timeout (10 s).  No mocking is involved.
Runtime ~11 s.
"""

import asyncio
import logging
import sqlite3
import sys
import tempfile
from pathlib import Path

import gallia.command  # noqa: F401  (resolves the circular import of gallia.db.handler)
from gallia.db.handler import DBHandler
from gallia.services.uds.core import service
from gallia.services.uds.ecu import ECU
from gallia.services.uds.server import DBUDSServer, UDSServerTransport
from gallia.transports import TargetURI

H = bytes.fromhex


class FakeTransport:
    """In-memory transport in front of a scripted ECU."""

    def __init__(self, replies):
        self.replies = iter(replies)

    async def request_unsafe(self, data, timeout=None, tags=None):
        reply = next(self.replies)
        if reply is None:
            raise TimeoutError("no reply")
        return reply

    async def read(self, timeout=None, tags=None):
        raise TimeoutError

    async def write(self, data, timeout=None, tags=None):
        return len(data)

    async def reconnect(self, timeout=None):
        return self


class Waiter(logging.Handler):
    def __init__(self):
        super().__init__()
        self.seen = asyncio.Event()

    def emit(self, record):
        if "Could not log message" in record.getMessage():
            self.seen.set()


async def main() -> int:
    db = Path(tempfile.mkdtemp()) / "rec.db"

    # the history: the same read twice, the ECU's answer changes (e.g. a counter)
    history = [(H("220100"), H("62010001")), (H("220100"), H("62010002"))]

    handler = DBHandler(db)
    await handler.connect()
    await handler.connection.execute(
        "INSERT INTO run_meta(script, config, start_time, start_timezone) VALUES ('x', '{}', 0, 'UTC')"
    )
    handler.meta = 1
    await handler.insert_scan_run("tcp://ecu")

    waiter = Waiter()
    logging.getLogger("gallia.db.handler").addHandler(waiter)
    logging.getLogger("gallia").setLevel(logging.DEBUG)

    # a second writer takes the write lock
    other = sqlite3.connect(db, isolation_level=None, check_same_thread=False)
    other.execute("BEGIN IMMEDIATE")

    ecu = ECU(FakeTransport([r for _, r in history]), timeout=0.1)
    ecu.db_handler = handler
    for request, _ in history:
        await ecu.request(service.UDSRequest.parse_dynamic(request))

    # ... and keeps it until the handler gave up on the first row (busy_timeout = 10 s)
    await asyncio.wait_for(waiter.seen.wait(), 40)
    other.execute("COMMIT")
    other.close()
    await handler.disconnect()

    con = sqlite3.connect(db)
    rows = con.execute(
        "SELECT id, request_pdu, response_pdu, request_time FROM scan_result ORDER BY id"
    ).fetchall()
    con.close()
    print("rows in the database (id, request, reply, request_time):")
    for row in rows:
        print("   ", row)

    server = DBUDSServer(db, None, None)
    await server.setup()
    transport = UDSServerTransport(server, TargetURI("tcp://127.0.0.1:1"))
    got = [(await transport.handle_request(request))[0] for request, _ in history]
    await server.teardown()

    expected = [reply for _, reply in history]
    print("recorded history :", [(q.hex(), r.hex()) for q, r in history])
    print("replayed replies :", [g.hex() if g is not None else None for g in got])

    if got != expected:
        print("VIOLATION: the virtual ECU answers the recorded sequence in a different order")
        return 1
    print("ok")
    return 0


if __name__ == "__main__":
    sys.exit(asyncio.run(main()))
