"""C12 finding 2: a row without a reply makes the replaying server fall back to the default
state (DBUDSServer.respond_after_default: "Reset ECU due to missing response"), while the
recording client (ECU._request / ECU.update_state) keeps its state after a timeout.  Every
request that follows an unanswered one in a non-default session was logged under the
non-default state, is looked up under the default state and is therefore answered with
silence instead of the recorded reply.

History (extended session, one identifier the ECU does not answer, then go on):
    10 03        -> 50 03 00 32 01 f4
    22 20 00     -> (no reply, timeout)
    22 f1 90     -> 62 f1 90 56 49 4e     (logged with session 3)
    2e 10 00 aa  -> 6e 10 00              (logged with session 3)
"""

import asyncio
import logging
import sqlite3
import sys
import tempfile
from pathlib import Path

import gallia.command  # noqa: F401  (resolves the circular import of gallia.db.handler)
from gallia.db.handler import DBHandler
from gallia.services.uds.core import service
from gallia.services.uds.core.exception import UDSException
from gallia.services.uds.ecu import ECU
from gallia.services.uds.server import DBUDSServer, UDSServerTransport
from gallia.transports import TargetURI

H = bytes.fromhex


class FakeTransport:
    """In-memory transport in front of a scripted ECU."""

    def __init__(self, replies):
        self.replies = iter(replies)

    async def request_unsafe(self, data, timeout=None, tags=None):
        reply = next(self.replies)
        if reply is None:
            raise TimeoutError("no reply")
        return reply

    async def read(self, timeout=None, tags=None):
        raise TimeoutError

    async def write(self, data, timeout=None, tags=None):
        return len(data)

    async def reconnect(self, timeout=None):
        return self


async def record(db: Path, history) -> None:
    handler = DBHandler(db)
    await handler.connect()
    await handler.connection.execute(
        "INSERT INTO run_meta(script, config, start_time, start_timezone) VALUES ('x', '{}', 0, 'UTC')"
    )
    handler.meta = 1
    await handler.insert_scan_run("tcp://ecu")
    ecu = ECU(FakeTransport([r for _, r in history]), timeout=0.05)
    ecu.db_handler = handler
    for request, _ in history:
        try:
            await ecu.request(service.UDSRequest.parse_dynamic(request))
        except UDSException:
            pass
    await handler.disconnect()


async def replay(db: Path, requests):
    server = DBUDSServer(db, None, None)
    await server.setup()
    transport = UDSServerTransport(server, TargetURI("tcp://127.0.0.1:1"))
    got = [(await transport.handle_request(request))[0] for request in requests]
    await server.teardown()
    return got


async def main() -> int:
    logging.disable(logging.CRITICAL)
    db = Path(tempfile.mkdtemp()) / "rec.db"
    history = [
        (H("1003"), H("5003003201f4")),
        (H("222000"), None),
        (H("22f190"), H("62f19056494e")),
        (H("2e1000aa"), H("6e1000")),
    ]
    await record(db, history)

    con = sqlite3.connect(db)
    rows = con.execute(
        "SELECT id, state, request_pdu, response_pdu FROM scan_result ORDER BY id"
    ).fetchall()
    con.close()
    print("rows in the database (id, logged state, request, reply):")
    for row in rows:
        print("   ", row)

    requests = [H(row[2]) for row in rows]
    expected = [H(row[3]) if row[3] is not None else None for row in rows]
    got = await replay(db, requests)

    bad = False
    for request, exp, g in zip(requests, expected, got):
        mark = "" if exp == g else "   <-- differs"
        bad |= exp != g
        print(
            f"  {request.hex():10} recorded {exp.hex() if exp else None!s:16} "
            f"replayed {g.hex() if g else None!s:16}{mark}"
        )
    if bad:
        print("VIOLATION: the virtual ECU does not replay the recorded replies")
        return 1
    print("ok")
    return 0


if __name__ == "__main__":
    sys.exit(asyncio.run(main()))
