"""C12 finding 3: selecting the recording by a dict valued ECU property only works if the
caller happens to spell the dict with sorted keys.  ECUProperties.to_json stores the
properties with sort_keys=True, DBUDSServer.respond_after_default compares
json_extract(properties_pre, '$.key') with json.dumps(value, separators=(",", ":")) WITHOUT
sort_keys, so {"hw": 2, "bootloader": 7} (the same property set) selects nothing and the
virtual ECU is silent for the whole recorded sequence.
"""

import asyncio
import dataclasses
import logging
import sqlite3
import sys
import tempfile
from pathlib import Path

import gallia.command  # noqa: F401  (resolves the circular import of gallia.db.handler)
from gallia.db.handler import DBHandler
from gallia.services.uds.core import service
from gallia.services.uds.core.exception import UDSException
from gallia.services.uds.ecu import ECU, ECUProperties
from gallia.services.uds.server import DBUDSServer, UDSServerTransport
from gallia.transports import TargetURI

H = bytes.fromhex


class FakeTransport:
    """In-memory transport in front of a scripted ECU."""

    def __init__(self, replies):
        self.replies = iter(replies)

    async def request_unsafe(self, data, timeout=None, tags=None):
        reply = next(self.replies)
        if reply is None:
            raise TimeoutError("no reply")
        return reply

    async def read(self, timeout=None, tags=None):
        raise TimeoutError

    async def write(self, data, timeout=None, tags=None):
        return len(data)

    async def reconnect(self, timeout=None):
        return self


async def record(db: Path, history, properties=None) -> None:
    handler = DBHandler(db)
    await handler.connect()
    await handler.connection.execute(
        "INSERT INTO run_meta(script, config, start_time, start_timezone) VALUES ('x', '{}', 0, 'UTC')"
    )
    handler.meta = (await (await handler.connection.execute('SELECT max(id) FROM run_meta')).fetchone())[0]
    await handler.insert_scan_run("tcp://ecu")
    if properties is not None:
        await handler.insert_scan_run_properties_pre(properties)
    ecu = ECU(FakeTransport([r for _, r in history]), timeout=0.05)
    ecu.db_handler = handler
    for request, _ in history:
        try:
            await ecu.request(service.UDSRequest.parse_dynamic(request))
        except UDSException:
            pass
    await handler.disconnect()


async def replay(db: Path, requests, properties=None):
    server = DBUDSServer(db, None, properties)
    await server.setup()
    transport = UDSServerTransport(server, TargetURI("tcp://127.0.0.1:1"))
    got = [(await transport.handle_request(request))[0] for request in requests]
    await server.teardown()
    return got


@dataclasses.dataclass
class Properties(ECUProperties):
    name: str = ""
    versions: dict = dataclasses.field(default_factory=dict)


async def main() -> int:
    logging.disable(logging.CRITICAL)
    db = Path(tempfile.mkdtemp()) / "rec.db"
    history_old = [(H("22f190"), H("62f1904f4c44")), (H("1003"), H("7f1022"))]
    history_new = [(H("22f190"), H("62f1904e4557")), (H("1003"), H("5003003201f4"))]
    # two runs against the same ECU before / after a software update
    await record(db, history_old, Properties("gw", {"hw": 2, "bootloader": 6}))
    await record(db, history_new, Properties("gw", {"hw": 2, "bootloader": 7}))

    con = sqlite3.connect(db)
    print("scan_run.properties_pre:")
    for row in con.execute("SELECT id, properties_pre FROM scan_run ORDER BY id"):
        print("   ", row)
    con.close()

    requests = [q for q, _ in history_new]
    expected = [r for _, r in history_new]
    bad = False
    for versions in ({"bootloader": 7, "hw": 2}, {"hw": 2, "bootloader": 7}):
        selector = {"name": "gw", "versions": versions}
        got = await replay(db, requests, selector)
        ok = got == expected
        bad |= not ok
        print(f"selected by {selector}:")
        print("    recorded", [r.hex() for r in expected])
        print("    replayed", [g.hex() if g else None for g in got], "" if ok else "  <-- differs")
    if bad:
        print("VIOLATION: the same property set, written in another key order, selects nothing")
        return 1
    print("ok")
    return 0


if __name__ == "__main__":
    sys.exit(asyncio.run(main()))
