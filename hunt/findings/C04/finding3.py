import asyncio, logging, sys
from gallia.services.uds.core import client as cl, service
from gallia.services.uds.core.client import UDSClient, UDSRequestConfig
from gallia.services.uds.core.exception import MissingResponse
from gallia.transports.base import BaseTransport, TargetURI

logging.disable(logging.CRITICAL)


class Clock:
    t = 0.0


async def _fake_sleep(d, *a):  # virtual time: backoff sleeps cost no wall time
    Clock.t += d


asyncio.sleep = _fake_sleep

REQ = service.ReadDataByIdentifierRequest(0x1234)
EV = {
    "T": TimeoutError(),                 # read timeout
    "C": ConnectionResetError("rst"),    # connection error
    "E": b"",                            # empty read
    "B": bytes([0x7F, 0x22, 0x21]),      # busyRepeatRequest
    "P": bytes([0x7F, 0x22, 0x78]),      # responsePending
    "N": bytes([0x7F, 0x22, 0x31]),      # negative final
    "F": bytes([0x62, 0x12, 0x34, 0xAA]),  # positive final, matches REQ
}


class FakeTransport(BaseTransport, scheme="fake"):
    """In-memory transport: every read() consumes one scripted event; silence afterwards."""

    def __init__(self, script):
        super().__init__(TargetURI("fake://x"))
        self.script = list(script)
        self.log = []

    @classmethod
    async def connect(cls, target, timeout=None):
        raise NotImplementedError

    async def close(self):
        pass

    async def reconnect(self, timeout=None):
        self.log.append("R")
        return self

    async def write(self, data, timeout=None, tags=None):
        self.log.append("W")
        return len(data)

    async def read(self, timeout=None, tags=None):
        ev = self.script.pop(0) if self.script else "T"
        self.log.append(ev)
        v = EV[ev]
        if isinstance(v, TimeoutError):
            Clock.t += timeout or 0
            raise TimeoutError()
        if isinstance(v, Exception):
            raise v
        return v


def run(script, max_retry):
    async def go():
        Clock.t = 0.0
        t = FakeTransport(script)
        c = UDSClient(t, timeout=1.0, max_retry=max_retry)
        try:
            r = await c.request(REQ)
            out = ("returned", r.pdu.hex())
        except Exception as e:
            out = ("raised", type(e).__name__, type(e.__cause__).__name__ if e.__cause__ else None)
        return out, "".join(t.log), [x for x in t.script]

    return asyncio.run(go())


def compact(log):
    import re
    return re.sub(r"(.)\1{4,}", lambda m: f"{m.group(1)}*{len(m.group())}", log)

# C04 finding 3: busyRepeatRequest that arrives after a responsePending is returned to the caller
# as if it were final although retries remain; the same reply as first reply is retried.
fail = False
FINAL = EV["F"].hex()
for script, mr in (("BF", 2), ("BBF", 3)):
    out, log, rest = run(script, mr)
    print(f"control script={script!r:6} max_retry={mr}:", out, log)
    if out != ("returned", FINAL):
        fail = True
for script, mr in (("PBF", 2), ("PBF", 1), ("PPBF", 3), ("TPBF", 2)):
    out, log, rest = run(script, mr)
    print(f"pending script={script!r:6} max_retry={mr}:", out, log, "writes:", log.count("W"), "unread:", rest)
    if out != ("returned", FINAL):
        print("  VIOLATION: busyRepeatRequest is a retry-worthy event and", mr + 1 - log.count("W"),
              "transmissions were still allowed; expected retransmission and the final reply", FINAL)
        fail = True
sys.exit(1 if fail else 0)
