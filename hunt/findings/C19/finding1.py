"""C19: the virtual ECU's line server loop executes a truncated request when the stream ends in mid-line.

TCPUDSServerTransport.handle_client (also used by UnixUDSServerTransport) only treats an EMPTY
readline() result as end-of-stream.  StreamReader.readline() returns the unterminated rest of the
buffer at EOF, so a request whose line was only partially delivered before the peer went away is
unhexlified and handed to handle_request() as if it were a complete message.  The client side
(LinesTransportMixin.read) explicitly refuses such a line; the server sibling does not.
"""

import asyncio
import contextlib
import io
import sys
from binascii import hexlify

from gallia.services.uds.server import TCPUDSServerTransport
from gallia.transports import TargetURI


class FakeWriter:
    def __init__(self) -> None:
        self.buf = bytearray()

    def write(self, d: bytes) -> None:
        self.buf += d

    async def drain(self) -> None:
        await asyncio.sleep(0)

    def close(self) -> None:
        pass

    async def wait_closed(self) -> None:
        pass


class Recorder(TCPUDSServerTransport):
    """Only the observation point is replaced: what the server loop delivers as 'a message'."""

    def __init__(self) -> None:
        super().__init__(None, TargetURI("tcp-lines://127.0.0.1:1"))  # type: ignore[arg-type]
        self.got: list[bytes] = []

    async def handle_request(self, request_pdu: bytes):  # type: ignore[override]
        self.got.append(request_pdu)
        return b"\x7f" + request_pdu[:1] + b"\x10", 0.001


async def run(prefix: bytes) -> tuple[list[bytes], bytes]:
    reader = asyncio.StreamReader()
    writer = FakeWriter()
    srv = Recorder()
    task = asyncio.ensure_future(srv.handle_client(reader, writer))  # type: ignore[arg-type]
    reader.feed_data(prefix)
    for _ in range(5):
        await asyncio.sleep(0)
    reader.feed_eof()  # the peer died / closed before finishing the line
    with contextlib.redirect_stderr(io.StringIO()):
        try:
            await asyncio.wait_for(task, 5)
        except ZeroDivisionError:
            pass  # unrelated: average over zero response times
    return srv.got, bytes(writer.buf)


async def main() -> int:
    # message 1: DiagnosticSessionControl; message 2: WriteDataByIdentifier F190 with 4 data bytes
    msgs = [b"\x10\x03", b"\x2e\xf1\x90\x11\x22\x33\x44"]
    stream = b"".join(hexlify(m) + b"\n" for m in msgs)

    violations = []
    for cut in range(len(stream) + 1):
        prefix = stream[:cut]
        complete = msgs[: prefix.count(b"\n")]
        got, replies = await run(prefix)
        if got != complete:
            violations.append((cut, prefix, got, replies))

    for cut, prefix, got, replies in violations:
        print(
            f"stream cut after {cut:2d} bytes {prefix!r}: server loop delivered "
            f"{[g.hex() for g in got]} and replied {replies!r}"
        )
    if violations:
        print(
            f"\nVIOLATION: in {len(violations)} of {len(stream) + 1} cut points a message that was never "
            "completely sent (e.g. '2ef1901122' instead of '2ef19011223344') was delivered to and "
            "answered by the ECU; end-of-stream was not distinguished from a message."
        )
        return 1
    print("ok: only completely received lines were delivered")
    return 0


sys.exit(asyncio.run(main()))
