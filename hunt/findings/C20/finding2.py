"""C20 finding 2: unravel_2d()/Ranges2D silently give a *different* denotation to whitespace variants.

'0x01:0xf3' means {1: [0xf3]} (skip service 0xf3 in session 1).  With a blank after the colon -
'0x01: 0xf3' - the expression is accepted without any error but denotes
{1: [], 0xf3: None}: nothing is skipped in session 1 and the *whole* session 0xf3 is skipped.
The reason is that unravel_2d() splits on ' ' first and then accepts the halves '0x01:' (outer key
with an empty inner list) and '0xf3' (bare outer key = all); it equally accepts ':1' and ':'.

A whitespace variant must either denote the same mapping as the compact spelling or be rejected;
silently denoting something else violates "denotes exactly what the user wrote".
Exit status 1 if a variant is accepted with a different denotation.
"""

import sys

from pydantic import TypeAdapter

from gallia.command.config import Ranges2D
from gallia.utils import unravel_2d

R2 = TypeAdapter(Ranges2D)

# (compact spelling, whitespace variants of it)
CASES = [
    ("0x01:0xf3", ["0x01: 0xf3", "0x01 :0xf3", "0x01 : 0xf3"]),
    ("7:1,3-5", ["7: 1,3-5", "7 :1,3-5"]),
    ("0x3e 7:1,3-5", ["0x3e 7: 1,3-5"]),
    ("1-3:0,2-4", ["1-3: 0,2-4"]),
]

PARSERS = {
    "unravel_2d(str)": unravel_2d,
    "Ranges2D(str)  [config file / env]": R2.validate_python,
    "Ranges2D(list) [CLI nargs]": lambda s: R2.validate_python(s.split(" ")),
}


def main() -> int:
    bad = 0
    for compact, variants in CASES:
        want = unravel_2d(compact)
        for variant in variants:
            for name, parser in PARSERS.items():
                try:
                    got = parser(variant)
                except Exception as e:
                    print(f"ok   {name:36} {variant!r}: rejected ({type(e).__name__})")
                    continue
                if got == want:
                    print(f"ok   {name:36} {variant!r}: same as {compact!r}")
                    continue
                bad += 1
                print(f"VIOLATION {name:31} {variant!r} accepted silently")
                print(f"       denotes {got}")
                print(f"       but {compact!r} denotes {want}")

    # the ill-formed halves are accepted on their own as well
    for frag, why in [("7:", "outer key without inner list"), (":1", "inner list without outer key")]:
        try:
            got = unravel_2d(frag)
        except ValueError:
            continue
        bad += 1
        print(f"VIOLATION unravel_2d({frag!r}) ({why}) accepted silently -> {got}")

    if bad:
        print(f"{bad} violations")
        return 1
    print("OK")
    return 0


if __name__ == "__main__":
    sys.exit(main())
