"""C20 finding 4: the host of a target URI is silently lower-cased (TargetURI.hostname, split_host_port).

TargetURI.hostname returns urllib's `hostname`, which lower-cases the host.  For the isotp and
can-raw schemes the host IS the Linux network interface name, and those are case sensitive
('VCAN0' and 'vcan0' are two different interfaces).  Consequences shown below with the real code:

 a) TargetURI(str(TargetURI.from_parts(scheme, host, port, args))).hostname != host
 b) ISOTPTransport.connect('isotp://VCAN0?...') and RawCANTransport.connect('can-raw://VCAN0')
    bind the socket to 'vcan0' (socket creation is replaced by a recording fake, nothing else)
 c) the isotp discovery scanner builds the URIs it emits from `self.config.target.hostname`, so a
    scan on can-raw://VCAN0 emits isotp://vcan0?... targets
 d) split_host_port(join_host_port(h, p)) != (h, p) for the same hosts

Exit status 1 if a host does not come back exactly as written.
"""

import asyncio
import socket
import sys

import gallia.transports.can as can_mod
import gallia.transports.isotp as isotp_mod
from gallia.net import join_host_port, split_host_port
from gallia.transports.base import TargetURI

HOSTS = ["vcan0", "VCAN0", "canFD1", "ECU-Gateway.local", "ecu.local", "192.0.2.1", "fe80::1"]
PORTS = [None, 6801]


class FakeSock:
    bound: list[tuple] = []

    def setblocking(self, flag: bool) -> None:
        pass

    def setsockopt(self, *args: object) -> None:
        pass

    def bind(self, addr: tuple) -> None:
        FakeSock.bound.append(addr)

    def close(self) -> None:
        pass


class FakeSocketModule:
    """The socket module with only socket() replaced (there is no CAN support in the sandbox)."""

    def __getattr__(self, name: str) -> object:
        return getattr(socket, name)

    def socket(self, *args: object) -> FakeSock:
        return FakeSock()


async def bound_interface(connect, uri: str) -> str:  # type: ignore[no-untyped-def]
    FakeSock.bound.clear()
    tr = await connect(uri)
    await tr.close()
    return FakeSock.bound[0][0]


def main() -> int:
    bad = 0

    # a) + d)
    for host in HOSTS:
        for port in PORTS:
            uri = TargetURI.from_parts("isotp", host, port, {"src_addr": "0x6f1", "dst_addr": "0x7e8"})
            back = TargetURI(str(uri))
            if back.hostname != host or back.port != port:
                bad += 1
                print(f"VIOLATION from_parts host={host!r} port={port}: {uri} parses back to host={back.hostname!r} port={back.port}")
            if port is not None:
                joined = join_host_port(host, port)
                if split_host_port(joined) != (host, port):
                    bad += 1
                    print(f"VIOLATION split_host_port({joined!r}) -> {split_host_port(joined)}")

    # b) what the transports really bind to
    isotp_mod.s = FakeSocketModule()  # type: ignore[assignment]
    can_mod.s = FakeSocketModule()  # type: ignore[assignment]
    for connect, uri in [
        (isotp_mod.ISOTPTransport.connect, "isotp://VCAN0?src_addr=0x6f1&dst_addr=0x7e8"),
        (can_mod.RawCANTransport.connect, "can-raw://VCAN0?is_fd=false"),
    ]:
        iface = asyncio.run(bound_interface(connect, uri))
        if iface != "VCAN0":
            bad += 1
            print(f"VIOLATION connect({uri!r}) binds the CAN socket to interface {iface!r} instead of 'VCAN0'")

    # c) what the isotp discovery scanner emits (gallia/commands/discover/uds/isotp.py:182-187)
    scan_target = TargetURI("can-raw://VCAN0?is_fd=false")
    emitted = TargetURI.from_parts("isotp", scan_target.hostname or "", None, {"src_addr": hex(0x6F1), "dst_addr": hex(0x7E8)})
    if "VCAN0" not in str(emitted):
        bad += 1
        print(f"VIOLATION discovery on {scan_target} emits {emitted}")

    if bad:
        print(f"{bad} violations")
        return 1
    print("OK")
    return 0


if __name__ == "__main__":
    sys.exit(main())
