"""C20 finding 1: integer transport settings without the base-0 validator reject hex/octal/binary.

For every transport config (HSFZ, ISO-TP, DoIP) and every *integer* setting of it a target URI is
built with TargetURI.from_parts(), parsed back with TargetURI(str(...)) and handed to the
transport's Config(**uri.qs_flat) - exactly what Transport.connect() does.  The property demands
that the value is accepted with the same numeric setting in decimal, hex, octal and binary.

Exit status 1 if any (setting, spelling) pair is rejected or yields another number.
"""

import sys

from gallia.transports.base import TargetURI
from gallia.transports.doip import DoIPConfig
from gallia.transports.hsfz import HSFZConfig
from gallia.transports.isotp import ISOTPConfig

CONFIGS = {
    "hsfz": (
        HSFZConfig,
        {"src_addr": 0xF4, "dst_addr": 0x10},
        ["src_addr", "dst_addr", "ack_timeout"],
    ),
    "isotp": (
        ISOTPConfig,
        {"src_addr": 0x6F1, "dst_addr": 0x7E8},
        [
            "src_addr",
            "dst_addr",
            "frame_txtime",
            "ext_address",
            "rx_ext_address",
            "tx_padding",
            "rx_padding",
            "tx_dl",
        ],
    ),
    "doip": (
        DoIPConfig,
        {"src_addr": 0xE00, "target_addr": 0x1D},
        ["src_addr", "target_addr", "activation_type", "protocol_version"],
    ),
}

VALUES = [0, 1, 8, 10, 16, 64, 255]


def spellings(n: int) -> dict[str, str]:
    return {"dec": str(n), "hex": hex(n), "oct": oct(n), "bin": bin(n)}


def main() -> int:
    failures: dict[tuple[str, str, str], list[str]] = {}
    checked = 0
    for scheme, (config_cls, required, int_fields) in CONFIGS.items():
        for field in int_fields:
            for n in VALUES:
                for kind, text in spellings(n).items():
                    args = {k: hex(v) for k, v in required.items()}
                    args[field] = text
                    host, port = ("can0", None) if scheme == "isotp" else ("192.0.2.1", 1234)
                    uri = TargetURI(str(TargetURI.from_parts(scheme, host, port, args)))
                    assert uri.qs_flat[field] == text
                    checked += 1
                    try:
                        got = getattr(config_cls(**uri.qs_flat), field)
                    except Exception as e:  # pydantic.ValidationError
                        msg = str(e).splitlines()[2].strip() if len(str(e).splitlines()) > 2 else repr(e)
                        failures.setdefault((scheme, field, kind), []).append(f"{uri} -> REJECTED: {msg}")
                        continue
                    if got != n:
                        failures.setdefault((scheme, field, kind), []).append(f"{uri} -> {got} != {n}")

    print(f"checked {checked} (scheme, setting, value, spelling) combinations")
    if not failures:
        print("OK: every integer setting accepts decimal, hex, octal and binary")
        return 0

    for (scheme, field, kind), msgs in sorted(failures.items()):
        print(f"VIOLATION {scheme}.{field} [{kind}]: {len(msgs)} values fail, e.g.")
        print(f"    {msgs[-1]}")
    # Show the sibling disagreement inside one and the same URI
    same = "hsfz://192.0.2.1:6801?src_addr=0xf4&dst_addr=0x10&ack_timeout=0x3e8"
    try:
        HSFZConfig(**TargetURI(same).qs_flat)
    except Exception as e:
        print(f"e.g. {same}\n    src_addr=0xf4 is fine but ack_timeout=0x3e8 raises {type(e).__name__}")
    return 1


if __name__ == "__main__":
    sys.exit(main())
