"""C20 finding 3: the Ranges field type rejects whitespace variants that unravel() itself accepts.

unravel() tolerates blanks around ',' and '-' ('1, 2' -> [1, 2], '0x10 - 0x12' -> [16, 17, 18])
because int(x, 0) strips whitespace.  The field type every scanner option (--sessions, --skip,
--tcp-ports ...) really goes through, command/config._process_ranges, first re-joins the
whitespace separated words with ',' :

    '1, 2'        -> '1,,2'          -> ValueError (empty element)
    '0x10 - 0x12' -> '0x10,-,0x12'   -> ValueError

So `--sessions 1, 2, 3` on the CLI (argv ['1,', '2,', '3']) or `sessions = "1, 2, 3"` in the config
file / GALLIA_SESSIONS are refused although the very same text is a valid range expression for
unravel(); the two sibling entry points of the one grammar disagree.

Exit status 1 if Ranges does not denote what unravel() denotes for an expression unravel() accepts.
"""

import sys

from pydantic import TypeAdapter

from gallia.command.config import Ranges
from gallia.utils import unravel

R = TypeAdapter(Ranges)

EXPRESSIONS = [
    "1,2,3",
    " 1,2,3 ",
    "1, 2, 3",
    "1 ,2 ,3",
    "0x10-0x12, 0x3e",
    "0x10 - 0x12",
    "0x10- 0x12",
    "0x10 -0x12,0x3e",
    "0b1, 0o7 - 0xa",
]


def main() -> int:
    bad = 0
    for expr in EXPRESSIONS:
        want = unravel(expr)  # all of these are accepted by unravel()
        routes = {
            "Ranges(str)  [config/env]": lambda e=expr: R.validate_python(e),
            "Ranges(list) [CLI argv]  ": lambda e=expr: R.validate_python(e.split()),
        }
        for name, f in routes.items():
            try:
                got = f()
            except Exception as e:
                bad += 1
                msg = str(e).splitlines()[1].strip()
                print(f"VIOLATION {name} {expr!r}: unravel() -> {want}, but rejected: {msg}")
                continue
            if got != want:
                bad += 1
                print(f"VIOLATION {name} {expr!r}: unravel() -> {want}, but -> {got}")
            else:
                print(f"ok        {name} {expr!r} -> {got}")
    if bad:
        print(f"{bad} violations")
        return 1
    print("OK")
    return 0


if __name__ == "__main__":
    sys.exit(main())
