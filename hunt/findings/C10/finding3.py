#!/usr/bin/env python3
"""C10 finding 3: ScanIdentifiers.main does not survive an unanswered session change.

ServicesScanner.main wraps ecu.set_session() in `except (UDSException, RuntimeError)` and skips a session that
cannot be entered.  The sibling ScanIdentifiers.main calls `await self.ecu.set_session(session)` unprotected.
If the ECU model does not answer DiagnosticSessionControl for a session it does not have (a timeout instead of
a negative response), the MissingResponse escapes main(): all remaining requested sessions are never scanned
and no tally is produced for them.

ECU model (byte level, in-memory transport, deterministic):
  sessions 1 and 3; a DiagnosticSessionControl request for any other session is silently ignored.
  ReadDataByIdentifier in both sessions; in session 3 the DIDs 0x0001, 0x0003, 0x000A are readable.
Scan: identifiers, service 0x22, sessions [2, 3], range 0x0000-0x0010.

Property: the identifier scan counts as positive exactly the identifiers for which the ECU returns a positive
response -> session 3 must be probed (17 requests) and report 3 positive replies.
"""

import asyncio
import logging
import sys

from gallia.commands.scan.uds.identifiers import ScanIdentifiers, ScanIdentifiersConfig
from gallia.services.uds.ecu import ECU
from gallia.transports.base import BaseTransport, TargetURI

SESSION3_DIDS = {0x0001, 0x0003, 0x000A}


class Model:
    def __init__(self) -> None:
        self.session = 1
        self.log: list[tuple[int, bytes]] = []

    def handle(self, pdu: bytes) -> bytes | None:
        s = self.session
        self.log.append((s, bytes(pdu)))
        sid = pdu[0]
        if sid == 0x3E:
            return b"\x7e\x00"
        if sid == 0x11:
            if pdu[1:] == b"\x01":
                self.session = 1
                return b"\x51\x01"
            return b"\x7f\x11\x12"
        if sid == 0x10:
            if len(pdu) == 2 and pdu[1] in (1, 3):
                self.session = pdu[1]
                return bytes([0x50, pdu[1], 0x00, 0x32, 0x01, 0xF4])
            return None  # unknown session: no answer at all
        if sid == 0x22:
            if len(pdu) != 3:
                return b"\x7f\x22\x13"
            did = pdu[1] << 8 | pdu[2]
            if did == 0xF186:
                return b"\x62\xf1\x86" + bytes([s])
            if s == 3 and did in SESSION3_DIDS:
                return b"\x62" + pdu[1:3] + b"\xaa\xbb"
            return b"\x7f\x22\x31"
        return bytes([0x7F, sid, 0x11])


class MemTransport(BaseTransport, scheme="mem-c10-3"):
    def __init__(self, model: Model) -> None:
        super().__init__(TargetURI("mem-c10-3://ecu"))
        self.model = model
        self.pending: bytes | None = None

    @classmethod
    async def connect(cls, target, timeout=None):  # type: ignore[no-untyped-def]
        raise ConnectionError("not used")

    async def close(self) -> None:
        pass

    async def reconnect(self, timeout=None):  # type: ignore[no-untyped-def]
        return self

    async def write(self, data, timeout=None, tags=None):  # type: ignore[no-untyped-def]
        self.pending = self.model.handle(data)
        return len(data)

    async def read(self, timeout=None, tags=None):  # type: ignore[no-untyped-def]
        if self.pending is None:
            raise asyncio.TimeoutError
        p, self.pending = self.pending, None
        return p


class Capture(logging.Handler):
    def __init__(self) -> None:
        super().__init__()
        self.results: list[str] = []

    def emit(self, record: logging.LogRecord) -> None:
        if "result" in getattr(record, "tags", []) or record.levelno >= logging.WARNING:
            self.results.append(record.getMessage())


async def main() -> int:
    cap = Capture()
    root = logging.getLogger("gallia")
    root.setLevel(logging.INFO)
    root.propagate = False
    root.addHandler(cap)

    model = Model()
    config = ScanIdentifiersConfig(
        target="mem-c10-3://ecu", sessions=[2, 3], service=0x22, start=0x0000, end=0x0010
    )
    scanner = ScanIdentifiers(config)
    scanner.ecu = ECU(MemTransport(model), timeout=0.1, max_retry=0)

    escaped: BaseException | None = None
    try:
        await scanner.main()
    except SystemExit as e:
        print("scanner exit code:", e.code)
    except Exception as e:  # noqa: BLE001
        escaped = e

    print("--- result / warning log of the scanner ---")
    for line in cap.results:
        print("   ", line)
    if escaped is not None:
        print("exception that escaped ScanIdentifiers.main():", repr(escaped))

    probes3 = [p for (s, p) in model.log if s == 3 and p[0] == 0x22 and p != b"\x22\xf1\x86"]
    tally3 = None
    cur = None
    for line in cap.results:
        if line.startswith("Starting scan in session:"):
            cur = line.split(": ")[1]
        if line.startswith("Positive replies:") and cur == "0x03":
            tally3 = int(line.split(": ")[1])
    print("requests seen by the ECU:", [(s, p.hex()) for (s, p) in model.log][:6], "...")
    print(f"identifier probes the ECU saw in session 3: {len(probes3)} (expected 17)")
    print(f"'Positive replies' reported for session 3: {tally3} (expected {len(SESSION3_DIDS)})")

    if len(probes3) != 17 or tally3 != len(SESSION3_DIDS):
        print(
            "VIOLATION: the unanswered change to session 2 aborted the whole identifier scan; "
            "session 3 was never scanned (the service scan skips such a session and goes on)."
        )
        return 1
    print("OK")
    return 0


if __name__ == "__main__":
    sys.exit(asyncio.run(main()))
