#!/usr/bin/env python3
"""C10 finding 2: ServicesScanner.main changes from one requested session directly into the next one.

Unlike the identifier scan (which calls ecu.leave_session() after every session), the service scan stays in
the session it just scanned and sends DiagnosticSessionControl(next) from there.  Against gallia's own
virtual ECU (RandomUDSServer, the configuration of tests/bats/run_bats.sh: seed 3, mandatory sessions 1 2 3)
session 3 is reachable from the default session, but not from session 2.  `scan uds services --sessions 1 2 3`
therefore never probes a single service id in session 3 and reports nothing for it, although the ECU
implements several services there that answer the probes with something else than not-supported / length.

Expected (property): for every requested session the ECU can be put into, every implemented service that
answers one of the probe lengths with something other than a not-supported or length error is reported.
"""

import asyncio
import logging
import sys

from gallia.commands.scan.uds.services import ServicesScanner, ServicesScannerConfig
from gallia.services.uds.core import service
from gallia.services.uds.core.constants import UDSErrorCodes, UDSIsoServices
from gallia.services.uds.ecu import ECU
from gallia.services.uds.server import RandomUDSServer
from gallia.transports.base import BaseTransport, TargetURI

SEED = 3
SESSIONS = [1, 2, 3]


async def make_server() -> RandomUDSServer:
    params = RandomUDSServer.RandomnessParameters(mandatory_sessions=[1, 2, 3])
    srv = RandomUDSServer(SEED, params)
    srv.randomize()
    return srv


class MemTransport(BaseTransport, scheme="mem-c10-2"):
    def __init__(self, server: RandomUDSServer) -> None:
        super().__init__(TargetURI("mem-c10-2://ecu"))
        self.server = server
        self.pending: bytes | None = None
        self.trace: list[tuple[int, bytes]] = []

    @classmethod
    async def connect(cls, target, timeout=None):  # type: ignore[no-untyped-def]
        raise ConnectionError("not used")

    async def close(self) -> None:
        pass

    async def reconnect(self, timeout=None):  # type: ignore[no-untyped-def]
        return self

    async def write(self, data, timeout=None, tags=None):  # type: ignore[no-untyped-def]
        self.trace.append((self.server.state.session, bytes(data)))
        resp = await self.server.respond(service.UDSRequest.parse_dynamic(data))
        self.pending = None if resp is None else resp.pdu
        return len(data)

    async def read(self, timeout=None, tags=None):  # type: ignore[no-untyped-def]
        if self.pending is None:
            raise asyncio.TimeoutError
        p, self.pending = self.pending, None
        return p


async def oracle(session: int) -> set[int]:
    """Services a perfect scan reports in `session` (the property's definition), computed on a fresh ECU."""
    srv = await make_server()
    expected = set()
    for sid in range(0x100):
        if sid & 0x40:
            continue
        srv.state.session = session
        for n in (1, 2, 3, 5):
            resp = await srv.respond(service.UDSRequest.parse_dynamic(bytes([sid]) + bytes(n)))
            if resp is None:
                continue
            if isinstance(resp, service.NegativeResponse):
                if resp.response_code in (
                    UDSErrorCodes.serviceNotSupported,
                    UDSErrorCodes.serviceNotSupportedInActiveSession,
                ):
                    break
                if resp.response_code == UDSErrorCodes.incorrectMessageLengthOrInvalidFormat:
                    continue
            expected.add(sid)
            break
    return expected


async def main() -> int:
    logging.getLogger("gallia").setLevel(logging.CRITICAL)

    srv = await make_server()
    from_default = srv.services[1][UDSIsoServices.DiagnosticSessionControl]
    print("sessions of the virtual ECU:", sorted(srv.services))
    for s in SESSIONS:
        print(f"  transitions allowed from session {s}: {srv.services[s][UDSIsoServices.DiagnosticSessionControl]}")

    transport = MemTransport(srv)
    scanner = ServicesScanner(ServicesScannerConfig(target="mem-c10-2://ecu", sessions=SESSIONS))
    scanner.ecu = ECU(transport, timeout=0.2, max_retry=0)
    exit_code = 0
    try:
        await scanner.main()
    except SystemExit as e:
        exit_code = int(e.code or 0)
    print("scanner exit code:", exit_code)

    bad = False
    for s in SESSIONS:
        if s not in from_default:
            continue  # only sessions that the ECU enters straight from its default session are judged
        exp = await oracle(s)
        got = {sid for (sess, sid) in scanner.result if sess == s}
        probes = sum(1 for (sess, pdu) in transport.trace if sess == s and pdu[0] != 0x10)
        print(
            f"session {s}: probes seen by the ECU in this session: {probes}; "
            f"reported {sorted(hex(x) for x in got)}; ECU really supports {sorted(hex(x) for x in exp)}"
        )
        if got != exp:
            bad = True
    session_changes = [(sess, pdu.hex()) for (sess, pdu) in transport.trace if pdu[0] == 0x10 and len(pdu) == 2 and pdu[1] != 0]
    print("DiagnosticSessionControl requests (session the ECU was in, request):", session_changes)

    if bad:
        print(
            "VIOLATION: a requested session that the ECU enters from its default session was not scanned at all; "
            "its implemented services are missing from ServicesScanner.result"
        )
        return 1
    print("OK")
    return 0


if __name__ == "__main__":
    sys.exit(asyncio.run(main()))
