#!/usr/bin/env python3
"""C10 finding 1: ScanIdentifiers.main short-circuits `clean_returns and await self.perform_scan(session)`.

Once the scan of ONE session was aborted (check-session could not restore the session), the identifier
scan of EVERY following session is silently not executed at all: not a single request is sent, no
"Positive replies" tally is produced, although "Starting scan in session" / "Scan in session ... is
complete!" are logged for it.

ECU model (byte level, in-memory transport, deterministic):
  sessions 1, 2, 3; ReadDataByIdentifier in all sessions, DID 0xF186 reports the active session.
  session 2: the ECU leaves the session (falls back to the default session) when DID 0x0005 is read and
             refuses to re-enter session 2 afterwards (conditionsNotCorrect)  -> check-session aborts session 2
  session 3: DIDs 0x0001, 0x0003 and 0x000A are readable (positive response), everything else requestOutOfRange.
Scan: identifiers, service 0x22, sessions [2, 3], range 0x0000-0x0010, check_session=1.

Property: the identifier scan counts as positive exactly the identifiers in the requested range for which the
ECU returns a positive response -> session 3 must be probed (17 requests) and report 3 positive replies.
"""

import asyncio
import logging
import sys

from gallia.commands.scan.uds.identifiers import ScanIdentifiers, ScanIdentifiersConfig
from gallia.services.uds.ecu import ECU
from gallia.transports.base import BaseTransport, TargetURI

SESSION3_DIDS = {0x0001, 0x0003, 0x000A}


class Model:
    def __init__(self) -> None:
        self.session = 1
        self.locked2 = False
        self.log: list[tuple[int, bytes]] = []

    def handle(self, pdu: bytes) -> bytes:
        s = self.session
        self.log.append((s, bytes(pdu)))
        sid = pdu[0]
        if sid == 0x3E:
            return b"\x7e\x00"
        if sid == 0x11:
            if pdu[1:] == b"\x01":
                self.session = 1
                return b"\x51\x01"
            return b"\x7f\x11\x12"
        if sid == 0x10:
            if len(pdu) != 2:
                return b"\x7f\x10\x13"
            if pdu[1] == 2 and self.locked2:
                return b"\x7f\x10\x22"
            if pdu[1] in (1, 2, 3):
                self.session = pdu[1]
                return bytes([0x50, pdu[1], 0x00, 0x32, 0x01, 0xF4])
            return b"\x7f\x10\x12"
        if sid == 0x22:
            if len(pdu) != 3:
                return b"\x7f\x22\x13"
            did = pdu[1] << 8 | pdu[2]
            if did == 0xF186:
                return b"\x62\xf1\x86" + bytes([s])
            if s == 2 and did == 0x0005:
                # history: the ECU drops out of session 2 and will not enter it again
                self.session = 1
                self.locked2 = True
                return b"\x7f\x22\x31"
            if s == 3 and did in SESSION3_DIDS:
                return b"\x62" + pdu[1:3] + b"\xaa\xbb"
            return b"\x7f\x22\x31"
        return bytes([0x7F, sid, 0x11])


class MemTransport(BaseTransport, scheme="mem-c10-1"):
    def __init__(self, model: Model) -> None:
        super().__init__(TargetURI("mem-c10-1://ecu"))
        self.model = model
        self.pending: bytes | None = None

    @classmethod
    async def connect(cls, target, timeout=None):  # type: ignore[no-untyped-def]
        raise ConnectionError("not used")

    async def close(self) -> None:
        pass

    async def reconnect(self, timeout=None):  # type: ignore[no-untyped-def]
        return self

    async def write(self, data, timeout=None, tags=None):  # type: ignore[no-untyped-def]
        self.pending = self.model.handle(data)
        return len(data)

    async def read(self, timeout=None, tags=None):  # type: ignore[no-untyped-def]
        if self.pending is None:
            raise asyncio.TimeoutError
        p, self.pending = self.pending, None
        return p


class Capture(logging.Handler):
    def __init__(self) -> None:
        super().__init__()
        self.results: list[str] = []

    def emit(self, record: logging.LogRecord) -> None:
        if "result" in getattr(record, "tags", []) or record.levelno >= logging.WARNING:
            self.results.append(record.getMessage())


async def main() -> int:
    cap = Capture()
    root = logging.getLogger("gallia")
    root.setLevel(logging.INFO)
    root.propagate = False
    root.addHandler(cap)

    model = Model()
    config = ScanIdentifiersConfig(
        target="mem-c10-1://ecu",
        sessions=[2, 3],
        service=0x22,
        start=0x0000,
        end=0x0010,
        check_session=1,
    )
    scanner = ScanIdentifiers(config)
    scanner.ecu = ECU(MemTransport(model), timeout=0.2, max_retry=0)

    exit_code = 0
    try:
        await scanner.main()
    except SystemExit as e:
        exit_code = int(e.code or 0)

    print("--- result / warning log of the scanner ---")
    for line in cap.results:
        print("   ", line)
    print(f"--- scanner exit code: {exit_code}")

    probes3 = [p for (s, p) in model.log if s == 3 and p[0] == 0x22 and p != b"\x22\xf1\x86"]
    # tallies printed after "Starting scan in session: 0x03"
    tally3 = None
    cur = None
    for line in cap.results:
        if line.startswith("Starting scan in session:"):
            cur = line.split(": ")[1]
        if line.startswith("Positive replies:") and cur == "0x03":
            tally3 = int(line.split(": ")[1])

    entered3 = any(p == b"\x10\x03" for (_, p) in model.log)
    print(f"ECU entered session 3: {entered3}")
    print(f"identifier probes the ECU saw in session 3: {len(probes3)} (expected 17: DIDs 0x0000-0x0010)")
    print(f"'Positive replies' reported for session 3: {tally3} (expected {len(SESSION3_DIDS)})")

    if entered3 and (len(probes3) != 17 or tally3 != len(SESSION3_DIDS)):
        print(
            "VIOLATION: session 3 was announced as scanned ('Starting scan' / 'is complete!') but no identifier "
            "was probed and nothing was counted, because the aborted scan of session 2 made "
            "`clean_returns and await self.perform_scan(session)` short-circuit."
        )
        return 1
    print("OK: session 3 was scanned as the property requires")
    return 0


if __name__ == "__main__":
    sys.exit(asyncio.run(main()))
