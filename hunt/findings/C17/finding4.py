"""C17: `hr -` crashes when stdin is neither a FIFO nor a regular file
(e.g. the empty log `hr - </dev/null`, a tty, or a socket handed over by a supervisor).

PenlogReader._prepare_for_mmap() only copies stdin to a temp file if it is a FIFO
or if the probe _test_mmap() raises ValueError; for a character device or socket
mmap raises OSError (EINVAL / ENODEV), which is not caught.
"""
import os
import socket
import subprocess
import sys

LINE = (
    b'<6>{"module": "m", "host": "h", "data": "hello", '
    b'"datetime": "2026-10-01T15:57:50.321082+00:00", "priority": 6, "version": 2}\n'
)


def run(stdin, label: str, expect: list[str]) -> bool:
    env = dict(os.environ, NO_COLOR="1")
    r = subprocess.run(
        [sys.executable, "-m", "gallia.cli.hr", "-"],
        stdin=stdin, capture_output=True, env=env, timeout=50,
    )
    got = [line.split(": ", 1)[1] for line in r.stdout.decode().splitlines()]
    ok = r.returncode == 0 and got == expect
    print(f"{label}: rc={r.returncode} records={got} {'ok' if ok else 'VIOLATION'}")
    if not ok:
        print("   stderr tail:", r.stderr.decode().strip().splitlines()[-1:])
    return ok


def main() -> int:
    bad = 0
    # reference: the same (empty / one record) log through a pipe works
    rd, wr = os.pipe()
    os.close(wr)
    with os.fdopen(rd, "rb") as f:
        bad += not run(f, "empty log via pipe      ", [])
    # empty log via /dev/null
    with open(os.devnull, "rb") as f:
        bad += not run(f, "empty log via /dev/null ", [])
    # one record via a unix socket pair as stdin
    a, b = socket.socketpair()
    a.sendall(LINE)
    a.shutdown(socket.SHUT_WR)
    bad += not run(b.fileno(), "one record via socket   ", ["hello"])
    a.close()
    b.close()
    return 1 if bad else 0


if __name__ == "__main__":
    sys.exit(main())
