"""C17: `hr --tail -n N -p PRIO` does not yield the last N records of the filtered
sequence (while `--head -n N -p PRIO` does yield the first N of it).

tail takes the last N *unfiltered* lines and filters afterwards, head filters first
and then counts.  With hr's default threshold (INFO) a log whose last N lines are
DEBUG/TRACE records prints nothing for `hr --tail -n N`, although matching records exist.
"""
import itertools
import os
import subprocess
import sys
import tempfile
from pathlib import Path

from gallia.log import (
    Loglevel,
    PenlogPriority,
    PenlogReader,
    add_zst_log_handler,
    get_logger,
    remove_zst_log_handler,
)


def write_log(path: Path, levels: list[Loglevel]) -> list[tuple[str, int]]:
    name = "gallia.c17f3"
    lg = get_logger(name)
    lg.setLevel(1)
    lg.propagate = False
    h = add_zst_log_handler(name, path, Loglevel.TRACE)
    out = []
    for i, lvl in enumerate(levels):
        lg.log(lvl, f"r{i}")
        out.append((f"r{i}", int(PenlogPriority.from_level(lvl))))
    remove_zst_log_handler(name, h)
    return out


def hr(*args: str) -> list[str]:
    env = dict(os.environ, NO_COLOR="1")
    r = subprocess.run(
        [sys.executable, "-m", "gallia.cli.hr", *args], capture_output=True, env=env, timeout=50
    )
    return [line.split(": ", 1)[1] for line in r.stdout.decode().splitlines()]


def main() -> int:
    bad = 0
    with tempfile.TemporaryDirectory() as d:
        # 1. the hr entry point on one concrete run
        p = Path(d) / "log.json.zst"
        recs = write_log(p, [Loglevel.INFO, Loglevel.ERROR, Loglevel.DEBUG, Loglevel.DEBUG])
        sel = [m for m, prio in recs if prio <= PenlogPriority.INFO]
        head = hr("-p", "info", "--head", "-n", "2", str(p))
        tail = hr("-p", "info", "--tail", "-n", "2", str(p))
        print(f"levels INFO,ERROR,DEBUG,DEBUG; -p info selects {sel}")
        print(f"  hr --head -n 2 -> {head}   (expected {sel[:2]})")
        print(f"  hr --tail -n 2 -> {tail}   (expected {sel[-2:]})")
        if head != sel[:2] or tail != sel[-2:]:
            bad += 1

        # 2. same expression hr uses, exhaustively over all level sequences of length 3
        mism = 0
        total = 0
        for k, levels in enumerate(itertools.product([Loglevel.ERROR, Loglevel.DEBUG], repeat=3)):
            q = Path(d) / f"l{k}.json.zst"
            recs = write_log(q, list(levels))
            sel = [m for m, prio in recs if prio <= PenlogPriority.ERROR]
            with PenlogReader(q) as r:
                for n in (1, 2, 3):
                    got_tail = [x.data for x in r.records(PenlogPriority.ERROR, offset=-n)]
                    got_head = [
                        x.data for x in itertools.islice(r.records(PenlogPriority.ERROR), n)
                    ]
                    total += 1
                    assert got_head == sel[:n]
                    if got_tail != sel[-n:]:
                        mism += 1
        print(f"exhaustive (3 records, levels ERROR/DEBUG, -p error, n=1..3): tail differs from "
              f"'last n selected records' in {mism} of {total} cases; head never differs")
        if mism:
            bad += 1
    if bad:
        print("VIOLATION")
    return 1 if bad else 0


if __name__ == "__main__":
    sys.exit(main())
