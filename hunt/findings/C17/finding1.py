"""C17: `hr --tail -n 0` prints the whole log instead of the last 0 records.

cli/hr.py passes offset=-args.lines to PenlogReader.records(); for n == 0 this is
offset=0, i.e. "from the first record", so tail 0 == the complete log, while
`--head -n 0` (the sibling mode) correctly prints nothing.
"""
import os
import subprocess
import sys
import tempfile
from pathlib import Path

from gallia.log import Loglevel, add_zst_log_handler, get_logger, remove_zst_log_handler


def write_log(path: Path, msgs: list[str]) -> None:
    name = "gallia.c17f1"
    lg = get_logger(name)
    lg.setLevel(1)
    lg.propagate = False
    h = add_zst_log_handler(name, path, Loglevel.TRACE)
    for m in msgs:
        lg.info(m)
    remove_zst_log_handler(name, h)


def hr(*args: str) -> list[str]:
    env = dict(os.environ, NO_COLOR="1")
    r = subprocess.run(
        [sys.executable, "-m", "gallia.cli.hr", *args], capture_output=True, env=env, timeout=50
    )
    if r.returncode != 0:
        print("hr failed:", r.stderr.decode()[-500:])
    return [line.split(": ", 1)[1] for line in r.stdout.decode().splitlines()]


def main() -> int:
    with tempfile.TemporaryDirectory() as d:
        p = Path(d) / "log.json.zst"
        msgs = [f"record {i}" for i in range(5)]
        write_log(p, msgs)
        bad = 0
        for n in (0, 1, 2, 5, 9):
            head = hr("--head", "-n", str(n), str(p))
            tail = hr("--tail", "-n", str(n), str(p))
            exp_head = msgs[:n]
            exp_tail = msgs[len(msgs) - n :] if n <= len(msgs) else msgs
            ok = head == exp_head and tail == exp_tail
            print(f"n={n}: head={head} tail={tail} {'ok' if ok else 'VIOLATION'}")
            if not ok:
                print(f"   expected head={exp_head} tail={exp_tail}")
                bad += 1
        return 1 if bad else 0


if __name__ == "__main__":
    sys.exit(main())
