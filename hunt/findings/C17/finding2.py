"""C17: a record logged with exc_info is not read back with the same text / trace.

add_zst_log_handler() puts a stock logging.handlers.QueueHandler in front of the
_ZstdFileHandler.  QueueHandler.prepare() formats the record, appends the
traceback to the *message* and then sets exc_info = None.  _JSONFormatter.format()
therefore never sees exc_info: "stacktrace" is always null and "data" becomes
"<message>\nTraceback (most recent call last): ...".
"""
import sys
import tempfile
from pathlib import Path

from gallia.log import (
    Loglevel,
    PenlogReader,
    add_zst_log_handler,
    get_logger,
    remove_zst_log_handler,
)


def main() -> int:
    name = "gallia.c17f2"
    lg = get_logger(name)
    lg.setLevel(1)
    lg.propagate = False
    with tempfile.TemporaryDirectory() as d:
        p = Path(d) / "log.json.zst"
        h = add_zst_log_handler(name, p, Loglevel.TRACE)
        lg.info("before")
        try:
            raise ValueError("boom")
        except ValueError:
            lg.critical("run failed", exc_info=True)
        lg.info("after")
        remove_zst_log_handler(name, h)

        with PenlogReader(p) as r:
            recs = list(r.records())

    bad = 0
    if [x.data for x in recs] != ["before", "run failed", "after"]:
        print("VIOLATION: text read back differs from the text that was logged:")
        for x in recs:
            print("   data =", repr(x.data))
        bad += 1
    exc_rec = recs[1]
    if exc_rec.stacktrace is None or "ValueError: boom" not in exc_rec.stacktrace:
        print("VIOLATION: stacktrace field of the record logged with exc_info=True is", repr(exc_rec.stacktrace))
        bad += 1
    return 1 if bad else 0


if __name__ == "__main__":
    sys.exit(main())
