"""C01 finding 3: DynamicallyDefineDataIdentifier requests with zero source groups are encoded
into malformed PDUs (defineByMemoryAddress even gets addressAndLengthFormatIdentifier 0x00)
instead of being refused.
"""
import sys

from gallia.services.uds.core.service import (
    DefineByIdentifierRequest,
    DefineByMemoryAddressRequest,
    RawRequest,
    UDSRequest,
)
from gallia.services.uds.core.utils import address_and_size_length

violations = 0

cases = [
    ("DefineByMemoryAddressRequest(0xF200, [], [])", lambda: DefineByMemoryAddressRequest(0xF200, [], [])),
    (
        "DefineByMemoryAddressRequest(0xF200, [], [], 0x24, suppress_response=True)",
        lambda: DefineByMemoryAddressRequest(0xF200, [], [], 0x24, True),
    ),
    ("DefineByIdentifierRequest(0xF200, [], [], [])", lambda: DefineByIdentifierRequest(0xF200, [], [], [])),
]

for label, make in cases:
    try:
        req = make()
        pdu = req.pdu
    except (ValueError, OverflowError) as e:
        print(f"ok: {label} refused: {e!r}")
        continue
    violations += 1
    print(f"VIOLATION: {label} accepted, pdu = {pdu.hex()}")
    if isinstance(req, DefineByMemoryAddressRequest):
        fmt = req.address_and_length_format_identifier
        try:
            address_and_size_length(fmt)
        except ValueError as e:
            print(f"  computed addressAndLengthFormatIdentifier = {fmt:#04x}, which gallia itself calls invalid: {e}")
    try:
        type(req).from_pdu(pdu)
        print("  (own parser accepts it)")
    except Exception as e:
        print(f"  {type(req).__name__}.from_pdu -> {e!r}")
    dyn = UDSRequest.parse_dynamic(pdu)
    print(f"  UDSRequest.parse_dynamic -> {dyn!r}" + ("  (degraded to raw)" if isinstance(dyn, RawRequest) else ""))

# sanity: one group has the prescribed layout and round-trips
one = DefineByMemoryAddressRequest(0xF200, [0x1234], [4])
assert one.pdu == bytes.fromhex("2c02f20012123404"), one.pdu.hex()
assert DefineByMemoryAddressRequest.from_pdu(one.pdu).pdu == one.pdu
one = DefineByIdentifierRequest(0xF200, [0xF190], [1], [17])
assert one.pdu == bytes.fromhex("2c01f200f1900111"), one.pdu.hex()

sys.exit(1 if violations else 0)
