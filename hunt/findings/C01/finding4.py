"""C01 finding 4: requests whose mandatory byte record is empty are encoded instead of refused,
and the resulting bytes are rejected by the very same class's parser.

SendKeyRequest(level, b"")              -> 27 02       (securityKey is mandatory, min length 3)
WriteMemoryByAddressRequest(addr, b"")  -> 3d 11 10 00 (dataRecord is mandatory, min length 5)

Sibling requests with a mandatory record (WriteDataByIdentifierRequest,
InputOutputControlByIdentifierRequest) refuse an empty record with a ValueError.
"""
import sys

from gallia.services.uds.core.service import (
    InputOutputControlByIdentifierRequest,
    RawRequest,
    SendKeyRequest,
    UDSRequest,
    WriteDataByIdentifierRequest,
    WriteMemoryByAddressRequest,
)

violations = 0

cases = [
    ("WriteDataByIdentifierRequest(0xF190, b'')", lambda: WriteDataByIdentifierRequest(0xF190, b"")),
    (
        "InputOutputControlByIdentifierRequest(0xF190, b'')",
        lambda: InputOutputControlByIdentifierRequest(0xF190, b""),
    ),
    ("SendKeyRequest(0x02, b'')", lambda: SendKeyRequest(0x02, b"")),
    ("SendKeyRequest(0x7E, b'', suppress_response=True)", lambda: SendKeyRequest(0x7E, b"", True)),
    ("WriteMemoryByAddressRequest(0x10, b'')", lambda: WriteMemoryByAddressRequest(0x10, b"")),
    ("WriteMemoryByAddressRequest(0x10, b'', 4)", lambda: WriteMemoryByAddressRequest(0x10, b"", 4)),
]

for label, make in cases:
    try:
        req = make()
        pdu = req.pdu
    except (ValueError, OverflowError) as e:
        print(f"ok: {label} refused: {e!r}")
        continue
    problems = []
    try:
        back = type(req).from_pdu(pdu)
        if back.pdu != pdu:
            problems.append("parsed back to different bytes")
    except Exception as e:
        problems.append(f"{type(req).__name__}.from_pdu -> {e!r}")
    dyn = UDSRequest.parse_dynamic(pdu)
    if isinstance(dyn, RawRequest):
        problems.append(f"parse_dynamic -> {dyn!r}")
    if problems:
        violations += 1
        print(f"VIOLATION: {label} accepted, pdu = {pdu.hex()}; " + "; ".join(problems))
    else:
        print(f"ok: {label} -> {pdu.hex()} round-trips")

# sanity: the same requests with a one-byte record follow the ISO layout and round-trip
assert SendKeyRequest(0x02, b"\xaa").pdu == bytes.fromhex("2702aa")
assert SendKeyRequest.from_pdu(bytes.fromhex("2702aa")).security_key == b"\xaa"
assert WriteMemoryByAddressRequest(0x10, b"\xaa").pdu == bytes.fromhex("3d111001aa")

sys.exit(1 if violations else 0)
