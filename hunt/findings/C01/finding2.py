"""C01 finding 2: ReadDataByIdentifierRequest with zero dataIdentifiers is encoded as the
one-byte PDU 0x22 and handed to the transport instead of being refused.

ISO 14229-1 requires at least one dataIdentifier (minimum request length 3); the class itself
declares minimal_length=3, so its own parser rejects the bytes and the dynamic parser degrades
them to a RawRequest.
"""
import asyncio
import sys

from gallia.services.uds.core.client import UDSClient
from gallia.services.uds.core.exception import MissingResponse
from gallia.services.uds.core.service import RawRequest, ReadDataByIdentifierRequest, UDSRequest

violations = []


class FakeTransport:
    def __init__(self) -> None:
        self.sent: list[bytes] = []

    async def request_unsafe(self, data, timeout=None, tags=None):
        self.sent.append(bytes(data))
        raise TimeoutError("fake ECU does not answer")


for empty in ([], ()):
    try:
        req = ReadDataByIdentifierRequest(empty)
        pdu = req.pdu
    except (ValueError, OverflowError) as e:
        print(f"ok: ReadDataByIdentifierRequest({empty!r}) refused: {e!r}")
        continue
    print(f"ReadDataByIdentifierRequest({empty!r}) accepted, pdu = {pdu.hex()!r} ({len(pdu)} byte)")
    violations.append("constructed")
    try:
        ReadDataByIdentifierRequest.from_pdu(pdu)
    except Exception as e:
        print(f"  ReadDataByIdentifierRequest.from_pdu({pdu.hex()}) -> {e!r}")
        violations.append("own parser rejects")
    dyn = UDSRequest.parse_dynamic(pdu)
    print(f"  UDSRequest.parse_dynamic({pdu.hex()}) -> {dyn!r}")
    if isinstance(dyn, RawRequest):
        violations.append("degraded to raw")


async def wire() -> None:
    transport = FakeTransport()
    client = UDSClient(transport, timeout=0.1)  # type: ignore[arg-type]
    try:
        await client.read_data_by_identifier([])
    except MissingResponse:
        pass
    except (ValueError, OverflowError) as e:
        print(f"ok: UDSClient.read_data_by_identifier([]) refused: {e!r}")
    if transport.sent:
        print(f"  UDSClient.read_data_by_identifier([]) handed {transport.sent[0].hex()!r} to the transport")
        violations.append("on the wire")


asyncio.run(wire())

# sanity: non-empty lists have the prescribed layout
assert ReadDataByIdentifierRequest([0xF190, 0x0001]).pdu == bytes.fromhex("22f1900001")

if violations:
    print("VIOLATION:", ", ".join(violations))
    sys.exit(1)
sys.exit(0)
