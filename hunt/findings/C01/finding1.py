"""C01 finding 1: ShortTermAdjustmentRequest cannot parse its own PDU.

ShortTermAdjustmentRequest (InputOutputControlByIdentifier 0x2F with
inputOutputControlParameter shortTermAdjustment = 0x03) inherits _from_pdu from
InputOutputControlByIdentifierRequest, which calls cls(did, pdu[3:], b"").  The subclass
constructor prepends 0x03 a second time, so the re-serialised PDU differs and
UDSRequest.from_pdu dies on its round-trip assertion for EVERY ShortTermAdjustment request.
"""
import sys

from gallia.services.uds.core.service import (
    FreezeCurrentStateRequest,
    ResetToDefaultRequest,
    ReturnControlToECURequest,
    ShortTermAdjustmentRequest,
)

bad = []

# sibling wrappers (work) vs. ShortTermAdjustmentRequest (fails)
for cls, args in [
    (ReturnControlToECURequest, (0x1234, b"\xff")),
    (ResetToDefaultRequest, (0x1234, b"\xff")),
    (FreezeCurrentStateRequest, (0x1234, b"\xff")),
    (ShortTermAdjustmentRequest, (0x1234, b"\x01")),
    (ShortTermAdjustmentRequest, (0xF190, b"\x00\x10\x20", b"\xff")),
    (ShortTermAdjustmentRequest, (0x0000, b"\xaa" * 8)),
]:
    req = cls(*args)
    pdu = req.pdu
    try:
        back = cls.from_pdu(pdu)
    except BaseException as e:  # AssertionError
        print(f"VIOLATION {cls.__name__}{args!r}: pdu={pdu[:12].hex()} -> from_pdu raised {e!r}")
        bad.append(cls.__name__)
        continue
    if back.pdu != pdu or type(back) is not cls:
        print(f"VIOLATION {cls.__name__}{args!r}: {pdu.hex()} parsed back as {back!r}")
        bad.append(cls.__name__)
    else:
        print(f"ok        {cls.__name__}{args!r}: {pdu[:12].hex()} round-trips")

# expected wire layout per ISO 14229-1: 2F DID(2, big endian) 03 controlState...
assert ShortTermAdjustmentRequest(0x1234, b"\x01").pdu == bytes.fromhex("2f12340301")

if bad:
    print("ShortTermAdjustmentRequest.from_pdu rejects the bytes ShortTermAdjustmentRequest.pdu produced")
    sys.exit(1)
sys.exit(0)
