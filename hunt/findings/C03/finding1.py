#!/usr/bin/env python
# C03 finding 1: for every request that parse_dynamic cannot type (RawRequest), parse_pdu accepts ANY
# positive reply of the same service, although the echoed identifier / sub-function differs.
# This includes the PDUs the scanners really send via UDSClient.send_raw (e.g. scan-identifiers with
# service 0x2E / 0x2F and no payload, RoutineControl with an unknown sub-function, service 0x24 ...).
import asyncio
import sys

from gallia.services.uds.core import service
from gallia.services.uds.core.client import UDSClient, UDSRequestConfig
from gallia.services.uds.core.exception import (
    MalformedResponse,
    MissingResponse,
    RequestResponseMismatch,
)
from gallia.services.uds.helpers import parse_pdu

violations: list[str] = []


def outcome(reply: bytes, request: service.UDSRequest) -> str:
    try:
        r = parse_pdu(reply, request)
        return f"ACCEPTED as {r!r}"
    except RequestResponseMismatch:
        return "RequestResponseMismatch"
    except MalformedResponse:
        return "MalformedResponse"


# (request pdu, genuine reply, foreign/stale reply of the same service whose echoed identifier differs)
PAIRS = [
    ("2ef190", "6ef190", "6ef18f"),  # WriteDataByIdentifier probe without dataRecord (scan-identifiers --sid 0x2e)
    ("2f1234", "6f123400", "6f123300"),  # InputOutputControlByIdentifier probe without controlOptionRecord
    ("24f190", "64f190aabb", "64f191aabb"),  # ReadScalingDataByIdentifier (echo length 2 in UDSIsoServicesEchoLength)
    ("31041234", "71041234", "71049999"),  # RoutineControl, vendor specific sub-function, other routine id
    ("31041234", "71041234", "71011234"),  # ... or reply of another sub-function (typed StartRoutineResponse)
    ("8603", "c6030000", "c6050000"),  # ResponseOnEvent, other sub-function
    ("2702", "6702", "6701aabbccdd"),  # SendKey without key: the stale *seed* reply of level 1 is accepted
    ("2804010001", "6804", "6800"),  # CommunicationControl with nodeIdentificationNumber, other controlType
]

print("== parse_pdu(reply, RawRequest) ==")
for req_hex, genuine_hex, stale_hex in PAIRS:
    req = service.RawRequest(bytes.fromhex(req_hex))
    g = outcome(bytes.fromhex(genuine_hex), req)
    s = outcome(bytes.fromhex(stale_hex), req)
    print(f"request {req_hex}: genuine {genuine_hex} -> {g}")
    print(f"request {req_hex}: stale   {stale_hex} -> {s}")
    if not g.startswith("ACCEPTED"):
        violations.append(f"genuine reply {genuine_hex} to {req_hex} refused: {g}")
    if s != "RequestResponseMismatch":
        violations.append(
            f"stale/foreign reply {stale_hex} to request {req_hex} not refused with RequestResponseMismatch: {s}"
        )

# Control: the very same stale reply IS refused as soon as the request happens to be typeable
ctrl = outcome(bytes.fromhex("6ef18f"), service.RawRequest(bytes.fromhex("2ef19000")))
print(f"control: request 2ef19000 (typeable), stale 6ef18f -> {ctrl}")


# == History at UDSClient level: a late reply of the previous probe becomes the result of the current probe ==
class FakeTransport:
    """In-memory transport. script: list of replies (None = timeout) handed out per request."""

    def __init__(self, script: list[bytes | None]) -> None:
        self.script = list(script)
        self.sent: list[bytes] = []

    async def request_unsafe(self, data: bytes, timeout=None, tags=None) -> bytes:
        self.sent.append(data)
        reply = self.script.pop(0)
        if reply is None:
            raise TimeoutError("no reply")
        return reply

    async def read(self, timeout=None, tags=None) -> bytes:
        raise TimeoutError("nothing")


async def history() -> None:
    # ECU is slow: reply to the probe of DID 0xf18f arrives only after the client gave up and
    # already sent the probe for DID 0xf190.
    transport = FakeTransport([None, bytes.fromhex("6ef18f")])
    client = UDSClient(transport, timeout=0.1, max_retry=0)  # type: ignore[arg-type]
    cfg = UDSRequestConfig(max_retry=0)
    try:
        await client.send_raw(bytes.fromhex("2ef18f"), cfg)
    except MissingResponse:
        print("probe 2ef18f: MissingResponse (timeout)")
    try:
        resp = await client.send_raw(bytes.fromhex("2ef190"), cfg)
        print(f"probe 2ef190: UDSClient.request() returned {resp!r} (late reply 6ef18f of the previous probe)")
        violations.append(
            "UDSClient.send_raw(2ef190) returned the stale reply 6ef18f of the previous probe as its result"
        )
    except RequestResponseMismatch:
        print("probe 2ef190: stale reply refused with RequestResponseMismatch")


print("== UDSClient history ==")
asyncio.run(history())

if violations:
    print(f"\nVIOLATIONS ({len(violations)}):")
    for v in violations:
        print(" -", v)
    sys.exit(1)
print("no violation")
sys.exit(0)
