#!/usr/bin/env python
# C03 finding 4 (lower confidence, genuine reply refused): the positive response 0x59 to
# ReadDTCInformation reportNumberOf*DTCByStatusMask (sub-functions 0x01 / 0x11 / 0x12) that echoes the
# request's sub-function but carries DTCFormatIdentifier 0x04 (SAE_J2012-DA_DTCFormat_04, defined by
# ISO 14229-1 since the 2013 edition) is refused with MalformedResponse, because constants.DTCFormatIdentifier
# only knows 0x00..0x03 and _ReadDTCType0Response._from_pdu converts the byte with the enum constructor.
import sys

from gallia.services.uds.core import service
from gallia.services.uds.core.exception import MalformedResponse, RequestResponseMismatch
from gallia.services.uds.helpers import parse_pdu

violations = []
for suppress in (False, True):
    for req in (
        service.ReportNumberOfDTCByStatusMaskRequest(0xFF, suppress),
        service.ReportNumberOfMirrorMemoryDTCByStatusMaskRequest(0xFF, suppress),
        service.ReportNumberOfEmissionsRelatedOBDDTCByStatusMaskRequest(0xFF, suppress),
    ):
        sf = req.pdu[1] & 0x7F
        for fmt in range(0, 5):
            reply = bytes([0x59, sf, 0xFF, fmt, 0x00, 0x03])
            try:
                r = parse_pdu(reply, req)
                res = f"accepted as {type(r).__name__}"
            except MalformedResponse as e:
                res = f"MalformedResponse ({e.message})"
                violations.append(f"request {req.pdu.hex()}: genuine reply {reply.hex()} -> {res}")
            except RequestResponseMismatch:
                res = "RequestResponseMismatch"
                violations.append(f"request {req.pdu.hex()}: genuine reply {reply.hex()} -> {res}")
            print(f"request {req.pdu.hex()}: reply {reply.hex()} (DTCFormatIdentifier {fmt:#04x}) -> {res}")

if violations:
    print(f"\nVIOLATIONS ({len(violations)}): genuine reply of the right service echoing the sub-function refused")
    for v in violations:
        print(" -", v)
    sys.exit(1)
print("no violation")
sys.exit(0)
