#!/usr/bin/env python
# C03 finding 3: an empty reply (b"") is neither accepted nor refused with MalformedResponse /
# RequestResponseMismatch: helpers.parse_pdu indexes pdu[0] inside its own `except` handler and lets a bare
# IndexError escape, for every request kind.
import sys

from gallia.services.uds.core import service
from gallia.services.uds.core.exception import MalformedResponse, RequestResponseMismatch
from gallia.services.uds.helpers import parse_pdu

requests = [
    service.ReadDataByIdentifierRequest(0xF190),
    service.DiagnosticSessionControlRequest(3),
    service.TesterPresentRequest(suppress_response=True),
    service.StartRoutineRequest(0x1234),
    service.RawRequest(bytes.fromhex("24f190")),
]

violations = []
for req in requests:
    # control: other undecodable replies of the right service are reported as MalformedResponse
    try:
        parse_pdu(bytes([req.pdu[0] + 0x40]), req)
        ctrl = "accepted"
    except MalformedResponse:
        ctrl = "MalformedResponse"
    except RequestResponseMismatch:
        ctrl = "RequestResponseMismatch"

    try:
        parse_pdu(b"", req)
        res = "accepted"
    except (MalformedResponse, RequestResponseMismatch) as e:
        res = type(e).__name__
    except Exception as e:  # noqa: BLE001
        res = f"escaped {type(e).__name__}: {e}"
        violations.append(f"{req!r}: parse_pdu(b'', request) -> {res}")
    print(f"{req!r}: 1-byte reply -> {ctrl}; empty reply -> {res}")

if violations:
    print(f"\nVIOLATIONS ({len(violations)}): undecodable (empty) reply is not refused with MalformedResponse")
    for v in violations:
        print(" -", v)
    sys.exit(1)
print("no violation")
sys.exit(0)
