#!/usr/bin/env python
# C03 finding 2: DynamicallyDefineDataIdentifier (0x2C) - the positive response echoes the sub-function AND
# the dynamicallyDefinedDataIdentifier, but _DynamicallyDefineDataIdentifierResponse.matches() compares only
# the sub-function. A stale/foreign 0x6C reply naming ANOTHER data identifier is accepted as the answer.
# (constants.UDSIsoServicesEchoLength itself lists 3 echoed bytes for this service.)
import sys

from gallia.services.uds.core import service
from gallia.services.uds.core.constants import UDSIsoServices, UDSIsoServicesEchoLength
from gallia.services.uds.core.exception import MalformedResponse, RequestResponseMismatch
from gallia.services.uds.helpers import parse_pdu

violations: list[str] = []


def outcome(reply: bytes, request: service.UDSRequest) -> str:
    try:
        return f"ACCEPTED as {parse_pdu(reply, request)!r}"
    except RequestResponseMismatch:
        return "RequestResponseMismatch"
    except MalformedResponse:
        return "MalformedResponse"


print("echo length table for 0x2C:", UDSIsoServicesEchoLength[UDSIsoServices.DynamicallyDefineDataIdentifier])

for suppress in (False, True):
    requests = [
        service.DefineByIdentifierRequest(0xF301, [0x1234], [1], [2], suppress),
        service.DefineByMemoryAddressRequest(0xF301, [0x1000], [4], None, suppress),
        service.ClearDynamicallyDefinedDataIdentifierRequest(0xF301, suppress),
    ]
    for req in requests:
        sf = req.pdu[1] & 0x7F
        genuine = bytes([0x6C, sf, 0xF3, 0x01])
        g = outcome(genuine, req)
        print(f"{req.pdu.hex()}: genuine {genuine.hex()} -> {g}")
        if not g.startswith("ACCEPTED"):
            violations.append(f"genuine {genuine.hex()} refused for {req.pdu.hex()}")

        # exhaustive: every other data identifier in the echoed field
        accepted = []
        for did in range(0x10000):
            if did == 0xF301:
                continue
            reply = bytes([0x6C, sf, did >> 8, did & 0xFF])
            try:
                parse_pdu(reply, req)
                accepted.append(did)
            except (RequestResponseMismatch, MalformedResponse):
                pass
        print(
            f"{req.pdu.hex()}: replies 6c{sf:02x}<did> with did != f301 accepted: {len(accepted)} of 65535"
            + (f", e.g. 6c{sf:02x}{accepted[0]:04x} -> {outcome(bytes([0x6C, sf, accepted[0] >> 8, accepted[0] & 0xFF]), req)}" if accepted else "")
        )
        if accepted:
            violations.append(
                f"request {req.pdu.hex()} ({type(req).__name__}): {len(accepted)} replies echoing a different "
                f"dynamicallyDefinedDataIdentifier accepted, e.g. 6c{sf:02x}{accepted[0]:04x}"
            )

    # a reply that echoes NO identifier is accepted for a request that named one (and vice versa)
    req = service.ClearDynamicallyDefinedDataIdentifierRequest(None, suppress)
    o = outcome(bytes.fromhex("6c03f355"), req)
    print(f"{req.pdu.hex()} (clear ALL): reply 6c03f355 -> {o}")

if violations:
    print(f"\nVIOLATIONS ({len(violations)}):")
    for v in violations:
        print(" -", v)
    sys.exit(1)
print("no violation")
sys.exit(0)
