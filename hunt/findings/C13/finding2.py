"""C13 finding 2: disabling only default_response_if_sub_function_not_supported lets
DiagnosticSessionControl switch into a session that is not part of the model; from then
on every request dies with AssertionError('Virtual ECU in unsupported session')."""
import asyncio
import sys

from gallia.services.uds.server import RandomUDSServer, UDSServer, UDSServerTransport
from gallia.transports import TargetURI


async def main() -> int:
    behavior = UDSServer.Behavior(default_response_if_sub_function_not_supported=False)
    server = RandomUDSServer(3, behavior=behavior)  # seed 3, default randomness parameters
    server.randomize()
    transport = UDSServerTransport(server, TargetURI("tcp-lines://127.0.0.1:1"))

    unknown_session = next(s for s in range(2, 0x7F) if s not in server.services)
    history = [bytes([0x10, unknown_session]), b"\x3e\x00", b"\x22\xf1\x86", b"\x10\x01", b"\x11\x01"]
    print(f"model sessions: {sorted(server.services)}; history: {[h.hex() for h in history]}")

    failures = 0
    for pdu in history:
        try:
            response, _ = await transport.handle_request(pdu)
            print(f"request {pdu.hex()}: response {response.hex() if response else None}, state {server.state}")
        except Exception as e:
            print(f"request {pdu.hex()}: handle_request raised {e!r}, state {server.state}")
            failures += 1

    if failures:
        print(f"VIOLATION: after the accepted session change to 0x{unknown_session:02x} the server raised on "
              f"{failures} subsequent requests (the transports log the exception and stop serving); "
              "disabling one rule must only remove that rule")
        return 1
    print("ok")
    return 0


sys.exit(asyncio.run(main()))
