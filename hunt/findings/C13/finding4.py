"""C13 finding 4: a positive ECUReset reply for disableRapidPowerShutDown (0x05) (and
enableRapidPowerShutDown 0x04) resets the session (and with it security) state although ISO 14229-1
defines no reset for these sub-functions (0x05 only cancels a previously enabled rapid
power shut down; 0x04 takes effect once the ignition is switched off)."""
import asyncio
import sys
from collections import deque

from gallia.services.uds.core.constants import UDSIsoServices
from gallia.services.uds.server import RandomUDSServer, UDSServerTransport
from gallia.transports import TargetURI

DSC = UDSIsoServices.DiagnosticSessionControl
ER = UDSIsoServices.EcuReset


def path_to(model, target):
    # breadth first search over the DiagnosticSessionControl transitions of the model
    prev = {1: None}
    queue = deque([1])
    while queue:
        s = queue.popleft()
        for t in model[s].get(DSC) or []:
            if t not in prev:
                prev[t] = s
                queue.append(t)
    if target not in prev:
        return None
    path = []
    while target != 1:
        path.append(target)
        target = prev[target]
    return path[::-1]


async def main() -> int:
    violations = 0
    checked = 0

    for seed in range(0, 60):  # default randomness parameters, default behaviours
        server = RandomUDSServer(seed)
        server.randomize()
        transport = UDSServerTransport(server, TargetURI("tcp-lines://127.0.0.1:1"))

        for session, services in server.services.items():
            if session == 1 or ER not in services:
                continue
            for sub_function in (0x04, 0x05):
                if sub_function not in services[ER]:
                    continue
                path = path_to(server.services, session)
                if path is None:
                    continue

                server.state.reset()
                history = [bytes([0x10, s]) for s in path]
                for pdu in history:
                    response, _ = await transport.handle_request(pdu)
                    assert response == bytes([0x50, pdu[1]]), (pdu.hex(), response)
                assert server.state.session == session
                pdu = bytes([0x11, sub_function])
                response, _ = await transport.handle_request(pdu)
                checked += 1
                positive = response is not None and response[:2] == bytes([0x51, sub_function])
                changed = server.state.session != session
                print(
                    f"seed {seed}: {[h.hex() for h in history]} -> session 0x{session:02x}; request {pdu.hex()} -> "
                    f"{response.hex() if response else None}; state afterwards {server.state}"
                )
                if positive and changed:
                    violations += 1

    assert checked > 0
    if violations:
        print(f"VIOLATION: {violations}/{checked} positive replies to ECUReset enable/disableRapidPowerShutDown "
              "dropped the server from its non-default session into the default session")
        return 1
    print("ok")
    return 0


sys.exit(asyncio.run(main()))
