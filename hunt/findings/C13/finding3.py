"""C13 finding 3: ISO 14229-1 sub-function services that have no codec class
(Authentication 0x29, AccessTimingParameter 0x83, ResponseOnEvent 0x86, LinkControl 0x87)
are not recognised as sub-function services: UDSServer._is_sub_function_service swallows
the KeyError of UDSService._SERVICES and returns False.  The model generator therefore
records *no* sub-function list for them, the sub-function rule is skipped and a request
with an unknown sub-function is answered with incorrectMessageLengthOrInvalidFormat (0x13)
although subFunctionNotSupported (0x12) has priority."""
import asyncio
import sys

from gallia.services.uds.core.constants import UDSIsoServices
from gallia.services.uds.server import RandomUDSServer, UDSServerTransport
from gallia.transports import TargetURI

# Services which ISO 14229-1 defines with a sub-function byte (incl. suppressPosRspMsgIndicationBit)
ISO_SUB_FUNCTION_SERVICES = [
    UDSIsoServices.Authentication,
    UDSIsoServices.AccessTimingParameter,
    UDSIsoServices.ResponseOnEvent,
    UDSIsoServices.LinkControl,
]


async def main() -> int:
    violations = 0
    checked = 0

    for seed in (2, 4, 5):  # default randomness parameters, default behaviours
        server = RandomUDSServer(seed)
        server.randomize()
        transport = UDSServerTransport(server, TargetURI("tcp-lines://127.0.0.1:1"))

        for sid in ISO_SUB_FUNCTION_SERVICES:
            if sid not in server.services[1]:
                continue

            recognised = server._is_sub_function_service(sid)
            model_sub_functions = server.services[1][sid]

            for sub_function in (0x00, 0x55, 0x7F, 0xD5):
                server.state.reset()
                pdu = bytes([sid, sub_function])
                response, _ = await transport.handle_request(pdu)
                checked += 1
                # No sub-function of this service is part of the model, hence every sub-function
                # is unknown: subFunctionNotSupported (or its in-active-session variant) is due
                ok = response in (bytes([0x7F, sid, 0x12]), bytes([0x7F, sid, 0x7E]))
                print(
                    f"seed {seed} session 1 {sid.name} (in model, sub-functions={model_sub_functions}, "
                    f"recognised as sub-function service={recognised}): request {pdu.hex()} -> "
                    f"{response.hex() if response else None} {'ok' if ok else 'WRONG'}"
                )
                if not ok:
                    violations += 1

    assert checked > 0, "seeds no longer contain the services"
    if violations:
        print(f"VIOLATION: {violations}/{checked} requests with an unknown sub-function of a supported "
              "sub-function service were answered 0x13 instead of 0x12")
        return 1
    print("ok")
    return 0


sys.exit(asyncio.run(main()))
