"""C13 finding 1: disabling only default_response_if_missing_sub_function makes the
virtual ECU crash (IndexError) on a one-byte request of a sub-function service,
instead of merely dropping that rule."""
import asyncio
import sys
import traceback

from gallia.services.uds.server import RandomUDSServer, UDSServer, UDSServerTransport
from gallia.transports import TargetURI


async def main() -> int:
    behavior = UDSServer.Behavior(default_response_if_missing_sub_function=False)
    server = RandomUDSServer(3, behavior=behavior)  # seed 3, default randomness parameters
    server.randomize()
    transport = UDSServerTransport(server, TargetURI("tcp-lines://127.0.0.1:1"))

    bad = 0
    # DiagnosticSessionControl is mandatory in every model, so b"\x10" is supported in session 1
    for pdu in dict.fromkeys([b"\x10"] + [bytes([int(s)]) for s in server.services[1] if server._is_sub_function_service(s)]):
        server.state.reset()
        try:
            response, _ = await transport.handle_request(pdu)
        except Exception as e:
            print(f"request {pdu.hex()}: handle_request raised {e!r}")
            traceback.print_exc(limit=-1)
            bad += 1
            continue
        print(f"request {pdu.hex()}: response {response.hex() if response else None}")
        if response is None or response[:2] != bytes([0x7F, pdu[0]]):
            print("  -> expected a negative response (incorrectMessageLengthOrInvalidFormat)")
            bad += 1

    if bad:
        print("VIOLATION: with only the missing-sub-function rule disabled the server raises instead "
              "of answering by the remaining rules (7f 10 13 from the incorrect-format rule)")
        return 1
    print("ok")
    return 0


sys.exit(asyncio.run(main()))
