"""C14 finding 1: one-byte request to a sub-function service raises IndexError when the documented
model switch default_response_if_missing_sub_function is turned off (rng model)."""
import asyncio
import sys
import traceback

from gallia.services.uds.core import service
from gallia.services.uds.helpers import parse_pdu
from gallia.services.uds.server import RandomUDSServer, UDSServer, UDSServerTransport
from gallia.transports import TargetURI


async def main() -> int:
    # rng model, seed 0, with the vecu option default_response_if_missing_sub_function switched off
    behavior = UDSServer.Behavior(default_response_if_missing_sub_function=False)
    server = RandomUDSServer(0, None, behavior)
    await server.setup()
    transport = UDSServerTransport(server, TargetURI("tcp-lines://127.0.0.1:20162"))

    bad = 0
    # every sub-function service the model offers in the default session, sent with 0 payload bytes
    for sid in sorted(server.supported_services[1]):
        if not server._is_sub_function_service(sid):
            continue
        pdu = bytes([sid])
        try:
            reply, _ = await transport.handle_request(pdu)
        except Exception as e:
            bad += 1
            where = traceback.extract_tb(e.__traceback__)[-1]
            print(f"request {pdu.hex()}: handle_request raised {e!r} in {where.name} (line {where.lineno})")
            continue
        if reply is not None:
            parse_pdu(reply, service.RawRequest(pdu))
        print(f"request {pdu.hex()}: reply {None if reply is None else reply.hex()}")

    if bad:
        print(f"VIOLATION: {bad} one-byte request(s) made the virtual ECU raise; "
              "TCPUDSServerTransport.handle_client breaks its loop on this")
        return 1
    print("ok")
    return 0


sys.exit(asyncio.run(main()))
