"""C14 finding 2: the db model raises AssertionError on EVERY request as soon as one of the documented
switches default_response_if_service_not_supported / default_response_if_sub_function_not_supported
is turned on, because DBUDSServer.supported_services is the empty dict."""
import asyncio
import sys
import tempfile
import traceback
from datetime import UTC, datetime
from pathlib import Path

import gallia.command  # noqa: F401  (resolves the import cycle command <-> db.handler)
from gallia.db.handler import DBHandler
from gallia.db.log import LogMode
from gallia.services.uds.core import service
from gallia.services.uds.helpers import parse_pdu
from gallia.services.uds.server import DBUDSServer, UDSServer, UDSServerTransport
from gallia.transports import TargetURI


async def make_db(path: Path) -> None:
    db = DBHandler(path)
    await db.connect()
    await db.insert_run_meta("finding", UDSServer.Behavior(), datetime.now(UTC).astimezone(), None)
    await db.insert_scan_run("tcp-lines://127.0.0.1:20162")
    now = datetime.now(UTC).astimezone()
    await db.insert_scan_result(
        {"session": 1, "security_access_level": None},
        service.TesterPresentRequest(),
        service.TesterPresentResponse(),
        None,
        now,
        now,
        LogMode.explicit,
    )
    await db.disconnect()


async def run(path: Path, **flags: bool) -> int:
    server = DBUDSServer(path, None, None, DBUDSServer.Behavior(**flags))
    await server.setup()
    transport = UDSServerTransport(server, TargetURI("tcp-lines://127.0.0.1:20162"))
    bad = 0
    try:
        for pdu in (bytes.fromhex("3e00"), bytes.fromhex("22f186"), bytes.fromhex("1003"), b"\x99"):
            try:
                reply, _ = await transport.handle_request(pdu)
            except Exception as e:
                bad += 1
                where = traceback.extract_tb(e.__traceback__)[-1]
                print(f"  {flags} request {pdu.hex()}: raised {e!r} in {where.name}")
                continue
            if reply is not None:
                parse_pdu(reply, service.RawRequest(pdu))
            print(f"  {flags} request {pdu.hex()}: reply {None if reply is None else reply.hex()}")
    finally:
        await server.teardown()
    return bad


async def main() -> int:
    with tempfile.TemporaryDirectory() as d:
        path = Path(d) / "scan.sqlite"
        await make_db(path)
        print("db model, defaults (all switches off):")
        bad = await run(path)
        print("db model, default_response_if_service_not_supported switched on:")
        bad += await run(path, default_response_if_service_not_supported=True)
        print("db model, default_response_if_sub_function_not_supported switched on:")
        bad += await run(path, default_response_if_sub_function_not_supported=True)
    if bad:
        print(f"VIOLATION: {bad} request(s) made the db virtual ECU raise (connection loop breaks)")
        return 1
    print("ok")
    return 0


sys.exit(asyncio.run(main()))
