"""C14 finding 3: with the documented switch default_response_if_sub_function_not_supported turned off,
one DiagnosticSessionControl request moves the rng virtual ECU into a session it does not offer; from
then on EVERY request (on every connection) raises AssertionError until the 10 s inactivity reset."""
import asyncio
import sys

from gallia.services.uds.core import service
from gallia.services.uds.helpers import parse_pdu
from gallia.services.uds.server import RandomUDSServer, UDSServer, UDSServerTransport
from gallia.transports import TargetURI


async def main() -> int:
    # rng model, seed 0, with the vecu option default_response_if_sub_function_not_supported switched off
    behavior = UDSServer.Behavior(default_response_if_sub_function_not_supported=False)
    server = RandomUDSServer(0, None, behavior)
    await server.setup()
    transport = UDSServerTransport(server, TargetURI("tcp-lines://127.0.0.1:20162"))

    offered = sorted(server.supported_services)
    target = next(s for s in range(2, 0x80) if s not in server.supported_services)
    print(f"sessions offered by the model: {[hex(s) for s in offered]}; requesting session {target:#x}")

    history = [bytes([0x10, target]), bytes.fromhex("3e00"), bytes.fromhex("1001"), bytes.fromhex("22f186")]
    bad = 0
    for pdu in history:
        try:
            reply, _ = await transport.handle_request(pdu)
        except Exception as e:
            bad += 1
            print(f"request {pdu.hex()}: handle_request raised {e!r}")
        else:
            if reply is not None:
                parse_pdu(reply, service.RawRequest(pdu))
            print(f"request {pdu.hex()}: reply {None if reply is None else reply.hex()}")
        if server.state.session not in server.supported_services:
            bad += 1
            print(f"   -> virtual ECU is now in session {server.state.session:#x}, which it does not offer")

    if bad:
        print("VIOLATION: the virtual ECU left the set of sessions it offers and raises on every later request")
        return 1
    print("ok")
    return 0


sys.exit(asyncio.run(main()))
