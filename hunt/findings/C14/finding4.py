"""C14 finding 4: default rng model behind the real line transport (unix-lines / tcp-lines share
TCPUDSServerTransport.handle_client): one request PDU longer than 32767 bytes makes reader.readline()
raise ValueError (64 KiB StreamReader limit); the handler breaks its loop, never reads again and never
closes the socket, so the connection is dead: every later request on it stays unanswered."""
import asyncio
import os
import sys
import tempfile
from binascii import hexlify, unhexlify

from gallia.services.uds.core import service
from gallia.services.uds.helpers import parse_pdu
from gallia.services.uds.server import RandomUDSServer, UnixUDSServerTransport
from gallia.transports import TargetURI


async def exchange(reader, writer, pdu: bytes, timeout: float = 3.0) -> bytes | None:
    writer.write(hexlify(pdu) + b"\n")
    await writer.drain()
    try:
        line = await asyncio.wait_for(reader.readline(), timeout)
    except TimeoutError:
        return None
    if not line:
        return b""
    return unhexlify(line.strip())


async def main() -> int:
    with tempfile.TemporaryDirectory() as d:
        path = os.path.join(d, "vecu.sock")
        server = RandomUDSServer(0)
        await server.setup()
        vecu = UnixUDSServerTransport(server, TargetURI(f"unix-lines://{path}"))
        task = asyncio.create_task(vecu.run())
        for _ in range(100):
            if os.path.exists(path):
                break
            await asyncio.sleep(0.05)

        # large limit on the client side so that only the server side is under test
        reader, writer = await asyncio.open_unix_connection(path, limit=2**24)
        ping = bytes.fromhex("1001")
        bad = 0

        r = await exchange(reader, writer, ping)
        print(f"request 1001 -> {r.hex() if r else r!r}")
        for n in (32768, 32769):
            pdu = bytes([0x2E, 0x12, 0x34]) + bytes(n - 3)  # WriteDataByIdentifier with a long record
            r = await exchange(reader, writer, pdu)
            print(f"request 2e1234 00*{n - 3} ({n} bytes) -> {r.hex() if r else r!r}")
            if not r:
                bad += 1
            else:
                parse_pdu(r, service.RawRequest(pdu))
            r = await exchange(reader, writer, ping)
            print(f"request 1001 afterwards -> {r.hex() if r else r!r}")
            if not r:
                bad += 1

        writer.close()
        task.cancel()

    if bad:
        print("VIOLATION: a long request killed the connection to the virtual ECU (no answer, later requests unanswered)")
        return 1
    print("ok")
    return 0


def run() -> None:
    # The server side never closes its client sockets, which can make the asyncio shutdown of the
    # listening server wait forever (Server.wait_closed); leave the process directly instead.
    async def wrapper() -> None:
        code = await main()
        sys.stdout.flush()
        os._exit(code)

    asyncio.run(wrapper())


run()
