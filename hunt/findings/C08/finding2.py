"""C08 finding 2: a failed reconnect attempt aborts the UDS retry loop with a raw connection error.

History (transports tcp-lines, unix-lines, HSFZ; cut kind EOF at the frame boundary right after
the request; peer restart delay 0.4 s): the peer closes the connection while the client waits for
the reply and stops listening; 0.4 s later it listens again on the same address and answers correctly.
The client is configured with max_retry=3, i.e. its exponential backoff (0.2 s + 0.4 s + 0.8 s)
covers the restart delay.

Expected (property C08): the loss is reported as a missing response at worst; with retries left the
client keeps retrying and obtains the correct reply 62f190aabbcc once the peer accepts connections again.
Observed: the first reconnect attempt (after 0.2 s) hits the not-yet-listening peer, the
ConnectionRefusedError raised by reconnect_unsafe() inside the `except ConnectionError` handler
escapes request_unsafe() - the remaining retries are never used and the error is not a MissingResponse.
"""

import asyncio
import logging
import os
import struct
import sys
import tempfile

from gallia.services.uds.core import service
from gallia.services.uds.core.client import UDSClient
from gallia.transports.hsfz import HSFZTransport
from gallia.transports.tcp import TCPLinesTransport
from gallia.transports.unix import UnixLinesTransport

REPLY = bytes.fromhex("62f190aabbcc")
RESTART_DELAY = 0.4


def hsfz_frame(cword: int, src: int, dst: int, data: bytes) -> bytes:
    return struct.pack("!IH", len(data) + 2, cword) + bytes([src, dst]) + data


async def run(proto: str) -> bool:
    nconn = 0
    first_cut = asyncio.Event()

    async def handler(r: asyncio.StreamReader, w: asyncio.StreamWriter) -> None:
        nonlocal nconn
        nconn += 1
        n = nconn
        try:
            while True:
                if proto == "hsfz":
                    hdr = await r.readexactly(6)
                    body = await r.readexactly(struct.unpack("!I", hdr[:4])[0])
                    out = hsfz_frame(0x02, 0xF4, 0x10, body[2:][:5]) + hsfz_frame(
                        0x01, 0x10, 0xF4, REPLY
                    )
                else:
                    if not await r.readline():
                        break
                    out = REPLY.hex().encode() + b"\n"
                if n == 1:
                    # connection lost while the client waits for the reply
                    w.close()
                    first_cut.set()
                    return
                w.write(out)
                await w.drain()
        except (asyncio.IncompleteReadError, ConnectionError):
            pass
        w.close()

    path = None
    port = 0

    async def listen() -> asyncio.Server:
        if proto == "unix-lines":
            return await asyncio.start_unix_server(handler, path)
        return await asyncio.start_server(handler, "127.0.0.1", port, reuse_address=True)

    if proto == "unix-lines":
        path = os.path.join(tempfile.mkdtemp(prefix="c08f2"), "ecu.sock")
        srv = await listen()
        tr = await UnixLinesTransport.connect(f"unix-lines://{path}")
    else:
        srv = await listen()
        port = srv.sockets[0].getsockname()[1]
        if proto == "tcp-lines":
            tr = await TCPLinesTransport.connect(f"tcp-lines://127.0.0.1:{port}")
        else:
            tr = await HSFZTransport.connect(f"hsfz://127.0.0.1:{port}?src_addr=0xf4&dst_addr=0x10")

    servers = [srv]

    async def restart_peer() -> None:
        await first_cut.wait()
        servers[0].close()  # peer is down: nobody listens any more
        await asyncio.sleep(RESTART_DELAY)
        servers.append(await listen())  # peer accepts connections again

    restarter = asyncio.create_task(restart_peer())
    client = UDSClient(tr, timeout=1, max_retry=3)
    loop = asyncio.get_running_loop()
    t0 = loop.time()
    ok = False
    try:
        resp = await asyncio.wait_for(
            client.request_unsafe(service.ReadDataByIdentifierRequest(0xF190)), 30
        )
        ok = resp.pdu == REPLY
        outcome = f"reply {resp.pdu.hex()}"
    except BaseException as e:  # noqa: BLE001
        outcome = f"raised {e!r}"
    print(
        f"{proto:10} EOF after request, peer back after {RESTART_DELAY}s, max_retry=3: {outcome} "
        f"after {loop.time() - t0:.2f}s; peer accepted {nconn} connection(s)"
    )
    await restarter
    try:
        await client.transport.close()
    except Exception:  # noqa: BLE001
        pass
    for s in servers:
        s.close()
    return ok


async def main() -> int:
    logging.disable(logging.CRITICAL)
    results = [await run(p) for p in ("tcp-lines", "unix-lines", "hsfz")]
    if all(results):
        print("OK: the client recovered through an automatic reconnect")
        return 0
    print(
        "VIOLATION: one refused reconnect attempt ends the request with a raw ConnectionRefusedError "
        "although retries are left and the peer is back well within the backoff time"
    )
    return 1


if __name__ == "__main__":
    sys.exit(asyncio.run(main()))
