"""C08 finding 1: connection loss right after a ResponsePending (0x78) frame escapes the UDS retry logic.

History (cut point = frame boundary after the 7f2278 frame, cut kind EOF and reset, transports
tcp-lines and HSFZ): the peer answers the request with "requestCorrectlyReceivedResponsePending"
and then closes/resets the connection while the client waits for the final reply. The peer keeps
accepting connections and answers every later request correctly.

Expected (property C08): the loss is reported as a missing response and a client with max_retry >= 1
reconnects automatically and obtains the correct reply 62f190aabbcc.
Observed: UDSClient.request_unsafe() raises a raw BrokenPipeError/ConnectionError, never reconnects
(the peer sees exactly one connection), although one retry is configured.
"""

import asyncio
import logging
import socket
import struct
import sys

from gallia.services.uds.core import service
from gallia.services.uds.core.client import UDSClient
from gallia.transports.hsfz import HSFZTransport
from gallia.transports.tcp import TCPLinesTransport

REQ = bytes.fromhex("22f190")
PENDING = bytes.fromhex("7f2278")
REPLY = bytes.fromhex("62f190aabbcc")


def hsfz_frame(cword: int, src: int, dst: int, data: bytes) -> bytes:
    return struct.pack("!IH", len(data) + 2, cword) + bytes([src, dst]) + data


def cut(w: asyncio.StreamWriter, kind: str) -> None:
    if kind == "reset":
        sock = w.get_extra_info("socket")
        sock.setsockopt(socket.SOL_SOCKET, socket.SO_LINGER, struct.pack("ii", 1, 0))
        w.transport.abort()
    else:
        w.close()


async def run(proto: str, kind: str) -> bool:
    nconn = 0

    async def handler(r: asyncio.StreamReader, w: asyncio.StreamWriter) -> None:
        nonlocal nconn
        nconn += 1
        n = nconn
        try:
            while True:
                if proto == "tcp-lines":
                    line = await r.readline()
                    if not line:
                        break
                    frames = [PENDING.hex().encode() + b"\n", REPLY.hex().encode() + b"\n"]
                    ack = b""
                else:
                    hdr = await r.readexactly(6)
                    body = await r.readexactly(struct.unpack("!I", hdr[:4])[0])
                    ack = hsfz_frame(0x02, 0xF4, 0x10, body[2:][:5])
                    frames = [hsfz_frame(0x01, 0x10, 0xF4, PENDING), hsfz_frame(0x01, 0x10, 0xF4, REPLY)]
                if n == 1:
                    # first connection: ack + ResponsePending, then the connection is lost
                    w.write(ack + frames[0])
                    await w.drain()
                    await asyncio.sleep(0.05)
                    cut(w, kind)
                    return
                # every later connection behaves correctly
                w.write(ack + frames[0] + frames[1])
                await w.drain()
        except (asyncio.IncompleteReadError, ConnectionError):
            pass
        w.close()

    srv = await asyncio.start_server(handler, "127.0.0.1", 0)
    port = srv.sockets[0].getsockname()[1]
    if proto == "tcp-lines":
        tr = await TCPLinesTransport.connect(f"tcp-lines://127.0.0.1:{port}")
    else:
        tr = await HSFZTransport.connect(f"hsfz://127.0.0.1:{port}?src_addr=0xf4&dst_addr=0x10")
    client = UDSClient(tr, timeout=1, max_retry=1)
    loop = asyncio.get_running_loop()
    t0 = loop.time()
    ok = False
    try:
        resp = await asyncio.wait_for(
            client.request_unsafe(service.ReadDataByIdentifierRequest(0xF190)), 30
        )
        ok = resp.pdu == REPLY
        outcome = f"reply {resp.pdu.hex()}"
    except BaseException as e:  # noqa: BLE001
        outcome = f"raised {e!r}"
    print(
        f"{proto:9} cut={kind:5} after ResponsePending, max_retry=1: {outcome} after "
        f"{loop.time() - t0:.2f}s; peer accepted {nconn} connection(s)"
    )
    try:
        await client.transport.close()
    except Exception:  # noqa: BLE001
        pass
    srv.close()
    return ok


async def main() -> int:
    logging.disable(logging.CRITICAL)
    results = []
    for proto in ("tcp-lines", "hsfz"):
        for kind in ("eof", "reset"):
            results.append(await run(proto, kind))
    if all(results):
        print("OK: every loss after ResponsePending was recovered through a reconnect")
        return 0
    print(
        "VIOLATION: a connection loss after ResponsePending is neither reported as MissingResponse "
        "nor retried with a reconnect"
    )
    return 1


if __name__ == "__main__":
    sys.exit(asyncio.run(main()))
