"""C08 finding 4: BaseTransport.reconnect(timeout) does not retry when a unix-lines peer is restarting.

History (transport unix-lines, cut kind EOF on the established connection, peer restart delay 0.5 s):
the peer goes down the way a cleanly stopping unix socket server does - it closes the connection,
stops listening and removes its socket path - and 0.5 s later binds the same path again and
answers correctly. The client calls transport.reconnect(timeout=5), whose contract is "attempts to
reconnect every 100 ms until at max timeout".

Expected (property C08): the reconnect loop keeps trying until the peer accepts connections again
(~0.5 s) and the following request obtains the correct reply. The sibling case where the socket path
still exists (ConnectionRefusedError) and the tcp-lines transport behave like that.
Observed: connect() fails with FileNotFoundError, which is an OSError but no ConnectionError, so
the `except ConnectionError` of the reconnect loop does not catch it: reconnect(timeout=5) fails
immediately (0.00 s), no retry happens, the peer is never contacted again. Through
UDSClient.request_unsafe() the same error escapes as a raw FileNotFoundError.
"""

import asyncio
import logging
import os
import sys
import tempfile

from gallia.transports.unix import UnixLinesTransport

REQ = bytes.fromhex("22f190")
REPLY = bytes.fromhex("62f190aabbcc")
RESTART_DELAY = 0.5


async def run(remove_path: bool) -> bool:
    nconn = 0
    writers = []

    async def handler(r: asyncio.StreamReader, w: asyncio.StreamWriter) -> None:
        nonlocal nconn
        nconn += 1
        writers.append(w)
        try:
            while await r.readline():
                w.write(REPLY.hex().encode() + b"\n")
                await w.drain()
        except ConnectionError:
            pass
        w.close()

    path = os.path.join(tempfile.mkdtemp(prefix="c08f4"), "ecu.sock")
    srv = await asyncio.start_unix_server(handler, path)
    tr = await UnixLinesTransport.connect(f"unix-lines://{path}")
    assert await tr.request_unsafe(REQ, 1) == REPLY

    # The peer goes down: connection closed (EOF), no listener, socket path removed
    srv.close()
    for w in writers:
        w.close()
    if remove_path and os.path.exists(path):
        os.unlink(path)
    lost = await tr.read(1)  # the pending read ends with the explicit end-of-stream result b""

    servers = []

    async def restart_peer() -> None:
        await asyncio.sleep(RESTART_DELAY)
        servers.append(await asyncio.start_unix_server(handler, path))

    restarter = asyncio.create_task(restart_peer())
    loop = asyncio.get_running_loop()
    t0 = loop.time()
    ok = False
    new = None
    try:
        new = await asyncio.wait_for(tr.reconnect(timeout=5), 30)
        reply = await new.request_unsafe(REQ, 1)
        ok = reply == REPLY
        outcome = f"reconnected, reply {reply.hex()}"
    except BaseException as e:  # noqa: BLE001
        outcome = f"raised {e!r}"
    print(
        f"unix-lines, socket path {'removed' if remove_path else 'kept   '} while peer is down for "
        f"{RESTART_DELAY}s (read after loss -> {lost!r}); reconnect(timeout=5): {outcome} after "
        f"{loop.time() - t0:.2f}s; peer accepted {nconn} connection(s)"
    )
    await restarter
    for t in (tr, new):
        if t is not None:
            await t.close()
            await t.close()
    for s in servers:
        s.close()
    return ok


async def main() -> int:
    logging.disable(logging.CRITICAL)
    kept = await run(remove_path=False)
    removed = await run(remove_path=True)
    if kept and removed:
        print("OK: reconnect() retried until the peer was back")
        return 0
    print(
        "VIOLATION: reconnect(timeout=5) gives up at once with FileNotFoundError instead of retrying "
        "until the restarting unix-lines peer accepts connections again"
    )
    return 1


if __name__ == "__main__":
    sys.exit(asyncio.run(main()))
