"""C08 finding 3: ECU.wait_for_ecu() gives up with a raw ConnectionRefusedError while the peer restarts.

History (transports tcp-lines and HSFZ, cut kind EOF on an idle connection = ECU/gateway reset,
peer restart delay 1.5 s): the peer closes the connection and stops listening; 1.5 s later it listens
again on the same address and answers TesterPresent correctly. The client calls
ECU.wait_for_ecu(timeout=8), the helper that exists to wait until a restarting ECU answers again.

Expected (property C08): the connection loss is converted into retries with reconnects; once the
peer accepts connections again the ping is answered, wait_for_ecu() returns True (well within 8 s).
Observed: the first ping fails with MissingResponse caused by a ConnectionError,
_wait_for_ecu_endless_loop() calls self.reconnect() inside its `except` handler, the single
connection attempt is refused because the peer is still down, and the ConnectionRefusedError escapes
the "endless" loop and wait_for_ecu() after ~0.5 s. The peer is never contacted again.
"""

import asyncio
import logging
import struct
import sys

from gallia.services.uds.ecu import ECU
from gallia.transports.hsfz import HSFZTransport
from gallia.transports.tcp import TCPLinesTransport

RESTART_DELAY = 1.5


def hsfz_frame(cword: int, src: int, dst: int, data: bytes) -> bytes:
    return struct.pack("!IH", len(data) + 2, cword) + bytes([src, dst]) + data


def uds_reply(req: bytes) -> bytes:
    if req[:1] == b"\x3e":
        return b"\x7e" + req[1:2]
    return bytes([0x7F, req[0], 0x11])


async def run(proto: str) -> bool:
    nconn = 0
    first_cut = asyncio.Event()

    async def handler(r: asyncio.StreamReader, w: asyncio.StreamWriter) -> None:
        nonlocal nconn
        nconn += 1
        if nconn == 1:
            # ECU reset: the idle connection is closed by the peer
            await asyncio.sleep(0.05)
            w.close()
            first_cut.set()
            return
        try:
            while True:
                if proto == "hsfz":
                    hdr = await r.readexactly(6)
                    body = await r.readexactly(struct.unpack("!I", hdr[:4])[0])
                    req = body[2:]
                    out = hsfz_frame(0x02, 0xF4, 0x10, req[:5]) + hsfz_frame(
                        0x01, 0x10, 0xF4, uds_reply(req)
                    )
                else:
                    line = await r.readline()
                    if not line:
                        break
                    out = uds_reply(bytes.fromhex(line.decode().strip())).hex().encode() + b"\n"
                w.write(out)
                await w.drain()
        except (asyncio.IncompleteReadError, ConnectionError):
            pass
        w.close()

    srv = await asyncio.start_server(handler, "127.0.0.1", 0, reuse_address=True)
    port = srv.sockets[0].getsockname()[1]
    if proto == "tcp-lines":
        tr = await TCPLinesTransport.connect(f"tcp-lines://127.0.0.1:{port}")
    else:
        tr = await HSFZTransport.connect(f"hsfz://127.0.0.1:{port}?src_addr=0xf4&dst_addr=0x10")
    servers = [srv]

    async def restart_peer() -> None:
        await first_cut.wait()
        servers[0].close()  # peer is down: nobody listens any more
        await asyncio.sleep(RESTART_DELAY)
        servers.append(
            await asyncio.start_server(handler, "127.0.0.1", port, reuse_address=True)
        )  # peer accepts connections again

    restarter = asyncio.create_task(restart_peer())
    ecu = ECU(tr, timeout=1, max_retry=1)
    await first_cut.wait()
    loop = asyncio.get_running_loop()
    t0 = loop.time()
    ok = False
    try:
        ready = await asyncio.wait_for(ecu.wait_for_ecu(timeout=8), 30)
        ok = ready is True
        outcome = f"returned {ready}"
    except BaseException as e:  # noqa: BLE001
        outcome = f"raised {e!r}"
    print(
        f"{proto:9} peer down for {RESTART_DELAY}s, wait_for_ecu(timeout=8): {outcome} after "
        f"{loop.time() - t0:.2f}s; peer accepted {nconn} connection(s)"
    )
    await restarter
    try:
        await ecu.transport.close()
    except Exception:  # noqa: BLE001
        pass
    for s in servers:
        s.close()
    return ok


async def main() -> int:
    logging.disable(logging.CRITICAL)
    results = [await run(p) for p in ("tcp-lines", "hsfz")]
    if all(results):
        print("OK: wait_for_ecu() survived the restart of the peer")
        return 0
    print(
        "VIOLATION: wait_for_ecu() aborts with a raw ConnectionRefusedError on the first refused "
        "reconnect instead of waiting until the peer accepts connections again"
    )
    return 1


if __name__ == "__main__":
    sys.exit(asyncio.run(main()))
