"""C06 finding 4: frames other than the awaited one are lost when a read() ends with its timeout.

read_diag_request_raw() collects every frame it does not want (acknowledgements, diagnostic
messages of another address pair, ...) in a local list and puts them back into the read queue only
when it finally returns a matching diagnostic message. If DoIPTransport.read(timeout) is cancelled
by its timeout (the normal way a read without answer ends), the list is dropped.

Gateway frames: F = DiagnosticMessage 0x4321 -> source (another ECU answering, e.g. functional
addressing), D = DiagnosticMessage target -> source.
  control:  read(timeout=1.0)   F at 0.1 s, D at 0.2 s   -> read returns D, F is back in the queue
  failing:  read(timeout=0.3)   F at 0.1 s               -> TimeoutError
            read(timeout=1.0)   D at 0.5 s               -> D;   F must still be in the queue
The queue is inspected with the public DoIPConnection.read_frame().

Run: cd <worktree> && PYTHONPATH=<worktree>/src /venv/bin/python finding4.py
"""
import asyncio
import logging
import struct
import sys

from gallia.transports import doip as D
from gallia.transports.base import TargetURI

logging.disable(logging.CRITICAL)
SRC, TGT, OTHER = 0x0E00, 0x1234, 0x4321
F = bytes.fromhex("7e00")
RESP = bytes.fromhex("62f19041")


class FakeWriter:
    """In-memory replacement of the asyncio.StreamWriter of the TCP connection."""

    def write(self, b):
        pass

    async def drain(self):
        pass

    def close(self):
        pass

    async def wait_closed(self):
        pass


def frame(pt, payload, ver=3):
    return struct.pack("!BBHL", ver, ver ^ 0xFF, pt, len(payload)) + payload


def diag(sa, ta, data):
    return frame(0x8001, struct.pack("!HH", sa, ta) + data)


async def run(first_timeout: float, d_at: float):
    reader = asyncio.StreamReader()
    conn = D.DoIPConnection(reader, FakeWriter(), SRC, TGT, 3)
    uri = TargetURI(f"doip://127.0.0.1:13400?src_addr={SRC:#x}&target_addr={TGT:#x}")
    tr = D.DoIPTransport(uri, 13400, D.DoIPConfig(**uri.qs_flat), conn)

    async def gateway():
        await asyncio.sleep(0.1)
        reader.feed_data(diag(OTHER, SRC, F))
        await asyncio.sleep(d_at - 0.1)
        reader.feed_data(diag(TGT, SRC, RESP))

    g = asyncio.create_task(gateway())
    reads = []
    for timeout in (first_timeout, 1.0):
        try:
            reads.append(await tr.read(timeout=timeout))
            break
        except TimeoutError as e:
            reads.append(e)
    await g
    try:
        _, left = await asyncio.wait_for(conn.read_frame(), 0.5)
    except TimeoutError as e:
        left = e
    await conn.close()
    return reads, left


async def main() -> int:
    reads0, left0 = await run(first_timeout=1.0, d_at=0.2)
    print(f"control: reads -> {reads0!r}; frame left in the queue -> {left0!r}")
    reads1, left1 = await run(first_timeout=0.3, d_at=0.5)
    print(f"failing: reads -> {reads1!r}; frame left in the queue -> {left1!r}")

    def is_f(x):
        return isinstance(x, D.DiagnosticMessage) and (x.SourceAddress, x.TargetAddress, x.UserData) == (OTHER, SRC, F)

    if reads0 != [RESP] or not is_f(left0):
        print("harness problem: control run did not behave")
        return 2
    if reads1[-1] == RESP and is_f(left1):
        print("OK: the foreign frame survived the timed out read")
        return 0
    print(
        f"VIOLATION: the foreign diagnostic message {OTHER:#x}->{SRC:#x} {F.hex()} received during a read() "
        "which ended with TimeoutError is gone: it is neither delivered nor in DoIPConnection._read_queue"
    )
    return 1


sys.exit(asyncio.run(main()))
