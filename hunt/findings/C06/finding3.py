"""C06 finding 3: a routing activation response that carries the SUCCESS code (0x10) together with
the optional 4 byte OEM specific field (ISO 13400-2: payload length 13 instead of 9) does not
yield a usable connection: RoutingActivationResponse.unpack() raises struct.error inside the
reader task, the reader dies, the connection is closed and DoIPTransport.connect() fails.

A real TCP server on 127.0.0.1 (ephemeral port) plays the gateway.
Control: the same response without the OEM field (9 bytes) -> connect succeeds.

Run: cd <worktree> && PYTHONPATH=<worktree>/src /venv/bin/python finding3.py
"""
import asyncio
import logging
import struct
import sys

from gallia.transports import doip as D

logging.disable(logging.CRITICAL)
SRC, TGT, GW = 0x0E00, 0x1234, 0x1000


def frame(pt, payload, ver=3):
    return struct.pack("!BBHL", ver, ver ^ 0xFF, pt, len(payload)) + payload


async def attempt(oem_field: bytes):
    seen = {}

    async def gateway(rd, wr):
        try:
            hdr = await rd.readexactly(8)
            _, _, pt, ln = struct.unpack("!BBHL", hdr)
            seen["request"] = (pt, await rd.readexactly(ln))
            # tester address, gateway address, code 0x10 = success, reserved by ISO, [OEM specific]
            wr.write(frame(0x0006, struct.pack("!HHBI", SRC, GW, 0x10, 0) + oem_field))
            # the connection is active now: the target sends one diagnostic message
            wr.write(frame(0x8001, struct.pack("!HH", TGT, SRC) + b"\x7e\x00"))
            await wr.drain()
            await rd.read(1)
        except Exception:
            pass
        finally:
            wr.close()

    srv = await asyncio.start_server(gateway, "127.0.0.1", 0)
    port = srv.sockets[0].getsockname()[1]
    uri = f"doip://127.0.0.1:{port}?src_addr={SRC:#x}&target_addr={TGT:#x}&activation_type=0x00"
    try:
        tr = await D.DoIPTransport.connect(uri, timeout=5)
        data = await tr.read(timeout=2)
        await tr.close()
        res = ("usable", data)
    except Exception as e:
        res = ("failed", e)
    srv.close()
    await srv.wait_closed()
    return res


async def main() -> int:
    ctrl = await attempt(b"")
    print(f"success response,  9 byte payload (no OEM field): {ctrl!r}")
    oem = await attempt(b"\x00\x00\x00\x00")
    print(f"success response, 13 byte payload (OEM field)   : {oem!r}")
    if ctrl != ("usable", b"\x7e\x00"):
        print("harness problem: control run did not behave")
        return 2
    if oem == ("usable", b"\x7e\x00"):
        print("OK: connection usable after a success response")
        return 0
    print(
        "VIOLATION: the gateway answered the routing activation request with the success code 0x10, "
        "yet the connection is not usable (connect() raised); struct.unpack('!HHBI') in "
        "RoutingActivationResponse.unpack only accepts exactly 9 bytes"
    )
    return 1


sys.exit(asyncio.run(main()))
