"""C06 finding 2: diagnostic messages which were received completely (parsed and queued by the
reader task) before the gateway closed the TCP connection are never delivered: read() raises
ConnectionError without looking into the read queue.

A real TCP server on 127.0.0.1 (ephemeral port) plays the gateway:
    routing activation (success), then on the diagnostic request M it sends
    PositiveAck(M), DiagnosticMessage target->source D          and
      - control run: keeps the connection open
      - failing run: closes the connection right after D (e.g. positive response to ECUReset,
        then the gateway drops the connection)
Client (strictly sequential): write(M); 0.2 s later: read(timeout=1)
D is on the wire, complete, in front of the FIN in both runs, so read() has to deliver it in both.

Run: cd <worktree> && PYTHONPATH=<worktree>/src /venv/bin/python finding2.py
"""
import asyncio
import logging
import struct
import sys

from gallia.transports import doip as D

logging.disable(logging.CRITICAL)
SRC, TGT, GW = 0x0E00, 0x1234, 0x1000
M = bytes.fromhex("1101")
RESP = bytes.fromhex("5101")


def frame(pt, payload, ver=3):
    return struct.pack("!BBHL", ver, ver ^ 0xFF, pt, len(payload)) + payload


async def rx(rd):
    _, _, pt, ln = struct.unpack("!BBHL", await rd.readexactly(8))
    return pt, await rd.readexactly(ln)


async def run(close_after_response: bool):
    async def gateway(rd, wr):
        try:
            await rx(rd)  # routing activation request
            wr.write(frame(0x0006, struct.pack("!HHBI", SRC, GW, 0x10, 0)))
            await wr.drain()
            await rx(rd)  # diagnostic message M
            wr.write(frame(0x8002, struct.pack("!HHB", TGT, SRC, 0) + M))
            wr.write(frame(0x8001, struct.pack("!HH", TGT, SRC) + RESP))
            await wr.drain()
            if not close_after_response:
                await rd.read(1)  # wait until the client closes
        except Exception:
            pass
        finally:
            wr.close()

    srv = await asyncio.start_server(gateway, "127.0.0.1", 0)
    port = srv.sockets[0].getsockname()[1]
    tr = await D.DoIPTransport.connect(
        f"doip://127.0.0.1:{port}?src_addr={SRC:#x}&target_addr={TGT:#x}", timeout=5
    )
    try:
        w = await tr.write(M)
    except Exception as e:
        w = e
    await asyncio.sleep(0.2)  # the client is busy with something else
    queue = list(tr._conn._read_queue._queue)
    try:
        r = await tr.read(timeout=1)
    except Exception as e:
        r = e
    await tr.close()
    srv.close()
    await srv.wait_closed()
    return w, r, queue


async def main() -> int:
    w0, r0, _ = await run(close_after_response=False)
    print(f"control (gateway keeps the connection open): write -> {w0!r}, read -> {r0!r}")
    w1, r1, q1 = await run(close_after_response=True)
    print(f"gateway closes after ACK and D:              write -> {w1!r}, read -> {r1!r}")
    print(f"read queue at the time read() was called: {q1}")
    if r0 != RESP or w0 != len(M):
        print("harness problem: control run did not behave")
        return 2
    if w1 == len(M) and r1 == RESP:
        print("OK: the diagnostic message received before the EOF was delivered")
        return 0
    print(
        "VIOLATION: the target sent the diagnostic message "
        f"{RESP.hex()} to the source and it sits in DoIPConnection._read_queue, but read() raises "
        "ConnectionError because read_frame_unsafe() checks _is_closed before looking into the queue"
    )
    return 1


sys.exit(asyncio.run(main()))
