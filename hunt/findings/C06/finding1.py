"""C06 finding 1: a diagnostic message that overtakes the acknowledgement is thrown away
when the acknowledgement wait of DoIPTransport.write(data, timeout) is cancelled by its timeout.

History (all frames are from the gateway alphabet, client is strictly sequential):
  t=0.00  client: write(M, timeout=0.3)                    (ack phase begins)
  t=0.05  gateway: DiagnosticMessage target->source  D      (the response overtakes the ACK)
  t=0.30  client: write raises TimeoutError                 (connection stays open)
  t=0.60  gateway: DiagnosticMessagePositiveAcknowledgement for M (late)
  t=0.30+ client: read(timeout=1.5)   -> must deliver D

Run: cd <worktree> && PYTHONPATH=<worktree>/src /venv/bin/python finding1.py
"""
import asyncio
import logging
import struct
import sys

from gallia.transports import doip as D
from gallia.transports.base import TargetURI

logging.disable(logging.CRITICAL)
SRC, TGT = 0x0E00, 0x1234


class FakeWriter:
    """In-memory replacement of the asyncio.StreamWriter of the TCP connection."""

    def __init__(self):
        self.out = []

    def write(self, b):
        self.out.append(bytes(b))

    async def drain(self):
        pass

    def close(self):
        pass

    async def wait_closed(self):
        pass


def frame(pt, payload, ver=3):
    return struct.pack("!BBHL", ver, ver ^ 0xFF, pt, len(payload)) + payload


def diag(sa, ta, data):
    return frame(0x8001, struct.pack("!HH", sa, ta) + data)


def ack(sa, ta, prev):
    return frame(0x8002, struct.pack("!HHB", sa, ta, 0) + prev)


async def main() -> int:
    reader = asyncio.StreamReader()
    writer = FakeWriter()
    conn = D.DoIPConnection(reader, writer, SRC, TGT, 3)
    uri = TargetURI(f"doip://127.0.0.1:13400?src_addr={SRC:#x}&target_addr={TGT:#x}")
    tr = D.DoIPTransport(uri, 13400, D.DoIPConfig(**uri.qs_flat), conn)

    M = bytes.fromhex("22f190")
    RESP = bytes.fromhex("62f1904142")

    async def gateway():
        await asyncio.sleep(0.05)
        reader.feed_data(diag(TGT, SRC, RESP))
        await asyncio.sleep(0.55)
        reader.feed_data(ack(TGT, SRC, M))

    g = asyncio.create_task(gateway())
    try:
        await tr.write(M, timeout=0.3)
        print("write: completed")
    except Exception as e:  # TimeoutError is what the caller asked for
        print(f"write(M, timeout=0.3): raised {e!r}; connection closed: {conn._is_closed}")

    try:
        got = await tr.read(timeout=1.5)
    except Exception as e:
        got = e
    await g
    print(f"read(timeout=1.5): {got!r}")
    print(f"read queue afterwards: {list(conn._read_queue._queue)}")
    await conn.close()
    if got == RESP:
        print("OK: the diagnostic message target->source was delivered")
        return 0
    print(
        "VIOLATION: the gateway sent the diagnostic message "
        f"{RESP.hex()} from target {TGT:#x} to source {SRC:#x} on a connection that is still open, "
        "but no read ever delivers it: _read_ack had set it aside in a local list which is "
        "discarded when the wait is cancelled"
    )
    return 1


sys.exit(asyncio.run(main()))
