"""C18 finding 3: options declared in a config class without a config_section (all command specific
options) are nevertheless looked up in gallia.toml - under the literal table name "None"
(GalliaBaseModel.attributes_from_config formats f"{info.config_section}.{name}" with config_section=None).
So `[None] sniff_time = 7` silently configures `discover uds isotp`, the parser help/error even quotes the
source as "config file (None:sniff_time)", but `--template` (built from the registry, which skips
config_section None) lists none of these file-configurable options.  Exit 1 if observed, 0 otherwise."""
import contextlib
import io
import os
import re
import sys
import tempfile

import gallia.command  # noqa: F401  (resolves the import cycle)
from gallia.cli.gallia import create_parser, template
from gallia.command.config import ConfigArgFieldInfo
from gallia.plugins.plugin import CommandTree, load_commands
from gallia.pydantic_argparse.utils.pydantic import PydanticField


def parse(cmd, argv, toml=""):
    with tempfile.NamedTemporaryFile("w", suffix=".toml", delete=False) as f:
        f.write(toml)
    old = dict(os.environ)
    for k in list(os.environ):
        if k.startswith("GALLIA_"):
            del os.environ[k]
    os.environ["GALLIA_CONFIG"] = f.name
    err = io.StringIO()
    try:
        with contextlib.redirect_stderr(err):
            _, cfg = create_parser(cmd).parse_typed_args(argv)
        return cfg, ""
    except SystemExit:
        return None, err.getvalue().strip().splitlines()[-1]
    finally:
        os.environ.clear()
        os.environ.update(old)
        os.unlink(f.name)


def walk(tree, path=()):
    for k, v in tree.items():
        if isinstance(v, CommandTree):
            yield from walk(v.subtree, (*path, k))
        else:
            yield (*path, k), v


# keys the template lists (active or commented)
buf = io.StringIO()
with contextlib.redirect_stdout(buf):
    template()
keys, sec = set(), ""
for line in buf.getvalue().splitlines():
    if m := re.match(r"\[(.*)\]$", line):
        sec = m.group(1)
    elif m := re.match(r"(?:# )?(\w+) = ", line):
        keys.add(f"{sec}.{m.group(1)}" if sec else m.group(1))
print(f"template lists {len(keys)} keys; tables: {sorted({k.rsplit('.', 1)[0] for k in keys})}")

commands = dict(walk(load_commands()))
violations = 0

# three concrete options, different types, exercised through the real parser
cases = [
    (("discover", "uds", "isotp"), ["--target", "can-raw://vcan0", "--start", "0x700", "--stop", "0x7ff"], "sniff_time", "7", 7),
    (("scan", "uds", "sessions"), ["--target", "tcp-lines://127.0.0.1:2001"], "with_hooks", "true", True),
    (("primitive", "uds", "ping"), ["--target", "tcp-lines://127.0.0.1:2001"], "interval", "9.5", 9.5),
]
for path, argv, name, lit, want in cases:
    cmd = commands[path]
    default = cmd.CONFIG_TYPE.model_fields[name].default
    cfg, err = parse(cmd, argv, toml=f"[None]\n{name} = {lit}\n")
    got = getattr(cfg, name) if cfg else err
    listed = [k for k in keys if k.endswith("." + name) or k == name]
    print(f"{' '.join(path)}: default {name}={default!r}; with '[None] {name} = {lit}' in gallia.toml -> {got!r}; "
          f"template keys for it: {listed}")
    if cfg is not None and got == want and got != default and not listed:
        violations += 1

# the error text even names the bogus key as the source
cmd = commands[("discover", "uds", "isotp")]
cfg, err = parse(cmd, ["--target", "can-raw://vcan0", "--start", "0x700", "--stop", "0x7ff"], toml='[None]\nsniff_time = "soon"\n')
print("invalid value under [None]:", err if cfg is None else "accepted")

# systematic: every option the file lookup would serve vs. the template
unlisted = {}
for path, cmd in commands.items():
    probe = {}
    for name, info in cmd.CONFIG_TYPE.model_fields.items():
        if isinstance(info, ConfigArgFieldInfo) and not info.hidden:
            probe[name] = info
    # ask the real lookup which keys it honours: offer a value under every candidate table
    from gallia.config import Config

    tables = {}
    for name, info in probe.items():
        tables.setdefault(str(info.config_section), {})[name] = "x"
    conf = {}
    for t, kv in tables.items():
        node = conf
        for part in t.split("."):
            node = node.setdefault(part, {})
        node.update(kv)
    for name, (source, _) in cmd.CONFIG_TYPE.attributes_from_config(Config(conf)).items():
        key = f"{probe[name].config_section}.{name}"
        if key not in keys:
            unlisted.setdefault(key, []).append(" ".join(path))
print(f"{len(unlisted)} file-configurable options are missing from the template, e.g.:")
for k in sorted(unlisted)[:8]:
    print(f"   {k}   ({', '.join(unlisted[k][:2])})")

if violations or unlisted:
    print("\nVIOLATION")
    sys.exit(1)
print("\nno violation")
