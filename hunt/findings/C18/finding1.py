"""C18 finding 1: options whose type is an Annotated alias (Idempotent[TargetURI], AutoInt, HexBytes,
Ranges, EnumArg, ...) lose their ConfigArgFieldInfo during model construction.  Consequences:
  * their value is never taken from gallia.toml or GALLIA_<NAME> (e.g. [gallia.scanner] target, GALLIA_TARGET),
    an invalid env value is silently ignored, although --template advertises gallia.scanner.target;
  * the positional / short flags declared for them are lost on the CLI.
Exit 1 if the violation is observed, 0 otherwise."""
import contextlib
import io
import os
import sys
import tempfile

import gallia.command  # noqa: F401  (resolves the import cycle)
from gallia.cli.gallia import create_parser, template
from gallia.command.config import ConfigArgFieldInfo
from gallia.commands.fuzz.uds.pdu import PDUFuzzer
from gallia.commands.primitive.uds.rdbi import ReadByIdentifierPrimitive
from gallia.commands.scan.uds.services import ServicesScanner


def parse(cmd, argv, env=None, toml=""):
    with tempfile.NamedTemporaryFile("w", suffix=".toml", delete=False) as f:
        f.write(toml)
    old = dict(os.environ)
    for k in list(os.environ):
        if k.startswith("GALLIA_"):
            del os.environ[k]
    os.environ["GALLIA_CONFIG"] = f.name
    os.environ.update(env or {})
    err = io.StringIO()
    try:
        with contextlib.redirect_stderr(err):
            _, cfg = create_parser(cmd).parse_typed_args(argv)
        return cfg, ""
    except SystemExit:
        return None, err.getvalue().strip().splitlines()[-1]
    finally:
        os.environ.clear()
        os.environ.update(old)
        os.unlink(f.name)


bad = []


def check(label, ok, detail):
    print(("ok   " if ok else "FAIL ") + label + ": " + detail)
    if not ok:
        bad.append(label)


# 0. the metadata itself
for cmd, name in ((ServicesScanner, "target"), (ReadByIdentifierPrimitive, "data_identifier"),
                  (ReadByIdentifierPrimitive, "session"), (PDUFuzzer, "iterations")):
    info = cmd.CONFIG_TYPE.model_fields[name]
    check(f"metadata {cmd.CONFIG_TYPE.__name__}.{name}", isinstance(info, ConfigArgFieldInfo),
          f"model_fields entry is {type(info).__name__}")

FILE = '[gallia.scanner]\ntarget = "tcp-lines://127.0.0.1:2001"\n'

# 1. file -> value
cfg, err = parse(ServicesScanner, [], toml=FILE)
check("file only: [gallia.scanner] target", cfg is not None and cfg.target.raw == "tcp-lines://127.0.0.1:2001",
      f"target={cfg.target.raw!r}" if cfg else f"parser error: {err}")

# 2. env -> value, env beats file
cfg, err = parse(ServicesScanner, [], env={"GALLIA_TARGET": "tcp-lines://127.0.0.1:2002"}, toml=FILE)
check("env over file: GALLIA_TARGET", cfg is not None and cfg.target.raw == "tcp-lines://127.0.0.1:2002",
      f"target={cfg.target.raw!r}" if cfg else f"parser error: {err}")

# 3. AutoInt option from env (default 1)
T = ["--target", "tcp-lines://127.0.0.1:2003"]
rd = ReadByIdentifierPrimitive.CONFIG_TYPE.model_fields["data_identifier"]
did_cli = ["0x1234"] if getattr(rd, "positional", False) else ["--data-identifier", "0x1234"]
cfg, err = parse(ReadByIdentifierPrimitive, T + did_cli, env={"GALLIA_SESSION": "0x03"})
check("env only: GALLIA_SESSION=0x03 (AutoInt)", cfg is not None and cfg.session == 3,
      f"session={cfg.session!r}" if cfg else f"parser error: {err}")

# 4. invalid env value must be rejected, not ignored
cfg, err = parse(ReadByIdentifierPrimitive, T + did_cli, env={"GALLIA_SESSION": "not-a-number"})
check("invalid env value GALLIA_SESSION=not-a-number is rejected naming its source",
      cfg is None and "GALLIA_SESSION" in err,
      f"accepted, session={cfg.session!r}" if cfg else err)

# 5. declared CLI shape: positional data identifier, short -i
cfg, err = parse(ReadByIdentifierPrimitive, T + ["0x1234"])
check("positional: rdbi 0x1234 (Field(positional=True))", cfg is not None and cfg.data_identifier == 0x1234,
      f"data_identifier={cfg.data_identifier!r}" if cfg else f"parser error: {err}")
cfg, err = parse(PDUFuzzer, T + ["--dids", "0x1000", "-i", "5"])
check("short: fuzz uds pdu -i 5 (Field(short='i'))", cfg is not None and cfg.iterations == 5,
      f"iterations={cfg.iterations!r}" if cfg else f"parser error: {err}")

# 6. the template nevertheless advertises the key
buf = io.StringIO()
with contextlib.redirect_stdout(buf):
    template()
sec = buf.getvalue().split("[gallia.scanner]")[1]
print("template lists gallia.scanner.target:", "target = ..." in sec)

if bad:
    print(f"\nVIOLATION: {len(bad)} checks failed")
    sys.exit(1)
print("\nno violation")
