"""C18 finding 2: the stored configuration of `primitive uds dddi identifier` / `dddi memory` cannot be
fed back to the command.  The `sources` option is a list of tuples; model_dump_json() (META.json, run_meta
table) stores every tuple as a JSON list, but the before-validator parse_definitions() only accepts a
tuple or a string and calls .split() on anything else -> AttributeError in CONFIG_TYPE(**stored_config),
exactly what Rerunner.main does.  Exit 1 if the violation is observed, 0 otherwise."""
import contextlib
import io
import json
import os
import sys
import tempfile

import gallia.command  # noqa: F401  (resolves the import cycle)
from gallia.cli.gallia import create_parser
from gallia.commands.primitive.uds.dddi import (
    DefineByIdentifierDDDIPrimitive,
    DefineByMemoryAddressDDDIPrimitive,
)
from gallia.pydantic_argparse.utils.pydantic import PydanticField


def parse(cmd, argv):
    with tempfile.NamedTemporaryFile("w", suffix=".toml", delete=False) as f:
        f.write("")
    old = dict(os.environ)
    for k in list(os.environ):
        if k.startswith("GALLIA_"):
            del os.environ[k]
    os.environ["GALLIA_CONFIG"] = f.name
    err = io.StringIO()
    try:
        with contextlib.redirect_stderr(err):
            _, cfg = create_parser(cmd).parse_typed_args(argv)
        return cfg
    except SystemExit:
        print("unexpected parser error:", err.getvalue())
        sys.exit(2)
    finally:
        os.environ.clear()
        os.environ.update(old)
        os.unlink(f.name)


def tokens(cmd, name, *values):
    """CLI tokens for an option, positional or named, whatever the parser generated."""
    info = cmd.CONFIG_TYPE.model_fields[name]
    names = PydanticField(name, info).arg_names()
    if getattr(info, "positional", False):
        return list(values)
    return [names[-1], *values]


violations = 0
for cmd, sources in (
    (DefineByIdentifierDDDIPrimitive, ["0x1000:1:2", "0x1001:1:4"]),
    (DefineByMemoryAddressDDDIPrimitive, ["0x20000000:4"]),
):
    argv = tokens(cmd, "target", "tcp-lines://127.0.0.1:2001")
    argv += tokens(cmd, "data_identifier", "0xf300") + tokens(cmd, "sources", *sources)
    cfg = parse(cmd, argv)
    print(f"{cmd.__name__}: parsed sources = {cfg.sources!r}")

    # what BaseCommand.__init__ puts into META.json / DBHandler.insert_run_meta into the database
    stored = json.loads(cfg.model_dump_json())
    print(f"  stored config['sources'] = {stored['sources']!r}")

    # what Rerunner.main does with it
    try:
        again = cmd.CONFIG_TYPE(**stored)
    except Exception as e:  # noqa: BLE001
        print(f"  VIOLATION: CONFIG_TYPE(**stored) raised {type(e).__name__}: {e}")
        violations += 1
        continue

    if again.model_dump_json() != cfg.model_dump_json() or again.sources != cfg.sources:
        print(f"  VIOLATION: reloaded config differs: {again.sources!r}")
        violations += 1
    else:
        print("  ok: reloaded config is equal")

# end to end: META.json written by the command, read back by `gallia script rerun --file META.json`
import asyncio  # noqa: E402

from gallia.commands.script.rerun import Rerunner, RerunnerConfig  # noqa: E402

cmd = DefineByIdentifierDDDIPrimitive
argv = tokens(cmd, "target", "tcp-lines://127.0.0.1:2001")
argv += tokens(cmd, "data_identifier", "0xf300") + tokens(cmd, "sources", "0x1000:1:2")
command = cmd(parse(cmd, argv))
with tempfile.TemporaryDirectory() as d:
    meta = os.path.join(d, "META.json")
    with open(meta, "w") as f:
        f.write(command.run_meta.json() + "\n")
    try:
        asyncio.run(Rerunner(RerunnerConfig(file=meta)).main())
    except AttributeError as e:
        print(f"Rerunner.main on the META.json of the run: VIOLATION: AttributeError: {e}")
        violations += 1
    except BaseException as e:  # noqa: BLE001
        # config re-created; the re-run itself then fails to connect to the dummy target, which is fine
        print(f"Rerunner.main re-created the config and started the command ({type(e).__name__}: {e})")

sys.exit(1 if violations else 0)
