"""C18 finding 4: for options declared positional the value from GALLIA_<NAME> / gallia.toml is looked up,
even printed in --help as "(environment variable (GALLIA_CONTROL_PARAMETER): reset-to-default)", but then
dropped: PydanticField.arg_default() returns {} for positionals and the argparse positional stays
mandatory (no nargs='?').  So with the option absent from the command line the environment / file value is
not used - the parser aborts with "the following arguments are required".
Shown with `primitive uds iocbi` (option control_parameter, a Literal) .  Exit 1 if observed, 0 otherwise."""
import contextlib
import io
import os
import sys
import tempfile

import gallia.command  # noqa: F401  (resolves the import cycle)
from gallia.cli.gallia import create_parser
from gallia.command.config import ConfigArgFieldInfo
from gallia.commands.primitive.uds.iocbi import IOCBIPrimitive
from gallia.pydantic_argparse.utils.pydantic import PydanticField


def parse(cmd, argv, env=None, toml=""):
    with tempfile.NamedTemporaryFile("w", suffix=".toml", delete=False) as f:
        f.write(toml)
    old = dict(os.environ)
    for k in list(os.environ):
        if k.startswith("GALLIA_"):
            del os.environ[k]
    os.environ["GALLIA_CONFIG"] = f.name
    os.environ.update(env or {})
    err, out = io.StringIO(), io.StringIO()
    try:
        with contextlib.redirect_stderr(err), contextlib.redirect_stdout(out):
            _, cfg = create_parser(cmd).parse_typed_args(argv)
        return cfg, ""
    except SystemExit:
        return None, (err.getvalue() + out.getvalue()).strip()
    finally:
        os.environ.clear()
        os.environ.update(old)
        os.unlink(f.name)


def tokens(cmd, name, *values):
    info = cmd.CONFIG_TYPE.model_fields[name]
    if getattr(info, "positional", False):
        return list(values)
    return [PydanticField(name, info).arg_names()[-1], *values]


cmd = IOCBIPrimitive
info = cmd.CONFIG_TYPE.model_fields["control_parameter"]
assert isinstance(info, ConfigArgFieldInfo) and info.positional
section = info.config_section  # whatever table the file lookup uses for this option
base = tokens(cmd, "target", "tcp-lines://127.0.0.1:2001") + tokens(cmd, "data_identifier", "0x1234")

violations = 0

# reference: value on the command line
cfg, err = parse(cmd, base + ["freeze-current-state"])
print("CLI only                 ->", cfg.control_parameter if cfg else err.splitlines()[-1])
assert cfg is not None and cfg.control_parameter == "freeze-current-state"

# env only
env = {"GALLIA_CONTROL_PARAMETER": "reset-to-default"}
cfg, err = parse(cmd, base, env=env)
print("env only                 ->", cfg.control_parameter if cfg else err.splitlines()[-1])
if cfg is None or cfg.control_parameter != "reset-to-default":
    violations += 1

# file only (under the table attributes_from_config really reads for this option; counted only if the
# file lookup serves this option at all)
from gallia.config import Config  # noqa: E402

toml = f'[{section}]\ncontrol_parameter = "return-control-to-ecu"\n'
served = "control_parameter" in cmd.CONFIG_TYPE.attributes_from_config(
    Config({str(section): {"control_parameter": "return-control-to-ecu"}})
)
cfg, err = parse(cmd, base, toml=toml)
print(f"file only ([{section}], looked up: {served}) ->", cfg.control_parameter if cfg else err.splitlines()[-1])
if served and (cfg is None or cfg.control_parameter != "return-control-to-ecu"):
    violations += 1

# env + file
cfg, err = parse(cmd, base, env=env, toml=toml)
print("env + file               ->", cfg.control_parameter if cfg else err.splitlines()[-1])
if cfg is None or cfg.control_parameter != "reset-to-default":
    violations += 1

# CLI still wins
cfg, err = parse(cmd, base + ["freeze-current-state"], env=env, toml=toml)
print("CLI + env + file         ->", cfg.control_parameter if cfg else err.splitlines()[-1])
if cfg is None or cfg.control_parameter != "freeze-current-state":
    violations += 1

# the help text claims the environment value is the default of the option
_, helptext = parse(cmd, ["-h"], env=env)
claim = [line.strip() for line in helptext.splitlines() if "GALLIA_CONTROL_PARAMETER" in line]
print("help text says           ->", claim[0][-75:] if claim else "(nothing)")

# an invalid env value is silently ignored as well (CLI absent -> 'required', CLI given -> accepted; never named)
cfg, err = parse(cmd, base, env={"GALLIA_CONTROL_PARAMETER": "bogus"})
print("invalid env value        ->", "accepted" if cfg else err.splitlines()[-1])
if cfg is not None or "GALLIA_CONTROL_PARAMETER" not in err.splitlines()[-1]:
    violations += 1

if violations:
    print(f"\nVIOLATION ({violations} checks)")
    sys.exit(1)
print("\nno violation")
