import asyncio
import logging
import struct
import sys

from gallia.transports.base import TargetURI
from gallia.transports.hsfz import HSFZConfig, HSFZConnection, HSFZTransport

logging.disable(logging.CRITICAL)
T, E = 0xF4, 0x10  # tester (src_addr), ECU (dst_addr)


class FakeWriter:
    """In-memory stand-in for asyncio.StreamWriter (records what the client sends)."""

    def __init__(self) -> None:
        self.out: list[bytes] = []
        self.closed = False

    def write(self, b: bytes) -> None:
        self.out.append(bytes(b))

    async def drain(self) -> None:
        pass

    def close(self) -> None:
        self.closed = True

    async def wait_closed(self) -> None:
        pass

    def is_closing(self) -> bool:
        return self.closed


def frame(cw: int, body: bytes = b"") -> bytes:
    return struct.pack("!IH", len(body), cw) + body


def data(src: int, dst: int, p: bytes) -> bytes:
    return frame(0x01, bytes([src, dst]) + p)


def ack(src: int, dst: int, p: bytes) -> bytes:
    return frame(0x02, bytes([src, dst]) + p[:5])


def mk(ack_timeout_ms: int = 1000):
    r = asyncio.StreamReader()
    w = FakeWriter()
    conn = HSFZConnection(r, w, T, E, ack_timeout_ms / 1000)
    t = HSFZTransport(
        TargetURI(f"hsfz://h:6801?src_addr={T}&dst_addr={E}&ack_timeout={ack_timeout_ms}"),
        6801,
        HSFZConfig(src_addr=str(T), dst_addr=str(E), ack_timeout=ack_timeout_ms),
        conn,
    )
    return t, r, w


async def attempt(coro):
    try:
        return ("ok", await coro)
    except BaseException as e:  # noqa: BLE001
        return ("exc", e)


async def main() -> int:
    bad = 0

    # --- History 1: request, ack, positive response, then the gateway closes the TCP stream (EOF).
    t, r, w = mk()
    wt = asyncio.create_task(attempt(t.write(b"\x11\x01")))
    await asyncio.sleep(0.01)
    r.feed_data(ack(T, E, b"\x11\x01"))
    res_w = await wt
    print("write(1101) ->", res_w)
    r.feed_data(data(E, T, b"\x51\x01"))  # complete data frame ECU -> tester ...
    r.feed_eof()  # ... followed by FIN
    await asyncio.sleep(0.01)
    print("queue before read:", list(t._conn._read_queue._queue))
    res_r = await attempt(t.read(timeout=0.2))
    print("read() ->", res_r)
    if res_r != ("ok", b"\x51\x01"):
        print("VIOLATION: the complete data frame 5101 (ECU->tester) received before EOF is never delivered")
        bad = 1

    # --- History 2: a skipped frame + the matching ack + EOF arrive in one segment while the write waits.
    t, r, w = mk()
    wt = asyncio.create_task(attempt(t.write(b"\x22\xf1\x90")))
    await asyncio.sleep(0.01)
    r.feed_data(data(0x12, T, b"\x62\x00") + ack(T, E, b"\x22\xf1\x90"))
    r.feed_eof()
    res_w = await wt
    print("write(22f190) with [foreign data, matching ack, EOF] ->", res_w)
    if res_w[0] != "ok":
        print("VIOLATION: matching ack arrived within the ack timeout but the write fails")
        bad = 1

    # --- History 3: error control word, then EOF (a gateway rejecting the tester and hanging up).
    t, r, w = mk()
    r.feed_data(frame(0x40, b"\x00\xf4"))
    r.feed_eof()
    await asyncio.sleep(0.01)
    res_r = await attempt(t.read(timeout=0.2))
    print("read() after [IncorrectTesterAddressError, EOF] ->", res_r)
    if not (res_r[0] == "exc" and isinstance(res_r[1], ConnectionError)):
        print("VIOLATION: the error control word does not surface as a connection error "
              f"(got {res_r[1]!r}, errno={getattr(res_r[1], 'errno', None)})")
        bad = 1
    return bad


sys.exit(asyncio.run(main()))
