import asyncio
import logging
import struct
import sys

from gallia.transports.base import TargetURI
from gallia.transports.hsfz import HSFZConfig, HSFZConnection, HSFZTransport

logging.disable(logging.CRITICAL)
T, E = 0xF4, 0x10  # tester (src_addr), ECU (dst_addr)


class FakeWriter:
    """In-memory stand-in for asyncio.StreamWriter (records what the client sends)."""

    def __init__(self) -> None:
        self.out: list[bytes] = []
        self.closed = False

    def write(self, b: bytes) -> None:
        self.out.append(bytes(b))

    async def drain(self) -> None:
        pass

    def close(self) -> None:
        self.closed = True

    async def wait_closed(self) -> None:
        pass

    def is_closing(self) -> bool:
        return self.closed


def frame(cw: int, body: bytes = b"") -> bytes:
    return struct.pack("!IH", len(body), cw) + body


def data(src: int, dst: int, p: bytes) -> bytes:
    return frame(0x01, bytes([src, dst]) + p)


def ack(src: int, dst: int, p: bytes) -> bytes:
    return frame(0x02, bytes([src, dst]) + p[:5])


def mk(ack_timeout_ms: int = 1000):
    r = asyncio.StreamReader()
    w = FakeWriter()
    conn = HSFZConnection(r, w, T, E, ack_timeout_ms / 1000)
    t = HSFZTransport(
        TargetURI(f"hsfz://h:6801?src_addr={T}&dst_addr={E}&ack_timeout={ack_timeout_ms}"),
        6801,
        HSFZConfig(src_addr=str(T), dst_addr=str(E), ack_timeout=ack_timeout_ms),
        conn,
    )
    return t, r, w


async def attempt(coro):
    try:
        return ("ok", await coro)
    except BaseException as e:  # noqa: BLE001
        return ("exc", e)


async def main() -> int:
    bad = 0
    # History A: the gateway acks the first TesterPresent twice (duplicate ack), answers it,
    # and then goes silent: it never acks the second TesterPresent.
    t, r, w = mk(ack_timeout_ms=200)
    wt = asyncio.create_task(attempt(t.write(b"\x3e\x00")))
    await asyncio.sleep(0.01)
    r.feed_data(ack(T, E, b"\x3e\x00") + ack(T, E, b"\x3e\x00") + data(E, T, b"\x7e\x00"))
    print("write#1(3e00) ->", await wt)
    print("read() ->", await attempt(t.read(timeout=0.2)))
    n_before = len(w.out)
    loop = asyncio.get_running_loop()
    t0 = loop.time()
    res = await attempt(t.write(b"\x3e\x00"))  # the gateway sends NOTHING after this request
    dt = loop.time() - t0
    print(f"write#2(3e00), gateway silent -> {res} after {dt * 1000:.1f} ms; request sent: {len(w.out) > n_before}")
    if res[0] == "ok":
        print("VIOLATION: write#2 completed although no ack arrived after the request was sent "
              "(it was matched against the stale duplicate ack of write#1)")
        bad = 1

    # History B: an ack frame injected before the client has written anything.
    t, r, w = mk(ack_timeout_ms=200)
    r.feed_data(ack(T, E, b"\x10\x03"))
    await asyncio.sleep(0.01)
    res = await attempt(t.write(b"\x10\x03"))
    print("write(1003) with an ack injected BEFORE the request and none after ->", res)
    if res[0] == "ok":
        print("VIOLATION: write completed on an ack that predates the request")
        bad = 1
    return bad


sys.exit(asyncio.run(main()))
