import asyncio
import logging
import struct
import sys

from gallia.transports.base import TargetURI
from gallia.transports.hsfz import HSFZConfig, HSFZConnection, HSFZTransport

logging.disable(logging.CRITICAL)
T, E = 0xF4, 0x10  # tester (src_addr), ECU (dst_addr)


class FakeWriter:
    """In-memory stand-in for asyncio.StreamWriter (records what the client sends)."""

    def __init__(self) -> None:
        self.out: list[bytes] = []
        self.closed = False

    def write(self, b: bytes) -> None:
        self.out.append(bytes(b))

    async def drain(self) -> None:
        pass

    def close(self) -> None:
        self.closed = True

    async def wait_closed(self) -> None:
        pass

    def is_closing(self) -> bool:
        return self.closed


def frame(cw: int, body: bytes = b"") -> bytes:
    return struct.pack("!IH", len(body), cw) + body


def data(src: int, dst: int, p: bytes) -> bytes:
    return frame(0x01, bytes([src, dst]) + p)


def ack(src: int, dst: int, p: bytes) -> bytes:
    return frame(0x02, bytes([src, dst]) + p[:5])


def mk(ack_timeout_ms: int = 1000):
    r = asyncio.StreamReader()
    w = FakeWriter()
    conn = HSFZConnection(r, w, T, E, ack_timeout_ms / 1000)
    t = HSFZTransport(
        TargetURI(f"hsfz://h:6801?src_addr={T}&dst_addr={E}&ack_timeout={ack_timeout_ms}"),
        6801,
        HSFZConfig(src_addr=str(T), dst_addr=str(E), ack_timeout=ack_timeout_ms),
        conn,
    )
    return t, r, w


async def attempt(coro):
    try:
        return ("ok", await coro)
    except BaseException as e:  # noqa: BLE001
        return ("exc", e)


async def main() -> int:
    t, r, w = mk(ack_timeout_ms=300)
    # Schedule: a read is pending (e.g. a listener for unsolicited / response-pending frames)
    # when another task writes a request.
    rt = asyncio.create_task(attempt(t.read(timeout=2)))
    await asyncio.sleep(0.01)
    wt = asyncio.create_task(attempt(t.write(b"\x3e\x00")))
    await asyncio.sleep(0.01)
    assert w.out and w.out[-1] == data(T, E, b"\x3e\x00"), w.out
    # The gateway acks immediately (well within the 300 ms ack timeout) ...
    r.feed_data(ack(T, E, b"\x3e\x00"))
    res_w = await wt
    print("write(3e00) ->", res_w, "| connection closed:", t._conn._closed)
    # ... and then sends the response.
    r.feed_data(data(E, T, b"\x7e\x00"))
    res_r = await rt
    print("read() ->", res_r)
    if res_w != ("ok", 2) or res_r != ("ok", b"\x7e\x00"):
        print("VIOLATION: a matching ack arrived 10 ms after the request, yet the write failed with "
              "'no ack by gateway' and tore the connection down: the pending read consumed the ack, "
              "held it in its private unexpected_packets list and the ack waiter never saw it")
        return 1
    return 0


sys.exit(asyncio.run(main()))
