import asyncio
import logging
import struct
import sys

from gallia.transports.base import TargetURI
from gallia.transports.hsfz import HSFZConfig, HSFZConnection, HSFZTransport

logging.disable(logging.CRITICAL)
T, E = 0xF4, 0x10  # tester (src_addr), ECU (dst_addr)


class FakeWriter:
    """In-memory stand-in for asyncio.StreamWriter (records what the client sends)."""

    def __init__(self) -> None:
        self.out: list[bytes] = []
        self.closed = False

    def write(self, b: bytes) -> None:
        self.out.append(bytes(b))

    async def drain(self) -> None:
        pass

    def close(self) -> None:
        self.closed = True

    async def wait_closed(self) -> None:
        pass

    def is_closing(self) -> bool:
        return self.closed


def frame(cw: int, body: bytes = b"") -> bytes:
    return struct.pack("!IH", len(body), cw) + body


def data(src: int, dst: int, p: bytes) -> bytes:
    return frame(0x01, bytes([src, dst]) + p)


def ack(src: int, dst: int, p: bytes) -> bytes:
    return frame(0x02, bytes([src, dst]) + p[:5])


def mk(ack_timeout_ms: int = 1000):
    r = asyncio.StreamReader()
    w = FakeWriter()
    conn = HSFZConnection(r, w, T, E, ack_timeout_ms / 1000)
    t = HSFZTransport(
        TargetURI(f"hsfz://h:6801?src_addr={T}&dst_addr={E}&ack_timeout={ack_timeout_ms}"),
        6801,
        HSFZConfig(src_addr=str(T), dst_addr=str(E), ack_timeout=ack_timeout_ms),
        conn,
    )
    return t, r, w


async def attempt(coro):
    try:
        return ("ok", await coro)
    except BaseException as e:  # noqa: BLE001
        return ("exc", e)


async def main() -> int:
    # ack_timeout = 1000 ms (the default); the caller passes a shorter timeout to write(),
    # which is what the UDS client does by default (request timeout 0.5 s < ack timeout 1 s).
    t, r, w = mk(ack_timeout_ms=1000)
    wt = asyncio.create_task(attempt(t.write(b"\x22\xf1\x90", timeout=0.3)))
    await asyncio.sleep(0.01)
    # While the client waits for the ack, a data frame ECU -> tester arrives (e.g. the late
    # response to the previous request). No ack arrives within 0.3 s.
    r.feed_data(data(E, T, b"\x62\xf1\x90AAA"))
    res_w = await wt
    print("write(22f190, timeout=0.3) ->", res_w, "| connection closed:", t._conn._closed)
    print("queue after the write:", list(t._conn._read_queue._queue))
    # Next frame from the ECU.
    r.feed_data(data(E, T, b"\x62\xf1\x90BBB"))
    got = []
    for _ in range(2):
        res = await attempt(t.read(timeout=0.2))
        print("read() ->", res)
        got.append(res)

    if t._conn._closed:
        print("connection was closed by the failed write; nothing to deliver")
        return 0
    payloads = [x[1] for x in got if x[0] == "ok"]
    if payloads != [b"\x62\xf1\x90AAA", b"\x62\xf1\x90BBB"]:
        print("VIOLATION: connection is still open, but the data frame 62f190414141 that was skipped "
              "while waiting for the ack was dropped; reads delivered", payloads)
        return 1
    return 0


sys.exit(asyncio.run(main()))
