#!/usr/bin/env python
"""C15 finding 2: a failure at the lifecycle point "db open" escapes entry_point().

BaseCommand.entry_point() calls `await self._db_insert_run_meta()` (and the pre-hook)
*outside* of the try/finally that does all the bookkeeping.  If DBHandler.connect()
raises - e.g. the database was written by an older gallia (schema version mismatch,
ValueError from check_version) or the file is not a sqlite database - then

  * the exception propagates out of entry_point(): no exit-code mapping,
  * META.json is never written,
  * the zstd log handler is never removed/closed (log.json.zst stays empty),
  * the post-hook never runs and the flock is never released,
  * and, because the aiosqlite connection thread (non-daemon) is never closed,
    the gallia process prints the traceback and then HANGS forever at interpreter
    shutdown - still holding the lock file.

The command is started like gallia's CLI does it (sys.exit(asyncio.run(entry_point()))).
"""

import fcntl
import json
import os
import sqlite3
import subprocess
import sys
import tempfile
from pathlib import Path

from gallia.log import PenlogReader

CHILD = r"""
import asyncio, sys
from pathlib import Path
from gallia.command.base import AsyncScript, AsyncScriptConfig
from gallia.log import setup_logging, Loglevel

t = Path(sys.argv[1])

class S(AsyncScript):
    async def main(self):
        pass

cfg = AsyncScriptConfig(
    artifacts_base=t / "art",
    db=t / "db.sqlite",
    lock_file=t / "lock",
    post_hook=f"echo $GALLIA_EXIT_CODE > {t}/post_hook_exit_code",
)
setup_logging(Loglevel.INFO, logger_name="")
sys.exit(asyncio.run(S(cfg).entry_point()))
"""


def lock_is_held(path: Path) -> bool:
    fd = os.open(path, os.O_RDONLY)
    try:
        fcntl.flock(fd, fcntl.LOCK_EX | fcntl.LOCK_NB)
        fcntl.flock(fd, fcntl.LOCK_UN)
        return False
    except BlockingIOError:
        return True
    finally:
        os.close(fd)


def one(variant: str) -> list[str]:
    problems: list[str] = []
    with tempfile.TemporaryDirectory() as t_:
        t = Path(t_)
        if variant == "old-schema":
            # A database created by a previous gallia release (schema 3.0 instead of 4.0)
            c = sqlite3.connect(t / "db.sqlite")
            c.execute("CREATE TABLE version(schema text unique, version text)")
            c.execute("INSERT INTO version VALUES('main', '3.0')")
            c.commit()
            c.close()
        else:
            (t / "db.sqlite").write_bytes(b"definitely not a sqlite database\n" * 200)

        p = subprocess.Popen(
            [sys.executable, "-c", CHILD, str(t)], stdout=subprocess.DEVNULL, stderr=subprocess.PIPE
        )
        rc: int | None
        try:
            _, err = p.communicate(timeout=12)
            rc = p.returncode
        except subprocess.TimeoutExpired:
            rc = None
            held = lock_is_held(t / "lock")
            p.kill()
            _, err = p.communicate()
            problems.append(
                f"{variant}: process did not terminate within 12 s after the database error "
                f"(lock file still held: {held})"
            )
        last = err.decode(errors="replace").strip().splitlines()[-1:] or [""]
        if rc is not None and rc not in (70, 74):
            problems.append(f"{variant}: exit status {rc} is not part of the documented mapping; stderr ends with {last[0]!r}")

        runs = list((t / "art").glob("*/run-*"))
        if len(runs) != 1:
            problems.append(f"{variant}: artifacts dirs: {runs}")
        else:
            meta_file = runs[0] / "META.json"
            if not meta_file.exists():
                problems.append(f"{variant}: META.json was not written (stderr ends with {last[0]!r})")
            else:
                meta = json.loads(meta_file.read_text())
                if rc is not None and meta["exit_code"] != rc:
                    problems.append(f"{variant}: META.json exit_code={meta['exit_code']} != process {rc}")
            try:
                n = len(list(PenlogReader(runs[0] / "log.json.zst").records()))
                if n == 0:
                    problems.append(
                        f"{variant}: log.json.zst contains 0 records "
                        f"({(runs[0] / 'log.json.zst').stat().st_size} bytes) - handler never flushed/closed"
                    )
            except Exception as e:
                problems.append(f"{variant}: log.json.zst unreadable: {e!r}")
        if not (t / "post_hook_exit_code").exists():
            problems.append(f"{variant}: post-hook never executed")
    return problems


def main() -> int:
    problems: list[str] = []
    for variant in ["old-schema", "not-a-database"]:
        problems += one(variant)
    if problems:
        print("VIOLATION: failure while opening the database bypasses all bookkeeping:")
        for p in problems:
            print("  -", p)
        return 1
    print("ok")
    return 0


if __name__ == "__main__":
    sys.exit(main())
