#!/usr/bin/env python
"""C15 finding 3: a hook that emits a byte which is not valid UTF-8 aborts / alters the run.

BaseCommand.run_hook() runs the script with `text=True, check=True` and only catches
CalledProcessError.  A hook (failing or not) that writes e.g. a latin-1 encoded error
message to stdout/stderr makes subprocess.run() raise UnicodeDecodeError, which escapes
run_hook() and - because both run_hook() calls sit outside the try/finally in
entry_point() - escapes entry_point():

  pre-hook : main() is never executed, no META.json, log handler never closed,
             database connection never opened/closed, lock never released.
  post-hook: the real exit code (here 3) is replaced by an exception, lock never released.

Expected (property C15): "A failing hook is reported but never aborts or alters the run."
"""

import asyncio
import fcntl
import json
import os
import sys
import tempfile
from pathlib import Path

from gallia.command.base import AsyncScript, AsyncScriptConfig
from gallia.log import Loglevel, PenlogReader, setup_logging

# 'Gerät nicht gefunden' in latin-1 on stderr, then fail - a plain failing hook
BAD_HOOK = r"printf 'Ger\344t nicht gefunden\n' >&2; exit 1"


class S(AsyncScript):
    main_ran = False

    async def main(self) -> None:
        S.main_ran = True
        sys.exit(3)


def lock_is_held(path: Path) -> bool:
    fd = os.open(path, os.O_RDONLY)
    try:
        fcntl.flock(fd, fcntl.LOCK_EX | fcntl.LOCK_NB)
        fcntl.flock(fd, fcntl.LOCK_UN)
        return False
    except BlockingIOError:
        return True
    finally:
        os.close(fd)


async def one(t: Path, which: str) -> list[str]:
    problems: list[str] = []
    S.main_ran = False
    cfg = AsyncScriptConfig(
        artifacts_base=t / "art",
        lock_file=t / "lock",
        pre_hook=BAD_HOOK if which == "pre" else None,
        post_hook=BAD_HOOK if which == "post" else None,
    )
    cmd = S(cfg)
    try:
        rc: object = await cmd.entry_point()
    except BaseException as e:  # noqa: BLE001
        rc = e
    if rc != 3:
        problems.append(f"{which}-hook: entry_point() did not return 3 but {rc!r}")
    if not S.main_ran:
        problems.append(f"{which}-hook: main() was never executed (run aborted by the hook)")
    run_dir = next((t / "art").glob("*/run-*"))
    meta_file = run_dir / "META.json"
    if not meta_file.exists():
        problems.append(f"{which}-hook: META.json missing")
    elif json.loads(meta_file.read_text())["exit_code"] != 3:
        problems.append(f"{which}-hook: META.json exit_code != 3")
    if len(cmd.log_file_handlers) != 0:
        problems.append(f"{which}-hook: log file handler still installed / log not closed")
    try:
        if len(list(PenlogReader(run_dir / "log.json.zst").records())) == 0:
            problems.append(f"{which}-hook: log.json.zst has no records")
    except Exception as e:  # noqa: BLE001
        problems.append(f"{which}-hook: log.json.zst unreadable {e!r}")
    if lock_is_held(t / "lock"):
        problems.append(f"{which}-hook: lock file is still locked after entry_point() ended")
    return problems


def main() -> int:
    setup_logging(Loglevel.CRITICAL)  # console quiet; the file handler logs at its own level
    problems: list[str] = []
    for which in ["pre", "post"]:
        with tempfile.TemporaryDirectory() as t:
            problems += asyncio.run(one(Path(t), which))
    if problems:
        print("VIOLATION: a failing hook with non-UTF-8 output aborts/alters the run:")
        for p in problems:
            print("  -", p)
        sys.stdout.flush()
        # leftover log handlers/lock fds are exactly the bug; do not wait for them
        os._exit(1)
    print("ok")
    return 0


if __name__ == "__main__":
    sys.exit(main())
