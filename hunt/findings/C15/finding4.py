#!/usr/bin/env python
"""C15 finding 4: the config stored in META.json / run_meta cannot re-create a DDDI run.

RunMeta.config (META.json) and run_meta.config (database) are `config.model_dump_json()`.
For `gallia primitive uds dddi identifier|memory` the field

    sources: list[Annotated[tuple[int, int, int], BeforeValidator(parse_id)]]

is dumped as a JSON list of lists ([[61840, 1, 4]]), but parse_definitions() only accepts
a `tuple` or a "ID:START:LENGTH" string and calls `.split(":")` on everything else.
`gallia script rerun` (Rerunner.main: `gallia_class.CONFIG_TYPE(**config)`) therefore dies
with AttributeError("'list' object has no attribute 'split'") and the run is NOT re-created.

Differential check: the same procedure with `primitive uds rdbi` (control) re-creates the run
(a second run directory of the command appears); with both dddi commands it does not.
No ECU is needed: the target is a unix socket that does not exist, so every real run ends
in setup() deterministically.
"""

import asyncio
import json
import os
import sys
import tempfile
from pathlib import Path

import gallia.command  # noqa: F401  (resolves the import cycle of gallia.plugins.plugin)
from gallia.commands.primitive.uds.dddi import (
    DefineByIdentifierDDDIPrimitive,
    DefineByMemoryAddressDDDIPrimitive,
)
from gallia.commands.primitive.uds.rdbi import ReadByIdentifierPrimitive
from gallia.commands.script.rerun import Rerunner, RerunnerConfig
from gallia.log import Loglevel, setup_logging


async def one(t: Path, cls: type, extra: dict) -> tuple[int, int, int, str | None]:
    cfg = cls.CONFIG_TYPE(
        target=f"unix-lines://{t}/no-such-ecu.sock",
        dumpcap=False,
        artifacts_base=t / "art",
        data_identifier=0xF200,
        **extra,
    )
    cmd = cls(cfg)
    rc_orig = await cmd.entry_point()
    assert cmd.artifacts_dir is not None
    meta_file = cmd.artifacts_dir / "META.json"
    meta = json.loads(meta_file.read_text())

    # 1) direct: can the stored config be turned into the config again?
    err: str | None = None
    try:
        again = cls.CONFIG_TYPE(**meta["config"])
        if again.model_dump() != cfg.model_dump():
            err = "re-created config differs from the original one"
    except Exception as e:  # noqa: BLE001
        err = repr(e)

    # 2) end to end: gallia script rerun --file META.json
    rerunner = Rerunner(RerunnerConfig(file=meta_file))
    rc_rerun = await rerunner.entry_point()
    n_runs = len(list((t / "art" / cmd.id).glob("run-*")))
    return rc_orig, rc_rerun, n_runs, err


def main() -> int:
    sys.stderr = open(os.devnull, "w")  # the expected CRITICAL tracebacks are not interesting here
    setup_logging(Loglevel.CRITICAL)
    problems: list[str] = []
    cases = [
        ("control: primitive uds rdbi", ReadByIdentifierPrimitive, {}),
        ("primitive uds dddi identifier", DefineByIdentifierDDDIPrimitive, {"sources": ["0xf190:1:4"]}),
        ("primitive uds dddi memory", DefineByMemoryAddressDDDIPrimitive, {"sources": ["0x1000:4"]}),
    ]
    for name, cls, extra in cases:
        with tempfile.TemporaryDirectory() as t:
            rc_orig, rc_rerun, n_runs, err = asyncio.run(one(Path(t), cls, extra))
        print(f"{name}: original rc={rc_orig}, rerun rc={rc_rerun}, run dirs of the command={n_runs}, config error={err}")
        if err is not None:
            problems.append(f"{name}: CONFIG_TYPE(**META['config']) fails: {err}")
        if n_runs != 2:
            problems.append(f"{name}: `script rerun --file META.json` did not re-create the run ({n_runs} run dir(s) instead of 2)")
    if problems:
        print("VIOLATION: META.json config does not allow re-creating the run:")
        for p in problems:
            print("  -", p)
        return 1
    print("ok")
    return 0


if __name__ == "__main__":
    sys.exit(main())
