#!/usr/bin/env python
"""C15 finding 1: Ctrl-C (SIGINT) during a run is recorded as a SUCCESSFUL run.

The command is started exactly like gallia's CLI does it
(`sys.exit(asyncio.run(cmd.entry_point()))`, see gallia/cli/gallia.py:parse_and_run).
Since Python 3.11 asyncio.run() turns the first SIGINT into a cancellation of the
main task, i.e. `await self.run()` raises asyncio.CancelledError and not
KeyboardInterrupt.  BaseCommand.entry_point() only handles KeyboardInterrupt /
SystemExit / Exception, so the finally block runs with the initial `exit_code = 0`.

Expected (property C15): exit code 130, META.json / run_meta row / post-hook all carry 130.
"""

import json
import signal
import sqlite3
import subprocess
import sys
import tempfile
import time
from pathlib import Path

CHILD = r"""
import asyncio, sys
from pathlib import Path
from gallia.command.base import AsyncScript, AsyncScriptConfig
from gallia.log import setup_logging, Loglevel

point, tmp = sys.argv[1], Path(sys.argv[2])

async def block(where):
    if where != point:
        return
    (tmp / "ready").touch()
    await asyncio.sleep(30)

class S(AsyncScript):
    async def setup(self): await block("setup")
    async def main(self): await block("main")
    async def teardown(self): await block("teardown")

cfg = AsyncScriptConfig(
    artifacts_base=tmp / "art",
    db=tmp / "db.sqlite",
    lock_file=tmp / "lock",
    post_hook=f"echo $GALLIA_EXIT_CODE > {tmp}/post_hook_exit_code",
)
setup_logging(Loglevel.INFO, logger_name="")
# identical to gallia.cli.gallia.parse_and_run()
sys.exit(asyncio.run(S(cfg).entry_point()))
"""

EXPECTED = 128 + signal.SIGINT  # 130


def one(point: str) -> list[str]:
    problems: list[str] = []
    with tempfile.TemporaryDirectory() as t_:
        t = Path(t_)
        p = subprocess.Popen(
            [sys.executable, "-c", CHILD, point, str(t)],
            stderr=subprocess.DEVNULL,
            stdout=subprocess.DEVNULL,
        )
        deadline = time.time() + 20
        while not (t / "ready").exists():
            if time.time() > deadline or p.poll() is not None:
                p.kill()
                return [f"{point}: child did not get ready"]
            time.sleep(0.05)
        time.sleep(0.3)
        p.send_signal(signal.SIGINT)  # a single Ctrl-C
        try:
            p.wait(timeout=20)
        except subprocess.TimeoutExpired:
            p.kill()
            return [f"{point}: child did not terminate after SIGINT"]
        rc = p.returncode
        # A shell reports a process killed by SIGINT as 130 as well.
        shell_rc = 128 - rc if rc < 0 else rc
        if shell_rc != EXPECTED:
            problems.append(f"{point}: process exit status {rc}, expected {EXPECTED}")

        runs = list((t / "art").glob("*/run-*"))
        meta_file = runs[0] / "META.json" if runs else None
        if meta_file is None or not meta_file.exists():
            problems.append(f"{point}: META.json missing")
        else:
            meta = json.loads(meta_file.read_text())
            if meta["exit_code"] != EXPECTED:
                problems.append(
                    f"{point}: META.json exit_code={meta['exit_code']} but the run was aborted by Ctrl-C "
                    f"(process status {rc}); expected {EXPECTED}"
                )

        rows = sqlite3.connect(t / "db.sqlite").execute("SELECT end_time, exit_code FROM run_meta").fetchall()
        if len(rows) != 1 or rows[0][0] is None or rows[0][1] != EXPECTED:
            problems.append(f"{point}: run_meta (end_time, exit_code)={rows}; expected exit_code {EXPECTED}")

        hook = t / "post_hook_exit_code"
        if not hook.exists():
            problems.append(f"{point}: post-hook was never executed")
        elif hook.read_text().strip() != str(EXPECTED):
            problems.append(f"{point}: post-hook saw GALLIA_EXIT_CODE={hook.read_text().strip()}")
    return problems


def main() -> int:
    problems: list[str] = []
    for point in ["setup", "main", "teardown"]:
        problems += one(point)
    if problems:
        print("VIOLATION: Ctrl-C is not mapped to exit code 130 consistently:")
        for p in problems:
            print("  -", p)
        return 1
    print("ok")
    return 0


if __name__ == "__main__":
    sys.exit(main())
