"""C05 finding 2: a caller that is cancelled between write() and read() leaves its reply behind;
all later callers are shifted by one reply and never get the reply to their own request.

Scenario 1 (cancellation of one scanner task at the await point inside transport.read()):
  t=0.000  task A: read_data_by_identifier(0x1000)  -> written, ECU will answer at t=0.010
  t=0.005  A is cancelled (it is waiting in transport.read()); the client mutex is released
  t=0.100+ tasks B, C, D, E one after the other request 0x2001..0x2004; the ECU answers each
           request correctly within 10 ms.
  Observed: B reads the reply to A, C reads the reply to B, ... every caller fails with
  RequestResponseMismatch although the ECU served every single request - the others never make
  progress again (the shift only ends with a reconnect).

Scenario 2 (the cancellation is done by gallia itself): the cyclic tester-present worker is in the
  middle of its ping when the scanner calls ECU.wait_for_ecu(), which cancels the worker via
  stop_cyclic_tester_present().  The ping of wait_for_ecu() is then "answered" by the reply to the
  worker's ping, and the scanner's following requests are all shifted by one.

Runs in virtual time (deterministic, < 1 s).
"""

import asyncio
import logging
import sys

from gallia.services.uds.core import service
from gallia.services.uds.core.client import UDSClient, UDSRequestConfig
from gallia.services.uds.ecu import ECU
from gallia.transports.base import BaseTransport, TargetURI

logging.disable(logging.CRITICAL)


class VLoop(asyncio.SelectorEventLoop):
    """Event loop with virtual time: instead of sleeping in select() the clock is advanced."""

    def __init__(self) -> None:
        super().__init__()
        self._vt = 0.0
        orig = self._selector.select

        def select(timeout=None):  # type: ignore[no-untyped-def]
            if timeout is None:
                raise RuntimeError("virtual loop would block forever")
            if timeout > 0:
                self._vt += timeout
            return orig(0)

        self._selector.select = select  # type: ignore[method-assign]

    def time(self) -> float:
        return self._vt


def tname() -> str:
    t = asyncio.current_task()
    return t.get_name() if t else "?"


class FakeTransport(BaseTransport, scheme="fake"):
    """In-memory transport. `ecu(request_no, data)` returns [(delay, reply_bytes), ...]."""

    def __init__(self, ecu) -> None:  # type: ignore[no-untyped-def]
        super().__init__(TargetURI("fake://ecu"))
        self.ecu = ecu
        self.rx: asyncio.Queue[tuple[bytes, int]] = asyncio.Queue()
        self.n = 0
        self.writer_of: dict[int, str] = {}
        self.trace: list[str] = []

    @classmethod
    async def connect(cls, target, timeout=None):  # type: ignore[no-untyped-def]
        raise ConnectionError("not needed")

    async def close(self) -> None:
        self.is_closed = True

    async def write(self, data: bytes, timeout: float | None = None, tags=None) -> int:  # type: ignore[no-untyped-def]
        loop = asyncio.get_running_loop()
        self.n += 1
        no = self.n
        self.writer_of[no] = tname()
        self.trace.append(f"t={loop.time():.3f} write #{no} by {tname()}: {data.hex()}")
        for delay, reply in self.ecu(no, data):
            loop.call_later(delay, self.rx.put_nowait, (reply, no))
        return len(data)

    async def read(self, timeout: float | None = None, tags=None) -> bytes:  # type: ignore[no-untyped-def]
        loop = asyncio.get_running_loop()
        data, no = await asyncio.wait_for(self.rx.get(), timeout)
        mark = "" if self.writer_of[no] == tname() else "FOREIGN: "
        self.trace.append(
            f"t={loop.time():.3f} read by {tname()}: {data.hex()}   ({mark}the ECU's answer to request #{no} of {self.writer_of[no]})"
        )
        return data



def fake_ecu(no: int, data: bytes) -> list[tuple[float, bytes]]:
    """A well behaved ECU: answers every request after 10 ms."""
    if data[0] == 0x3E:
        return [(0.01, bytes.fromhex("7e00"))]
    return [(0.01, bytes([0x62, data[1], data[2], no]))]


def foreign_reads(tr: FakeTransport) -> list[str]:
    return [line for line in tr.trace if " read by " in line and "FOREIGN" in line]


async def rdbi(client: UDSClient, did: int, out: list[tuple[str, object]]) -> None:
    try:
        r: object = await client.read_data_by_identifier(
            did, config=UDSRequestConfig(timeout=0.2, max_retry=0)
        )
    except Exception as e:
        r = e
    out.append((f"{tname()} 0x{did:04x}", r))


async def scenario_direct_cancel() -> list[str]:
    tr = FakeTransport(fake_ecu)
    client = UDSClient(tr, timeout=0.2, max_retry=0)
    out: list[tuple[str, object]] = []
    a = asyncio.create_task(rdbi(client, 0x1000, out), name="A")
    await asyncio.sleep(0.005)
    a.cancel()  # A has written its request and waits in transport.read()
    await asyncio.gather(a, return_exceptions=True)
    await asyncio.sleep(0.1)
    for i, name in enumerate("BCDE"):
        await asyncio.create_task(rdbi(client, 0x2001 + i, out), name=name)
        await asyncio.sleep(0.1)
    print("--- scenario 1: task A cancelled between write and read")
    print("\n".join(tr.trace))
    for who, r in out:
        print(f"{who} got: {r!r}")
    problems = foreign_reads(tr)
    failed = [who for who, r in out if isinstance(r, Exception)]
    if failed:
        problems.append(
            f"{len(failed)} of {len(out)} later callers failed although the ECU answered each of them: {failed}"
        )
    return problems


async def scenario_wait_for_ecu() -> list[str]:
    tr = FakeTransport(fake_ecu)
    ecu = ECU(tr, timeout=0.2, max_retry=0)
    out: list[tuple[str, object]] = []

    async def scanner() -> None:
        await ecu.start_cyclic_tester_present(0.15)
        assert ecu.tester_present_task is not None
        ecu.tester_present_task.set_name("TP-worker")
        # the worker writes its ping at t=0.150, the reply arrives at t=0.160
        await asyncio.sleep(0.155)
        ok = await ecu.wait_for_ecu(timeout=2)  # stops (= cancels) the worker, pings, restarts it
        out.append(("wait_for_ecu", ok))
        assert ecu.tester_present_task is not None
        ecu.tester_present_task.set_name("TP-worker2")
        for i in range(3):
            await rdbi(ecu, 0x2001 + i, out)
        await ecu.stop_cyclic_tester_present()

    await asyncio.create_task(scanner(), name="scanner")
    print("--- scenario 2: worker cancelled by ECU.wait_for_ecu() in the middle of its ping")
    print("\n".join(tr.trace))
    for who, r in out:
        print(f"{who} got: {r!r}")
    problems = foreign_reads(tr)
    failed = [who for who, r in out if isinstance(r, Exception)]
    if failed:
        problems.append(
            f"{len(failed)} scanner requests failed although the ECU answered each of them: {failed}"
        )
    return problems


def main() -> int:
    problems: list[str] = []
    for scenario in (scenario_direct_cancel, scenario_wait_for_ecu):
        loop = VLoop()
        try:
            problems += loop.run_until_complete(scenario())
        finally:
            loop.close()
    if problems:
        print("\nVIOLATION of C05:")
        for p in problems:
            print(" -", p.strip())
        return 1
    print("ok: the cancelled caller left nothing behind; every caller got its own reply")
    return 0


sys.exit(main())
