"""C05 finding 1: a reply that arrives after its caller timed out is delivered to the NEXT caller.

History (all inside the quantifier: 2 callers, reply scripts "late reply after the timeout" and
"immediate", no cancellation):

  t=0.00  task A: read_data_by_identifier(0x1111), timeout 0.2 s
  t=0.20  A's read times out -> A gets MissingResponse, client mutex released
  t=0.22  the ECU's (late) reply to A arrives:   7f 22 31  (requestOutOfRange)
  t=0.25  task B: read_data_by_identifier(0xf190)  -- ECU answers 62 f1 90 'VIN' 10 ms later
          B's read returns immediately with the message that answers A's request.

The property demands that B receives the reply to its own request or an error.
The unchanged code returns A's negative response to B as if the ECU had rejected 0xf190.
A second scenario shows the same with two identical requests and positive replies that the fake
ECU stamps with the number of the request they answer.

Runs in virtual time (deterministic, < 1 s).
"""

import asyncio
import logging
import sys

from gallia.services.uds.core import service
from gallia.services.uds.core.client import UDSClient, UDSRequestConfig
from gallia.transports.base import BaseTransport, TargetURI

logging.disable(logging.CRITICAL)


class VLoop(asyncio.SelectorEventLoop):
    """Event loop with virtual time: instead of sleeping in select() the clock is advanced."""

    def __init__(self) -> None:
        super().__init__()
        self._vt = 0.0
        orig = self._selector.select

        def select(timeout=None):  # type: ignore[no-untyped-def]
            if timeout is None:
                raise RuntimeError("virtual loop would block forever")
            if timeout > 0:
                self._vt += timeout
            return orig(0)

        self._selector.select = select  # type: ignore[method-assign]

    def time(self) -> float:
        return self._vt


def tname() -> str:
    t = asyncio.current_task()
    return t.get_name() if t else "?"


class FakeTransport(BaseTransport, scheme="fake"):
    """In-memory transport. `ecu(request_no, data)` returns [(delay, reply_bytes), ...]."""

    def __init__(self, ecu) -> None:  # type: ignore[no-untyped-def]
        super().__init__(TargetURI("fake://ecu"))
        self.ecu = ecu
        self.rx: asyncio.Queue[tuple[bytes, int]] = asyncio.Queue()
        self.n = 0
        self.writer_of: dict[int, str] = {}
        self.trace: list[str] = []

    @classmethod
    async def connect(cls, target, timeout=None):  # type: ignore[no-untyped-def]
        raise ConnectionError("not needed")

    async def close(self) -> None:
        self.is_closed = True

    async def write(self, data: bytes, timeout: float | None = None, tags=None) -> int:  # type: ignore[no-untyped-def]
        loop = asyncio.get_running_loop()
        self.n += 1
        no = self.n
        self.writer_of[no] = tname()
        self.trace.append(f"t={loop.time():.2f} write #{no} by {tname()}: {data.hex()}")
        for delay, reply in self.ecu(no, data):
            loop.call_later(delay, self.rx.put_nowait, (reply, no))
        return len(data)

    async def read(self, timeout: float | None = None, tags=None) -> bytes:  # type: ignore[no-untyped-def]
        loop = asyncio.get_running_loop()
        data, no = await asyncio.wait_for(self.rx.get(), timeout)
        self.trace.append(
            f"t={loop.time():.2f} read by {tname()}: {data.hex()}   (the ECU's answer to request #{no} of {self.writer_of[no]})"
        )
        return data


async def call(client: UDSClient, delay: float, did: int, out: dict[str, object]) -> None:
    await asyncio.sleep(delay)
    try:
        out[tname()] = await client.read_data_by_identifier(
            did, config=UDSRequestConfig(timeout=0.2, max_retry=0)
        )
    except Exception as e:
        out[tname()] = e


async def scenario_nrc() -> list[str]:
    def ecu(no: int, data: bytes) -> list[tuple[float, bytes]]:
        if data == bytes.fromhex("221111"):
            return [(0.22, bytes.fromhex("7f2231"))]  # late: after the 0.2 s timeout of the caller
        if data == bytes.fromhex("22f190"):
            return [(0.01, bytes.fromhex("62f190") + b"VIN")]
        return []

    tr = FakeTransport(ecu)
    client = UDSClient(tr, timeout=0.2, max_retry=0)
    out: dict[str, object] = {}
    a = asyncio.create_task(call(client, 0.0, 0x1111, out), name="A")
    b = asyncio.create_task(call(client, 0.25, 0xF190, out), name="B")
    await asyncio.gather(a, b)
    print("--- scenario 1: late negative response, different data identifiers")
    print("\n".join(tr.trace))
    print(f"A got: {out['A']!r}")
    print(f"B got: {out['B']!r}")
    problems = []
    rb = out["B"]
    if isinstance(rb, service.NegativeResponse):
        problems.append(
            f"B (0xf190) was handed {rb!r}, which is the ECU's answer to A's request 0x1111; "
            "the ECU answered B with 62f190564e49"
        )
    return problems


async def scenario_same_request() -> list[str]:
    def ecu(no: int, data: bytes) -> list[tuple[float, bytes]]:
        # the data record is the number of the request that is being answered
        reply = bytes([0x62, data[1], data[2], no])
        return [(0.22, reply)] if no == 1 else [(0.01, reply)]

    tr = FakeTransport(ecu)
    client = UDSClient(tr, timeout=0.2, max_retry=0)
    out: dict[str, object] = {}
    a = asyncio.create_task(call(client, 0.0, 0x1000, out), name="A")
    b = asyncio.create_task(call(client, 0.25, 0x1000, out), name="B")
    await asyncio.gather(a, b)
    print("--- scenario 2: late positive response, identical requests")
    print("\n".join(tr.trace))
    print(f"A got: {out['A']!r}")
    print(f"B got: {out['B']!r}")
    problems = []
    rb = out["B"]
    if isinstance(rb, service.ReadDataByIdentifierResponse) and rb.data_record != bytes([2]):
        problems.append(
            f"B sent request #2 but was handed the reply to request #{rb.data_record[0]} (sent by A)"
        )
    return problems


def main() -> int:
    problems: list[str] = []
    for scenario in (scenario_nrc, scenario_same_request):
        loop = VLoop()
        try:
            problems += loop.run_until_complete(scenario())
        finally:
            loop.close()
    if problems:
        print("\nVIOLATION of C05:")
        for p in problems:
            print(" -", p)
        return 1
    print("ok: every caller got the reply to its own request or an error")
    return 0


sys.exit(main())
