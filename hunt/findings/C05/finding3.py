"""C05 finding 3: UDSClient._tester_present(suppress_resp=True) transmits without taking the
client mutex, i.e. in the middle of another caller's exchange.

History (2 concurrent callers, reply script "pending" for A):
  t=0.00  task A: read_data_by_identifier(0x1000); the ECU answers 7f 22 78 (responsePending)
          at t=0.01 and the final reply at t=0.90.  A holds UDSClient.mutex during all of this.
  t=0.30  task B (a keep-alive): client._tester_present(suppress_resp=True)
  Expected: B's TesterPresent is transmitted only after A's final reply was delivered (t>=0.90).
  Observed: 3e 80 is written at t=0.30, between A's request and A's final reply - this code path
  calls self.transport.write() directly and never takes self.mutex.
  If the ECU does answer the TesterPresent (the source has a TODO "What if there is an answer???"),
  that answer is read by A's pending loop and A fails (second scenario).

Runs in virtual time (deterministic, < 1 s).
"""

import asyncio
import logging
import sys

from gallia.services.uds.core import service
from gallia.services.uds.core.client import UDSClient, UDSRequestConfig
from gallia.services.uds.ecu import ECU
from gallia.transports.base import BaseTransport, TargetURI

logging.disable(logging.CRITICAL)


class VLoop(asyncio.SelectorEventLoop):
    """Event loop with virtual time: instead of sleeping in select() the clock is advanced."""

    def __init__(self) -> None:
        super().__init__()
        self._vt = 0.0
        orig = self._selector.select

        def select(timeout=None):  # type: ignore[no-untyped-def]
            if timeout is None:
                raise RuntimeError("virtual loop would block forever")
            if timeout > 0:
                self._vt += timeout
            return orig(0)

        self._selector.select = select  # type: ignore[method-assign]

    def time(self) -> float:
        return self._vt


def tname() -> str:
    t = asyncio.current_task()
    return t.get_name() if t else "?"


class FakeTransport(BaseTransport, scheme="fake"):
    """In-memory transport. `ecu(request_no, data)` returns [(delay, reply_bytes), ...]."""

    def __init__(self, ecu) -> None:  # type: ignore[no-untyped-def]
        super().__init__(TargetURI("fake://ecu"))
        self.ecu = ecu
        self.rx: asyncio.Queue[tuple[bytes, int]] = asyncio.Queue()
        self.n = 0
        self.writer_of: dict[int, str] = {}
        self.trace: list[str] = []

    @classmethod
    async def connect(cls, target, timeout=None):  # type: ignore[no-untyped-def]
        raise ConnectionError("not needed")

    async def close(self) -> None:
        self.is_closed = True

    async def write(self, data: bytes, timeout: float | None = None, tags=None) -> int:  # type: ignore[no-untyped-def]
        loop = asyncio.get_running_loop()
        self.n += 1
        no = self.n
        self.writer_of[no] = tname()
        self.trace.append(f"t={loop.time():.3f} write #{no} by {tname()}: {data.hex()}")
        for delay, reply in self.ecu(no, data):
            loop.call_later(delay, self.rx.put_nowait, (reply, no))
        return len(data)

    async def read(self, timeout: float | None = None, tags=None) -> bytes:  # type: ignore[no-untyped-def]
        loop = asyncio.get_running_loop()
        data, no = await asyncio.wait_for(self.rx.get(), timeout)
        mark = "" if self.writer_of[no] == tname() else "FOREIGN: "
        self.trace.append(
            f"t={loop.time():.3f} read by {tname()}: {data.hex()}   ({mark}the ECU's answer to request #{no} of {self.writer_of[no]})"
        )
        return data




async def scenario(ecu_answers_tp: bool) -> list[str]:
    def ecu(no: int, data: bytes) -> list[tuple[float, bytes]]:
        if data[0] == 0x3E:
            # suppressPosRspMsgIndicationBit is set: a conforming ECU stays silent; negative
            # responses are never suppressed
            return [(0.01, bytes.fromhex("7f3e12"))] if ecu_answers_tp else []
        return [(0.01, bytes.fromhex("7f2278")), (0.90, bytes([0x62, data[1], data[2], no]))]

    tr = FakeTransport(ecu)
    client = UDSClient(tr, timeout=0.2, max_retry=0)
    events: list[tuple[float, str]] = []
    out: dict[str, object] = {}
    loop = asyncio.get_running_loop()

    async def a() -> None:
        try:
            out["A"] = await client.read_data_by_identifier(0x1000)
        except Exception as e:
            out["A"] = e
        events.append((loop.time(), "A returned"))

    async def b() -> None:
        await asyncio.sleep(0.3)
        try:
            out["B"] = await client._tester_present(suppress_resp=True)
        except Exception as e:
            out["B"] = e
        events.append((loop.time(), "B returned"))

    await asyncio.gather(
        asyncio.create_task(a(), name="A"),
        asyncio.create_task(b(), name="B"),
    )
    print(f"--- ECU answers the TesterPresent: {ecu_answers_tp}")
    print("\n".join(tr.trace))
    for t, e in events:
        print(f"t={t:.3f} {e}")
    print(f"A got: {out['A']!r}")
    t_a_returned = next(t for t, e in events if e == "A returned")
    problems = []
    for line in tr.trace:
        if " write " in line and " by B" in line:
            t_w = float(line.split()[0][2:])
            if t_w < t_a_returned:
                problems.append(
                    f"B transmitted at t={t_w:.3f} while A's exchange (t=0.000 .. {t_a_returned:.3f}) was in flight: {line}"
                )
    problems += [line for line in tr.trace if "FOREIGN" in line]
    return problems


def main() -> int:
    problems: list[str] = []
    for answers in (False, True):
        loop = VLoop()
        try:
            problems += loop.run_until_complete(scenario(answers))
        finally:
            loop.close()
    if problems:
        print("\nVIOLATION of C05:")
        for p in problems:
            print(" -", p.strip())
        return 1
    print("ok: the TesterPresent was transmitted after A's exchange had finished")
    return 0


sys.exit(main())
