import asyncio, logging, sqlite3, sys, tempfile
from datetime import UTC, datetime
from pathlib import Path

import gallia.command  # noqa: F401  (must be imported first: gallia.db.handler <-> gallia.command import cycle)
from gallia.command.config import GalliaBaseModel
from gallia.db.handler import DBHandler
from gallia.services.uds.core.client import UDSRequestConfig
from gallia.services.uds.ecu import ECU
from gallia.transports.base import BaseTransport, TargetURI

logging.disable(logging.CRITICAL)


class Cfg(GalliaBaseModel):
    pass


class Scripted(BaseTransport, scheme="fake"):
    """In-memory transport. script[i] = list of things the i-th write is answered with
    (bytes = a reply, exception instance = raised by read, nothing left = timeout)."""

    def __init__(self, script, delay=0.0):
        super().__init__(TargetURI("fake://ecu"))
        self.script = [list(x) for x in script]
        self.pending = []
        self.writes = []
        self.delay = delay

    @classmethod
    async def connect(cls, target, timeout=None):
        raise ConnectionError("scripted transport cannot reconnect")

    async def close(self):
        self.is_closed = True

    async def write(self, data, timeout=None, tags=None):
        self.writes.append(bytes(data))
        self.pending = self.script.pop(0) if self.script else []
        return len(data)

    async def read(self, timeout=None, tags=None):
        await asyncio.sleep(self.delay)
        if not self.pending:
            raise TimeoutError("scripted timeout")
        x = self.pending.pop(0)
        if isinstance(x, BaseException):
            raise x
        return x


async def setup(tmpdir, transport, max_retry=0):
    db = DBHandler(Path(tmpdir) / "scan.sqlite")
    await db.connect()
    await db.insert_run_meta("finding", Cfg(), datetime.now(UTC).astimezone(), None)
    await db.insert_scan_run("fake://ecu")
    ecu = ECU(transport, timeout=0.05, max_retry=max_retry)
    ecu.db_handler = db
    return db, ecu


def read_rows(tmpdir):
    c = sqlite3.connect(str(Path(tmpdir) / "scan.sqlite"))
    c.row_factory = sqlite3.Row
    r = [dict(x) for x in c.execute("SELECT * FROM scan_result ORDER BY id")]
    c.close()
    return r


async def main() -> int:
    # Two users of the same ECU client, as in every UDSScanner: the cyclic TesterPresent worker and
    # the scanner's main task.  While the worker's exchange is in flight (it holds the client mutex),
    # the main task issues a request under a deadline; the deadline cancels it while it still waits
    # for the mutex, i.e. BEFORE anything was written to the transport.
    with tempfile.TemporaryDirectory() as d:
        tr = Scripted([[bytes.fromhex("7e00")]] * 50, delay=0.2)
        db, ecu = await setup(d, tr)
        ecu.timeout = 1
        await ecu.start_cyclic_tester_present(0.05)
        await asyncio.sleep(0.1)  # worker has written 3e00 and waits for the reply
        assert tr.writes == [bytes.fromhex("3e00")], tr.writes
        try:
            await asyncio.wait_for(ecu.read_data_by_identifier(0xF190), 0.05)
            print("unexpected: request completed")
        except TimeoutError:
            print("main task: read_data_by_identifier(0xf190) cancelled by its deadline while waiting for the client mutex")
        await asyncio.sleep(0.2)  # let the worker's exchange finish
        await ecu.stop_cyclic_tester_present()
        await db.disconnect()
        rows = read_rows(d)
    wire = [w.hex() for w in tr.writes]
    got = [r["request_pdu"] for r in rows]
    print("requests put on the wire:", wire)
    print("scan_result rows        :", [(r["id"], r["request_pdu"], r["response_pdu"], r["exception"]) for r in rows])
    if got != wire:
        extra = [g for g in got if g not in wire]
        print(f"VIOLATION: rows do not correspond 1:1, in order, to the transmitted requests; "
              f"row(s) for never-transmitted request(s) {extra} (response NULL, exception NULL) were recorded")
        return 1
    print("ok: rows correspond to transmissions")
    return 0


sys.exit(asyncio.run(main()))
