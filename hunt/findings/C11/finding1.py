import asyncio, logging, sqlite3, sys, tempfile
from datetime import UTC, datetime
from pathlib import Path

import gallia.command  # noqa: F401  (must be imported first: gallia.db.handler <-> gallia.command import cycle)
from gallia.command.config import GalliaBaseModel
from gallia.db.handler import DBHandler
from gallia.services.uds.core.client import UDSRequestConfig
from gallia.services.uds.ecu import ECU
from gallia.transports.base import BaseTransport, TargetURI

logging.disable(logging.CRITICAL)


class Cfg(GalliaBaseModel):
    pass


class Scripted(BaseTransport, scheme="fake"):
    """In-memory transport. script[i] = list of things the i-th write is answered with
    (bytes = a reply, exception instance = raised by read, nothing left = timeout)."""

    def __init__(self, script, delay=0.0):
        super().__init__(TargetURI("fake://ecu"))
        self.script = [list(x) for x in script]
        self.pending = []
        self.writes = []
        self.delay = delay

    @classmethod
    async def connect(cls, target, timeout=None):
        raise ConnectionError("scripted transport cannot reconnect")

    async def close(self):
        self.is_closed = True

    async def write(self, data, timeout=None, tags=None):
        self.writes.append(bytes(data))
        self.pending = self.script.pop(0) if self.script else []
        return len(data)

    async def read(self, timeout=None, tags=None):
        await asyncio.sleep(self.delay)
        if not self.pending:
            raise TimeoutError("scripted timeout")
        x = self.pending.pop(0)
        if isinstance(x, BaseException):
            raise x
        return x


async def setup(tmpdir, transport, max_retry=0):
    db = DBHandler(Path(tmpdir) / "scan.sqlite")
    await db.connect()
    await db.insert_run_meta("finding", Cfg(), datetime.now(UTC).astimezone(), None)
    await db.insert_scan_run("fake://ecu")
    ecu = ECU(transport, timeout=0.05, max_retry=max_retry)
    ecu.db_handler = db
    return db, ecu


def read_rows(tmpdir):
    c = sqlite3.connect(str(Path(tmpdir) / "scan.sqlite"))
    c.row_factory = sqlite3.Row
    r = [dict(x) for x in c.execute("SELECT * FROM scan_result ORDER BY id")]
    c.close()
    return r


async def main() -> int:
    # ReadDTCInformation/reportDTCByStatusMask reply that lists DTC 0x000001 twice
    # (status 0x08, then status 0x09) - perfectly parseable, matching, positive reply.
    reply = bytes.fromhex("5902ff" "00000108" "00000109")
    with tempfile.TemporaryDirectory() as d:
        tr = Scripted([[reply]])
        db, ecu = await setup(d, tr)
        resp = await ecu.read_dtc()
        await db.disconnect()
        rows = read_rows(d)
    print("request on the wire :", tr.writes[0].hex())
    print("reply on the wire   :", reply.hex())
    print("client result       :", repr(resp))
    print("rows                :", len(rows))
    if len(rows) != 1:
        print("VIOLATION: expected exactly one row")
        return 1
    print("row.response_pdu    :", rows[0]["response_pdu"])
    print("row.response_data   :", rows[0]["response_data"])
    if rows[0]["request_pdu"] != tr.writes[0].hex():
        print("VIOLATION: request bytes differ")
        return 1
    if rows[0]["response_pdu"] != reply.hex():
        print("VIOLATION: scan_result.response_pdu is not the reply that was received "
              f"({rows[0]['response_pdu']} != {reply.hex()}): the row holds a re-encoding of the parsed "
              "response object, the first DTC record was dropped")
        return 1
    print("ok: reply recorded byte-exact")
    return 0


sys.exit(asyncio.run(main()))
