import asyncio, logging, sqlite3, sys, tempfile
from datetime import UTC, datetime
from pathlib import Path

import gallia.command  # noqa: F401  (must be imported first: gallia.db.handler <-> gallia.command import cycle)
from gallia.command.config import GalliaBaseModel
from gallia.db.handler import DBHandler
from gallia.services.uds.core.client import UDSRequestConfig
from gallia.services.uds.ecu import ECU
from gallia.transports.base import BaseTransport, TargetURI

logging.disable(logging.CRITICAL)


class Cfg(GalliaBaseModel):
    pass


class Scripted(BaseTransport, scheme="fake"):
    """In-memory transport. script[i] = list of things the i-th write is answered with
    (bytes = a reply, exception instance = raised by read, nothing left = timeout)."""

    def __init__(self, script, delay=0.0):
        super().__init__(TargetURI("fake://ecu"))
        self.script = [list(x) for x in script]
        self.pending = []
        self.writes = []
        self.delay = delay

    @classmethod
    async def connect(cls, target, timeout=None):
        raise ConnectionError("scripted transport cannot reconnect")

    async def close(self):
        self.is_closed = True

    async def write(self, data, timeout=None, tags=None):
        self.writes.append(bytes(data))
        self.pending = self.script.pop(0) if self.script else []
        return len(data)

    async def read(self, timeout=None, tags=None):
        await asyncio.sleep(self.delay)
        if not self.pending:
            raise TimeoutError("scripted timeout")
        x = self.pending.pop(0)
        if isinstance(x, BaseException):
            raise x
        return x


async def setup(tmpdir, transport, max_retry=0):
    db = DBHandler(Path(tmpdir) / "scan.sqlite")
    await db.connect()
    await db.insert_run_meta("finding", Cfg(), datetime.now(UTC).astimezone(), None)
    await db.insert_scan_run("fake://ecu")
    ecu = ECU(transport, timeout=0.05, max_retry=max_retry)
    ecu.db_handler = db
    return db, ecu


def read_rows(tmpdir):
    c = sqlite3.connect(str(Path(tmpdir) / "scan.sqlite"))
    c.row_factory = sqlite3.Row
    r = [dict(x) for x in c.execute("SELECT * FROM scan_result ORDER BY id")]
    c.close()
    return r


async def main() -> int:
    # One logical request, client configured with retries (UDSScanner default: max_retries=3).
    # attempt 1: no reply (timeout); attempt 2: NRC busyRepeatRequest; attempt 3: positive reply.
    script = [[], [bytes.fromhex("7f2221")], [bytes.fromhex("62f1904142")]]
    with tempfile.TemporaryDirectory() as d:
        tr = Scripted(script)
        db, ecu = await setup(d, tr, max_retry=2)
        ecu.retry_wait = 0.01
        resp = await ecu.read_data_by_identifier(0xF190)
        await db.disconnect()
        rows = read_rows(d)
    print("client result:", repr(resp))
    print("requests put on the wire:", [w.hex() for w in tr.writes])
    print("scan_result rows        :", [(r["request_pdu"], r["response_pdu"], r["exception"]) for r in rows])
    bad = False
    if len(rows) != len(tr.writes):
        print(f"VIOLATION: {len(tr.writes)} requests were transmitted but {len(rows)} row(s) were recorded; "
              "the timed-out transmission and the one answered with 7f2221 left no trace")
        bad = True
    recorded_replies = {r["response_pdu"] for r in rows}
    if "7f2221" not in recorded_replies:
        print("VIOLATION: the reply 7f2221 (busyRepeatRequest) received for the 2nd transmission is in no row")
        bad = True
    if not bad:
        print("ok: one row per transmission")
    return 1 if bad else 0


sys.exit(asyncio.run(main()))
