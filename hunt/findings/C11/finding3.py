import asyncio, logging, sqlite3, sys, tempfile
from datetime import UTC, datetime
from pathlib import Path

import gallia.command  # noqa: F401  (must be imported first: gallia.db.handler <-> gallia.command import cycle)
from gallia.command.config import GalliaBaseModel
from gallia.db.handler import DBHandler
from gallia.services.uds.core.client import UDSRequestConfig
from gallia.services.uds.ecu import ECU
from gallia.transports.base import BaseTransport, TargetURI

logging.disable(logging.CRITICAL)


class Cfg(GalliaBaseModel):
    pass


class Scripted(BaseTransport, scheme="fake"):
    """In-memory transport. script[i] = list of things the i-th write is answered with
    (bytes = a reply, exception instance = raised by read, nothing left = timeout)."""

    def __init__(self, script, delay=0.0):
        super().__init__(TargetURI("fake://ecu"))
        self.script = [list(x) for x in script]
        self.pending = []
        self.writes = []
        self.delay = delay

    @classmethod
    async def connect(cls, target, timeout=None):
        raise ConnectionError("scripted transport cannot reconnect")

    async def close(self):
        self.is_closed = True

    async def write(self, data, timeout=None, tags=None):
        self.writes.append(bytes(data))
        self.pending = self.script.pop(0) if self.script else []
        return len(data)

    async def read(self, timeout=None, tags=None):
        await asyncio.sleep(self.delay)
        if not self.pending:
            raise TimeoutError("scripted timeout")
        x = self.pending.pop(0)
        if isinstance(x, BaseException):
            raise x
        return x


async def setup(tmpdir, transport, max_retry=0):
    db = DBHandler(Path(tmpdir) / "scan.sqlite")
    await db.connect()
    await db.insert_run_meta("finding", Cfg(), datetime.now(UTC).astimezone(), None)
    await db.insert_scan_run("fake://ecu")
    ecu = ECU(transport, timeout=0.05, max_retry=max_retry)
    ecu.db_handler = db
    return db, ecu


def read_rows(tmpdir):
    c = sqlite3.connect(str(Path(tmpdir) / "scan.sqlite"))
    c.row_factory = sqlite3.Row
    r = [dict(x) for x in c.execute("SELECT * FROM scan_result ORDER BY id")]
    c.close()
    return r


async def main() -> int:
    # history of 3 exchanges: positive reply, mismatching reply, malformed reply
    script = [
        [bytes.fromhex("62f1904142")],  # matching positive reply
        [bytes.fromhex("7e00")],        # TesterPresent reply to a ReadDataByIdentifier request -> RequestResponseMismatch
        [bytes.fromhex("62f1")],        # truncated reply -> MalformedResponse
    ]
    outcomes = []
    with tempfile.TemporaryDirectory() as d:
        tr = Scripted(script, delay=0.01)
        db, ecu = await setup(d, tr)
        for _ in script:
            try:
                outcomes.append(repr(await ecu.read_data_by_identifier(0xF190)))
            except Exception as e:
                outcomes.append(repr(e))
        await db.disconnect()
        rows = read_rows(d)
    bad = False
    if len(rows) != 3:
        print("VIOLATION: expected 3 rows, got", len(rows))
        return 1
    for o, r in zip(outcomes, rows):
        print(f"outcome={o}\n   request_time={r['request_time']} response_pdu={r['response_pdu']} "
              f"response_time={r['response_time']} response_timezone={r['response_timezone']}")
        if r["response_pdu"] is not None:
            if r["response_time"] is None:
                print("   VIOLATION: a reply was received and recorded, but the row has no receive time "
                      "(send time <= receive time cannot hold)")
                bad = True
            elif r["request_time"] > r["response_time"]:
                print("   VIOLATION: send time after receive time")
                bad = True
    if not bad:
        print("ok: every recorded reply has a receive time not before the send time")
    return 1 if bad else 0


sys.exit(asyncio.run(main()))
