"""C16: the same virtual ECU (same seed, same arguments, same request history) answers differently
when the interpreter runs with PYTHONOPTIMIZE=1 / `python -O`.

UDSRequest.parse_dynamic() binds the request type inside an assert
(`assert (request_type := request_sub_function.Request) is not None`) and UDSRequest.from_pdu()
validates with `assert result.pdu == pdu`.  Without asserts every request of a
SpecializedSubFunctionService (SecurityAccess, RoutineControl, ReadDTCInformation, ...) degrades to a
RawRequest (-> NRC 0x13) and non-canonical requests that are normally rejected get a positive answer.
"""
import os
import subprocess
import sys

CHILD = r"""
import asyncio, logging, sys
logging.disable(logging.CRITICAL)
from gallia.services.uds.core.constants import UDSIsoServices as S
from gallia.services.uds.server import RandomUDSServer, UDSServerTransport

async def main():
    P = RandomUDSServer.RandomnessParameters
    server = RandomUDSServer(
        1234,
        P(
            mandatory_services=[S.DiagnosticSessionControl, S.ReadDTCInformation, S.RoutineControl,
                                S.ReadDataByIdentifier, S.SecurityAccess],
            optional_services=[],
            p_identifier=1.0, p_correct_payload_format=1.0, p_sub_function=1.0, p_dtc_status_mask=1.0,
        ),
    )
    await server.setup()
    transport = UDSServerTransport(server, None)
    import hashlib, json
    model = {str(k): {str(int(s)): (None if sf is None else [int(x) for x in sf]) for s, sf in v.items()} for k, v in server.services.items()}
    print("model sha256", hashlib.sha256(json.dumps(model, sort_keys=True).encode()).hexdigest()[:16])
    for req in ["1001", "1902ff", "19020f", "31010203", "3101aabbcc", "22f190", "22f19000", "2251d5814204", "2702aa"]:
        pdu, _ = await transport.handle_request(bytes.fromhex(req))
        text = "None" if pdu is None else pdu.hex()
        print(req, "->", text if len(text) <= 40 else f"{text[:32]}...({len(pdu)} bytes, sha256 {hashlib.sha256(pdu).hexdigest()[:8]})")

asyncio.run(main())
"""


def run(optimize: bool) -> str:
    env = dict(os.environ)
    env["PYTHONHASHSEED"] = "0"
    env.pop("PYTHONOPTIMIZE", None)
    if optimize:
        env["PYTHONOPTIMIZE"] = "1"
    p = subprocess.run(
        [sys.executable, "-c", CHILD], env=env, capture_output=True, text=True, timeout=50
    )
    if p.returncode != 0:
        return f"child failed ({p.returncode}):\n{p.stderr[-2000:]}"
    return p.stdout


normal = run(False)
optimized = run(True)
differences = [
    (a, b) for a, b in zip(normal.splitlines(), optimized.splitlines(), strict=False) if a != b
]

print("--- process A (default environment)")
print(normal)
print("--- process B (PYTHONOPTIMIZE=1), same seed / arguments / history")
print(optimized)

if differences or len(normal.splitlines()) != len(optimized.splitlines()):
    print("VIOLATION: same seed + arguments + request history, different answers:")
    for a, b in differences:
        print(f"   A: {a:<60}  B: {b}")
    sys.exit(1)

print("ok: byte-identical")
sys.exit(0)
