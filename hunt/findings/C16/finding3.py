"""C16: answers of the virtual ECU depend on the wall clock.

UDSServerTransport.handle_request() compares time.time() (wall clock, not monotonic) with the time
stamp of the previous request and resets the ECU state when the difference exceeds 10 s.  Two
ECUs with the same seed/arguments that receive the same request history therefore answer
differently (a) when one tester is merely slower than the other and (b) even with identical pacing
when the system clock of one host is stepped (NTP / manual adjustment) between two requests.
"""
import asyncio
import logging
import sys
import time

import gallia.services.uds.server as server_module
from gallia.services.uds.server import RandomUDSServer, UDSServerTransport

logging.disable(logging.CRITICAL)

HISTORY = ["1003", "22f186", "1001", "1003", "3e00", "22f186"]


async def make() -> UDSServerTransport:
    P = RandomUDSServer.RandomnessParameters
    server = RandomUDSServer(99, P(mandatory_sessions=[1, 3], optional_sessions=[], p_session=0.0, mandatory_services=[0x10, 0x22, 0x3E]))
    await server.setup()
    assert server.services[1][0x10] == [1, 3], server.services
    return UDSServerTransport(server, None)  # type: ignore[arg-type]


async def play(transport: UDSServerTransport, pause_before: dict[int, float]) -> list[str]:
    out = []
    for i, req in enumerate(HISTORY):
        if i in pause_before:
            await asyncio.sleep(pause_before[i])
        pdu, _ = await transport.handle_request(bytes.fromhex(req))
        out.append(f"{req}>{None if pdu is None else pdu.hex()}")
    return out


async def main() -> int:
    bad = False

    # (a) identical history, one tester pauses 10.3 s before the second request
    fast = await play(await make(), {})
    slow = await play(await make(), {1: 10.3})
    print("fast tester :", fast)
    print("slow tester :", slow)
    if fast != slow:
        bad = True
        print("VIOLATION (a): same seed/arguments/history, answers differ only because of elapsed wall time")

    # (b) identical history and identical pacing, but the wall clock of host B is stepped forward by
    # one hour between request 0 and request 1 (what time.time() reports after an NTP step).
    real_time = time.time
    offset = 0.0

    def stepped_time() -> float:
        return real_time() + offset

    ref = await play(await make(), {})
    server_module.time = stepped_time  # the module does `from time import time`
    try:
        transport = await make()
        out = []
        for i, req in enumerate(HISTORY):
            if i == 1:
                offset = 3600.0
            pdu, _ = await transport.handle_request(bytes.fromhex(req))
            out.append(f"{req}>{None if pdu is None else pdu.hex()}")
    finally:
        server_module.time = real_time
    print("host A      :", ref)
    print("host B (clock stepped +1h after 1st request):", out)
    if ref != out:
        bad = True
        print("VIOLATION (b): same seed/arguments/history/pacing, answers differ because of a wall clock step")

    return 1 if bad else 0


sys.exit(asyncio.run(main()))
