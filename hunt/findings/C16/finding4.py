"""C16: a mandatory (or randomly drawn optional) session 0x7F makes randomize() crash instead of
offering it.

The UDS codec of the project accepts session / sub-function values 0x00..0x7F
(check_sub_function, DiagnosticSessionControlRequest(0x7F) is a valid request), and
RandomnessParameters accepts any int in mandatory_sessions / optional_sessions, but
RandomUDSServer.randomize() sizes its transition table with range(0x7F), i.e. indices 0..0x7E.
- mandatory_sessions containing 0x7F (e.g. the "full" list 1..0x7F): setup() always raises IndexError
- optional_sessions containing 0x7F: setup() works or raises IndexError depending on the seed
"""
import asyncio
import logging
import sys

from gallia.services.uds.core import service
from gallia.services.uds.server import RandomUDSServer

logging.disable(logging.CRITICAL)

P = RandomUDSServer.RandomnessParameters


async def try_setup(seed: int, **kw: object) -> tuple[str, RandomUDSServer]:
    server = RandomUDSServer(seed, P(**kw))
    try:
        await server.setup()
    except Exception as e:  # noqa: BLE001
        return f"setup() raised {e!r}", server
    return "ok", server


async def main() -> int:
    bad = False

    # the value is inside the range the codec itself accepts
    req = service.DiagnosticSessionControlRequest(0x7F)
    assert service.UDSRequest.parse_dynamic(req.pdu).pdu == bytes([0x10, 0x7F])

    for name, kw in {
        "mandatory_sessions=[1, 0x7F]": dict(mandatory_sessions=[1, 0x7F]),
        "mandatory_sessions=full list 0x01..0x7F, optional_sessions=[]": dict(
            mandatory_sessions=list(range(1, 0x80)), optional_sessions=[]
        ),
        "control: mandatory_sessions=0x01..0x7E": dict(
            mandatory_sessions=list(range(1, 0x7F)), optional_sessions=[]
        ),
    }.items():
        result, server = await try_setup(5, **kw)
        missing = [s for s in server.randomness_parameters.mandatory_sessions if s not in server.services]
        print(f"{name}: {result}; mandatory sessions not offered: {len(missing)}")
        if result != "ok" or missing:
            bad = True

    # optional 0x7F: whether the ECU can be started at all depends on the seed
    outcome = {}
    for seed in range(40):
        result, _ = await try_setup(
            seed, optional_sessions=list(range(2, 0x80)), p_session=1.0
        )
        outcome[seed] = result
    crashing = [s for s, r in outcome.items() if r != "ok"]
    print(
        f"optional_sessions=0x02..0x7F, p_session=1.0: seeds 0..39 -> {len(crashing)} seeds crash in setup(): "
        f"{crashing} ({outcome[crashing[0]] if crashing else ''})"
    )
    if crashing:
        bad = True

    if bad:
        print("VIOLATION: mandatory session 0x7F is never present / the ECU cannot be built for these arguments")
    return 1 if bad else 0


sys.exit(asyncio.run(main()))
