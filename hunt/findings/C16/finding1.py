"""C16: offered sessions are unreachable as soon as DiagnosticSessionControl is not in
mandatory_services (e.g. `--mandatory-services ReadDataByIdentifier`, or an empty list).

RandomUDSServer.randomize() builds a session graph and offers every session of it (keys of
.services), but the only way to walk the graph - service 0x10 - is offered only if the user left
it in mandatory_services (the default optional_services never contains it, because that default
is frozen at class-definition time from the *default* mandatory list).
"""
import asyncio
import logging
import sys

from gallia.services.uds.core.constants import UDSIsoServices as S
from gallia.services.uds.server import RandomUDSServer, UDSServerTransport

logging.disable(logging.CRITICAL)


async def explore(seed: int, params: RandomUDSServer.RandomnessParameters) -> tuple[set[int], set[int], set[int]]:
    """Return (offered sessions, sessions entered with real 0x10 requests, sessions that get back to 1)."""
    server = RandomUDSServer(seed, params)
    await server.setup()
    transport = UDSServerTransport(server, None)  # type: ignore[arg-type]
    offered = set(server.services)

    async def goto(path: list[int]) -> bool:
        server.state.reset()
        for session in path:
            pdu, _ = await transport.handle_request(bytes([0x10, session]))
            if pdu != bytes([0x50, session]) or server.state.session != session:
                return False
        return True

    # breadth first search from the default session, only with real requests; every offered
    # session number is tried in every reached session
    paths: dict[int, list[int]] = {1: []}
    todo = [1]
    while todo:
        current = todo.pop(0)
        for target in sorted(offered):
            if target in paths:
                continue
            if await goto(paths[current] + [target]):
                paths[target] = paths[current] + [target]
                todo.append(target)

    returning = set()
    for session, path in paths.items():
        # try to get back to the default session: directly, or via any offered session
        assert await goto(path)
        seen = {session}
        frontier = [path]
        ok = session == 1
        while frontier and not ok:
            p = frontier.pop(0)
            for target in sorted(offered):
                if await goto(p + [target]):
                    if target == 1:
                        ok = True
                        break
                    if target not in seen:
                        seen.add(target)
                        frontier.append(p + [target])
        if ok:
            returning.add(session)

    return offered, set(paths), returning


async def main() -> int:
    P = RandomUDSServer.RandomnessParameters
    bad = 0
    cases = {
        "mandatory_services=[ReadDataByIdentifier], mandatory_sessions=[1,2,3]": dict(
            mandatory_services=[S.ReadDataByIdentifier], mandatory_sessions=[1, 2, 3]
        ),
        "mandatory_services=[] (empty), mandatory_sessions=[1,2,3]": dict(
            mandatory_services=[], mandatory_sessions=[1, 2, 3]
        ),
        "mandatory_services=[], optional_services=all services (full), p_service=0.5": dict(
            mandatory_services=[],
            optional_services=list(S),
            p_service=0.5,
            mandatory_sessions=[1, 2, 3],
        ),
        "control: defaults + mandatory_sessions=[1,2,3]": dict(mandatory_sessions=[1, 2, 3]),
    }
    for name, kw in cases.items():
        for seed in (1, 2, 3):
            offered, reached, returning = await explore(seed, P(**kw))
            unreachable = sorted(offered - reached)
            stuck = sorted(reached - returning)
            status = "ok"
            if unreachable or stuck:
                status = "VIOLATION"
                if not name.startswith("control"):
                    bad += 1
                else:
                    bad += 100
            print(
                f"[{status}] {name}, seed={seed}: offered={sorted(offered)} "
                f"unreachable from default={unreachable} cannot return to default={stuck}"
            )
    if bad:
        print(
            "\nSessions are offered (keys of RandomUDSServer.services, mandatory sessions included) "
            "that no sequence of requests can enter from the default session."
        )
        return 1
    return 0


sys.exit(asyncio.run(main()))
