"""C02 finding 1: ReadDTCInformation list responses (0x59 sub 02/0A/0F/13/15) lose records.

_ReadDTCType1Response keeps the DTCAndStatusRecord list in a dict keyed by the DTC, so a
response in which the same 3-byte DTC occurs in more than one 4-byte record is accepted as a
typed response, but the exposed records and the re-serialised pdu (and therefore the
scan_result.response_pdu column) silently drop / merge records.
"""
import asyncio
import sqlite3
import sys
import tempfile
from datetime import datetime, timezone
from pathlib import Path

from gallia.services.uds.core.service import RawRequest, RawResponse, UDSResponse

failures: list[str] = []

# valid neighbour: 59 02 ff | 010203 08 | 010207 09   (two different DTCs)
# one flipped bit (07 -> 03) gives two records for DTC 0x010203 with different status bytes
CASES = [
    ("reportDTCByStatusMask, bit-flipped neighbour", "5902ff" "01020308" "01020309"),
    ("reportDTCByStatusMask, record sent twice", "5902ff" "01020308" "0a0b0c2f" "01020308"),
    ("reportSupportedDTC", "590aff" "01020308" "01020309"),
    ("reportMirrorMemoryDTCByStatusMask", "590fff" "01020308" "01020309"),
    ("reportEmissionsRelatedOBDDTCByStatusMask", "5913ff" "01020308" "01020309"),
    ("reportDTCWithPermanentStatus", "5915ff" "01020308" "01020309"),
]

parsed = []
for title, hx in CASES:
    pdu = bytes.fromhex(hx)
    try:
        resp = UDSResponse.parse_dynamic(pdu)
    except ValueError as e:
        print(f"[ok] {title}: {hx} rejected ({e})")
        continue
    if isinstance(resp, RawResponse):
        print(f"[ok] {title}: {hx} kept raw")
        continue

    wire_records = [(int.from_bytes(pdu[i : i + 3], "big"), pdu[i + 3]) for i in range(3, len(pdu), 4)]
    exposed = list(resp.dtc_and_status_record.items())  # type: ignore[attr-defined]
    out = resp.pdu
    parsed.append((pdu, resp))

    if out != pdu or exposed != wire_records:
        failures.append(title)
        print(f"[VIOLATION] {title}: accepted as {type(resp).__name__}")
        print(f"    received      : {pdu.hex()}  records={[(hex(d), hex(s)) for d, s in wire_records]}")
        print(f"    re-serialised : {out.hex()}  exposed={[(hex(d), hex(s)) for d, s in exposed]}")
    else:
        print(f"[ok] {title}: round trip ok")


# Same thing observed at the scan_result.response_pdu column
async def db_check() -> None:
    import gallia.command  # noqa: F401  (resolves the import cycle of gallia.db.handler)
    from gallia.command.config import GalliaBaseModel
    from gallia.db.handler import DBHandler, LogMode

    class Cfg(GalliaBaseModel):
        pass

    with tempfile.TemporaryDirectory() as d:
        path = Path(d) / "c02.sqlite"
        db = DBHandler(path)
        await db.connect()
        now = datetime.now(timezone.utc).astimezone()
        await db.insert_run_meta("finding1", Cfg(), now, None)
        await db.insert_scan_run("isotp://finding1")
        for _pdu, resp in parsed:
            await db.insert_scan_result({}, RawRequest(b"\x19\x02\xff"), resp, None, now, now, LogMode.implicit)
        await db.disconnect()
        con = sqlite3.connect(path)
        rows = con.execute("SELECT response_pdu FROM scan_result ORDER BY id").fetchall()
        con.close()
    for (pdu, _resp), (col,) in zip(parsed, rows):
        if col != pdu.hex():
            failures.append("db")
            print(f"[VIOLATION] scan_result.response_pdu = {col}  but the ECU sent {pdu.hex()}")


try:
    asyncio.run(db_check())
except Exception as e:  # the DB part is only an additional observation point
    print(f"(db observation skipped: {e!r})")

if failures:
    print(f"FAIL: {len(failures)} violations")
    sys.exit(1)
print("PASS")
sys.exit(0)
