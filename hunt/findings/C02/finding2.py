"""C02 finding 2: the four specialised InputOutputControlByIdentifier responses do not round trip.

ReturnControlToECUResponse / ResetToDefaultResponse / FreezeCurrentStateResponse /
ShortTermAdjustmentResponse inherit _from_pdu from InputOutputControlByIdentifierResponse, which calls
cls(data_identifier, pdu[3:]).  Their __init__ takes `control_states` and PREPENDS the
inputOutputControlParameter byte, so from_pdu() inserts an extra byte after the DID - and it never
checks that the received inputOutputControlParameter (pdu[3]) is the one the class stands for.
"""
import sys

from gallia.services.uds.core.constants import InputOutputControlParameter as P
from gallia.services.uds.core.service import (
    FreezeCurrentStateResponse,
    InputOutputControlByIdentifierResponse,
    ResetToDefaultResponse,
    ReturnControlToECUResponse,
    ShortTermAdjustmentResponse,
)

CLASSES = {
    ReturnControlToECUResponse: P.returnControlToECU,
    ResetToDefaultResponse: P.resetToDefault,
    FreezeCurrentStateResponse: P.freezeCurrentState,
    ShortTermAdjustmentResponse: P.shortTermAdjustment,
}

failures = 0
for cls, param in CLASSES.items():
    # every valid response 6F DID param [controlState...] for a few DIDs / state lengths,
    # plus the neighbours carrying a different inputOutputControlParameter
    for did in (0x0000, 0xF190, 0xFFFF):
        for states in (b"", b"\xaa", b"\x00\x01\x02\x03"):
            for p in range(4):
                pdu = bytes([0x6F]) + did.to_bytes(2, "big") + bytes([p]) + states
                generic = InputOutputControlByIdentifierResponse.from_pdu(pdu)
                assert generic.pdu == pdu  # the generic sibling is lossless
                try:
                    resp = cls.from_pdu(pdu)
                except ValueError:
                    if p == param:
                        failures += 1
                        print(f"[VIOLATION] {cls.__name__} rejects its own valid response {pdu.hex()}")
                    continue
                out = resp.pdu
                ok = out == pdu and resp.control_status_record == pdu[3:]
                if not ok:
                    failures += 1
                    if failures <= 12:
                        print(
                            f"[VIOLATION] {cls.__name__}.from_pdu({pdu.hex()}) accepted: "
                            f"control_status_record={resp.control_status_record.hex()} "
                            f"(received {pdu[3:].hex()}), .pdu={out.hex()}"
                        )

if failures:
    print(f"FAIL: {failures} accepted byte strings are not reproduced")
    sys.exit(1)
print("PASS")
sys.exit(0)
