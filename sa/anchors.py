"""Anchor functions per property: where the property's mechanism lives (patterns over qualified names).

Used by the self-test (mutants / behaviour-preserving variants) and by the call-site binding rule R0 of every check."""
from __future__ import annotations

ANCHORS: dict[str, list[str]] = {
    "C01": ["gallia.services.uds.core.service.*Request.pdu", "gallia.services.uds.core.service.*Request._from_pdu",
            "gallia.services.uds.core.service.*Request.__init__", "gallia.services.uds.core.utils.sub_function_split",
            "gallia.services.uds.core.utils.address_and_size_length", "gallia.services.uds.core.utils.uds_memory_parameters",
            "gallia.services.uds.core.utils.check_range", "gallia.services.uds.core.utils.check_data_identifier", "gallia.services.uds.core.utils.check_sub_function"],
    "C02": ["gallia.services.uds.core.service.*Response.pdu", "gallia.services.uds.core.service.*Response._from_pdu",
            "gallia.services.uds.core.service.*Response._check_pdu", "gallia.services.uds.core.service.*Response.__init__",
            "gallia.services.uds.core.service.*Response.*_bytes"],
    "C03": ["gallia.services.uds.core.service.*Response.matches", "gallia.services.uds.helpers.parse_pdu",
            "gallia.services.uds.core.service.RawPositiveResponse.service_id", "gallia.services.uds.core.service.SpecializedSubFunctionService._sub_function_type",
            "gallia.services.uds.core.service.UDSRequest.parse_dynamic", "gallia.services.uds.core.service.UDSRequest.from_pdu"],
    "C04": ["gallia.services.uds.core.client.UDSClient.request_unsafe", "gallia.transports.base.BaseTransport.request_unsafe"],
    "C05": ["gallia.services.uds.core.client.UDSClient._request", "gallia.services.uds.core.client.UDSClient.reconnect",
            "gallia.services.uds.ecu.ECU._tester_present_worker"],
    "C06": ["gallia.transports.doip.DoIPConnection.*", "gallia.transports.doip.DoIPTransport.*", "gallia.transports.doip.GenericHeader.*"],
    "C07": ["gallia.transports.hsfz.HSFZConnection.*", "gallia.transports.hsfz.HSFZHeader.*"],
    "C08": ["gallia.transports.base.BaseTransport.reconnect", "gallia.transports.doip.DoIPConnection.close", "gallia.transports.hsfz.HSFZConnection.close",

            "gallia.transports.tcp.TCPTransport.*", "gallia.transports.unix.UnixTransport.*", "gallia.transports.base.LinesTransportMixin.*"],
    "C09": ["gallia.commands.scan.uds.sessions.SessionsScanner.main", "gallia.commands.scan.uds.sessions.SessionsScanner._recover_stack",
            "gallia.commands.scan.uds.sessions.SessionsScanner.set_session_with_hooks_handling"],
    "C10": ["gallia.commands.scan.uds.services.ServicesScanner.perform_scan", "gallia.commands.scan.uds.identifiers.ScanIdentifiers.perform_scan",
            "gallia.utils.unravel_2d", "gallia.services.uds.ecu.ECU.check_and_set_session"],
    "C11": ["gallia.services.uds.ecu.ECU._request", "gallia.db.handler.DBHandler.insert_scan_result", "gallia.db.handler.DBHandler.disconnect",
            "gallia.db.handler.DBHandler.connect"],
    "C12": ["gallia.services.uds.server.DBUDSServer.respond_after_default", "gallia.services.uds.server.UDSServer.update_state", "gallia.services.uds.ecu.ECU.update_state"],
    "C13": ["gallia.services.uds.server.UDSServer.default_response_if_*", "gallia.services.uds.server.UDSServer.respond", "gallia.services.uds.server.UDSServer.respond_without_state_change",
            "gallia.services.uds.server.UDSServer._is_sub_function_request", "gallia.services.uds.server.UDSServer._is_sub_function_service"],
    "C14": ["gallia.services.uds.server.RandomUDSServer.*", "gallia.services.uds.server.UDSServerTransport.handle_request", "gallia.services.uds.server.RNG.random_payload"],
    "C15": ["gallia.command.base.BaseCommand.entry_point", "gallia.command.base.BaseCommand.run_hook", "gallia.command.base.AsyncScript.run",
            "gallia.command.base.BaseCommand._db_finish_run_meta", "gallia.log.remove_zst_log_handler"],
    "C16": ["gallia.services.uds.server.RandomUDSServer.randomize", "gallia.services.uds.server.RandomUDSServer.stateful_rng", "gallia.services.uds.server.RNG.*"],
    "C17": ["gallia.log.PenlogReader.*", "gallia.log.PenlogPriority.*", "gallia.log._ZstdFileHandler.emit", "gallia.log._ZstdFileHandler.close", "gallia.log.PenlogRecord.parse_*",
            "gallia.log._JSONFormatter.format"],
    "C18": ["gallia.cli.gallia._create_parser_from_command", "gallia.command.config.GalliaBaseModel.attributes_from_*", "gallia.config.Config.get_value",
            "gallia.pydantic_argparse.utils.pydantic.PydanticField.arg_*", "gallia.pydantic_argparse.argparse.parser.ArgumentParser._validation_error",
            "gallia.command.config.GalliaBaseModel.__init_subclass__"],
    "C19": ["gallia.transports.base.LinesTransportMixin.*", "gallia.services.uds.server.TCPUDSServerTransport.handle_client"],
    "C20": ["gallia.net.join_host_port", "gallia.transports.base.TargetURI.from_parts", "gallia.utils.unravel", "gallia.utils.unravel_2d", "gallia.utils.auto_int",
            "gallia.transports.hsfz.HSFZConfig.auto_int", "gallia.transports.doip.DoIPConfig.auto_int", "gallia.transports.isotp.ISOTPConfig.auto_int"],
}

# Functions that rules of a property read but that belong to another property's mechanism: behaviour-preserving variants are generated
# for them (the check must stay silent), mutants are not (their rules live in the other property's check).
NEUTRAL_EXTRA: dict[str, list[str]] = {
    "C04": ["gallia.transports.base.BaseTransport.reconnect", "gallia.services.uds.helpers.parse_pdu", "gallia.services.uds.core.client.UDSClient.reconnect_unsafe"],
    "C05": ["gallia.transports.base.BaseTransport.reconnect", "gallia.transports.base.BaseTransport.request"],
    "C07": ["gallia.transports.hsfz.HSFZTransport.connect", "gallia.commands.discover.hsfz.HSFZDiscoverer.probe"],
    "C08": ["gallia.transports.hsfz.HSFZTransport.connect", "gallia.commands.discover.hsfz.HSFZDiscoverer.probe"],
    "C09": ["gallia.services.uds.core.utils.check_sub_function", "gallia.utils.unravel", "gallia.services.uds.core.service.DiagnosticSessionControlRequest.__init__",
            "gallia.services.uds.core.client.UDSClient.request_unsafe"],
    "C10": ["gallia.utils.unravel", "gallia.services.uds.core.client.UDSClient.request_unsafe", "gallia.services.uds.core.utils.check_range",
            "gallia.services.uds.core.utils.check_data_identifier", "gallia.services.uds.core.utils.check_sub_function"],
    "C11": ["gallia.services.uds.core.client.UDSClient.ecu_reset", "gallia.services.uds.core.client.UDSClient.read_data_by_identifier", "gallia.command.uds.UDSScanner.setup", "gallia.services.uds.core.utils.bytes_repr", "gallia.services.uds.core.service.UDSRequest.from_pdu",
            "gallia.command.base.BaseCommand.entry_point"],
    "C12": ["gallia.db.handler.DBHandler.insert_scan_run", "gallia.db.handler.DBHandler.insert_scan_result", "gallia.commands.script.vecu.DbVirtualECU._server",
            "gallia.services.uds.ecu.ECU._request"],
    "C13": ["gallia.services.uds.core.service.UDSRequest.parse_dynamic", "gallia.services.uds.core.utils.sub_function_split",
            "gallia.services.uds.core.service.UDSRequest.from_pdu"],
    "C03": ["gallia.services.uds.core.utils.sub_function_split", "gallia.services.uds.core.service.TransferData*.__init__"],
    "C02": ["gallia.services.uds.core.utils.check_range", "gallia.services.uds.core.utils.check_data_identifier", "gallia.services.uds.core.utils.check_sub_function"],
    "C15": ["gallia.log._ZstdFileHandler.close"],
    "C16": ["gallia.commands.script.vecu.RngVirtualECU._server"],
    "C20": ["gallia.transports.base.TargetURI.location"],
    "C14": ["gallia.services.uds.server.UDSServer.default_response_if_sub_function_not_supported", "gallia.services.uds.server.UDSServer.update_state",
            "gallia.services.uds.core.service.UDSRequest.parse_dynamic"],
    "C19": ["gallia.services.uds.server.UDSServerTransport.handle_request"],
}

